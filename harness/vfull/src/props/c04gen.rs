//! Reusable generators for IPC / Flight workloads (C04 and the chunking / fault /
//! corruption workloads built on top of it):
//!
//! * [`gen_sequence`]: `(schema, Vec<RecordBatch>)` plus the logical model of every
//!   column and the per-batch dictionary evolution events,
//! * [`gen_write_opts`] / [`WriteOpts::to_ipc`]: random `IpcWriteOptions`,
//! * [`write_ipc`]: the bytes produced by `FileWriter` / `StreamWriter` /
//!   `StreamEncoder` for a sequence.
//!
//! Dictionary histories: every `Dictionary` node of the schema's type tree is a
//! *slot* with a controlled values array. Per batch a slot is kept (same `Arc`),
//! rebuilt equal (new `Arc`, other physical layout), extended (old values are a
//! strict prefix => delta), replaced, shrunk or emptied. Two columns may share a
//! slot. Arrays are first built by `vcore::build` and then *re-keyed* against
//! the slot, recursively (dictionaries below list / struct / map / union /
//! run-end / dictionary values).

#![allow(dead_code)] // reusable API for the chunking / fault / corruption workloads

use std::collections::{BTreeMap, HashMap};
use std::sync::Arc;

use arrow_array::cast::AsArray;
use arrow_array::types::*;
use arrow_array::*;
use arrow_buffer::ArrowNativeType;
use arrow_ipc::writer::{
    DictionaryHandling, FileWriter, IpcWriteOptions, StreamEncoder, StreamWriter,
};
use arrow_ipc::{CompressionType, MetadataVersion};
use arrow_schema::{ArrowError, DataType, Field, FieldRef, Fields, Schema, SchemaRef, UnionFields};
use vcore::build::{self, R};
use vcore::extract::extract;
use vcore::gens::{self, TypeCfg};
use vcore::mon::{PanicInfo, guard};
use vcore::rng::Rng;
use vcore::val::Val;

// ------------------------------------------------------------------ config

#[derive(Clone, Debug)]
pub struct SeqCfg {
    pub types: TypeCfg,
    pub max_cols: usize,
    pub max_batches: usize,
    pub max_rows: usize,
    /// schema / field metadata
    pub metadata: bool,
    /// allow schemas without columns
    pub zero_col: bool,
    /// Dictionary<K, nested>, RunEndEncoded<_, Dictionary / nested>
    pub exotic: bool,
    /// every column contains a dictionary
    pub dict_focus: bool,
    /// only flat columns (longer batches)
    pub flat: bool,
}

impl SeqCfg {
    pub fn ipc() -> Self {
        let mut types = TypeCfg::all();
        types.empty_struct = true;
        SeqCfg {
            types,
            max_cols: 4,
            max_batches: 6,
            max_rows: 100,
            metadata: true,
            zero_col: true,
            exotic: true,
            dict_focus: false,
            flat: false,
        }
    }
}

/// What happened to the dictionary of one field between the previous batch
/// that carried it and this one (as the IPC writer will see it).
#[derive(Clone, Copy, Debug, PartialEq, Eq, PartialOrd, Ord)]
pub enum DictEv {
    First,
    /// same `Arc`
    Same,
    /// equal values, different allocation / layout
    Equal,
    /// old values are a strict prefix of the new ones
    Extend,
    Replace,
}

impl DictEv {
    pub fn name(&self) -> &'static str {
        match self {
            DictEv::First => "first",
            DictEv::Same => "same",
            DictEv::Equal => "equal",
            DictEv::Extend => "extend",
            DictEv::Replace => "replace",
        }
    }
}

pub struct Seq {
    pub schema: SchemaRef,
    pub batches: Vec<RecordBatch>,
    /// model[batch][column] = logical values
    pub model: Vec<Vec<Vec<Val>>>,
    pub rows: Vec<usize>,
    /// events[batch] = (dictionary field path, event)
    pub events: Vec<Vec<(String, DictEv)>>,
    pub style: &'static str,
    /// columns that share their dictionary slots with an earlier column
    pub shared: Vec<(usize, usize)>,
}

impl Seq {
    pub fn has_dict(&self) -> bool {
        self.schema.fields().iter().any(|f| has_dict(f.data_type()))
    }
    /// First batch the IPC *file* writer has to reject (dictionary replaced, or
    /// extended while deltas are off); `None` if the whole sequence is writable.
    pub fn first_file_incompatible(&self, delta: bool) -> Option<usize> {
        self.events.iter().position(|evs| {
            evs.iter()
                .any(|(_, e)| *e == DictEv::Replace || (*e == DictEv::Extend && !delta))
        })
    }
    /// coarse history class of the whole sequence
    pub fn hist_class(&self) -> String {
        let mut worst = DictEv::First;
        let mut any = false;
        for evs in &self.events {
            for (_, e) in evs {
                any = true;
                if *e > worst {
                    worst = *e;
                }
            }
        }
        if !any { "nodict".into() } else { format!("{}:{}", self.style, worst.name()) }
    }
    pub fn describe(&self) -> String {
        let mut s = format!("schema: {:?}\nmetadata: {:?}\n", self.schema.fields(), self.schema.metadata());
        for (b, m) in self.model.iter().enumerate() {
            s.push_str(&format!("batch {b}: rows={} dict-events={:?}\n", self.rows[b], self.events[b]));
            for (c, v) in m.iter().enumerate() {
                let d: String = vcore::val::dump_vals(v).chars().take(400).collect();
                s.push_str(&format!("  col {c}: {d}\n"));
            }
        }
        s
    }
}

// ------------------------------------------------------------------ types

pub fn has_dict(dt: &DataType) -> bool {
    use DataType::*;
    match dt {
        Dictionary(_, _) => true,
        List(f) | LargeList(f) | ListView(f) | LargeListView(f) | FixedSizeList(f, _) | Map(f, _) => {
            has_dict(f.data_type())
        }
        Struct(fs) => fs.iter().any(|f| has_dict(f.data_type())),
        Union(ufs, _) => ufs.iter().any(|(_, f)| has_dict(f.data_type())),
        RunEndEncoded(_, v) => has_dict(v.data_type()),
        _ => false,
    }
}

/// depth-limited type shape for evidence classes
pub fn shape(dt: &DataType, depth: u32) -> String {
    use DataType::*;
    let sub = |f: &FieldRef| {
        if depth == 0 { "..".to_string() } else { shape(f.data_type(), depth - 1) }
    };
    match dt {
        List(f) => format!("List<{}>", sub(f)),
        LargeList(f) => format!("LList<{}>", sub(f)),
        ListView(f) => format!("LV<{}>", sub(f)),
        LargeListView(f) => format!("LLV<{}>", sub(f)),
        FixedSizeList(f, n) => format!("FSL{}<{}>", if *n == 0 { "0" } else { "" }, sub(f)),
        Struct(fs) => {
            if depth == 0 {
                "S<..>".into()
            } else {
                format!("S<{}>", fs.iter().map(|f| shape(f.data_type(), depth - 1)).collect::<Vec<_>>().join(","))
            }
        }
        Map(e, _) => match e.data_type() {
            Struct(kv) if kv.len() == 2 && depth > 0 => {
                format!("Map<{},{}>", shape(kv[0].data_type(), 0), shape(kv[1].data_type(), depth - 1))
            }
            _ => "Map<..>".into(),
        },
        Union(fs, m) => {
            let m = if *m == arrow_schema::UnionMode::Dense { "d" } else { "s" };
            if depth == 0 {
                format!("U{m}<..>")
            } else {
                format!("U{m}<{}>", fs.iter().map(|(_, f)| shape(f.data_type(), depth - 1)).collect::<Vec<_>>().join(","))
            }
        }
        Dictionary(k, v) => format!("Dict<{k:?},{}>", shape(v, depth)),
        RunEndEncoded(r, v) => format!("REE<{:?},{}>", r.data_type(), shape(v.data_type(), depth)),
        other => gens::type_class(other),
    }
}

fn gen_md(rng: &mut Rng) -> HashMap<String, String> {
    const KEYS: [&str; 7] = ["k", "", "ARROW:extension:name", "κλειδί", "a b", "PARQUET:field_id", "k2"];
    let n = 1 + rng.below(2);
    let mut m = HashMap::new();
    for _ in 0..n {
        let k = rng.pick(&KEYS).to_string();
        let v = if rng.chance(1, 3) { String::new() } else { gens::gen_string(rng) };
        m.insert(k, v);
    }
    m
}

fn deco_field(rng: &mut Rng, f: &Field) -> Field {
    let dt = decorate(rng, f.data_type());
    let mut nf = Field::new(f.name(), dt, f.is_nullable());
    if rng.chance(1, 5) {
        nf = nf.with_metadata(gen_md(rng));
    }
    nf
}

/// The same type with custom metadata on some nested fields. Run-end child
/// fields stay plain (`RunArray::try_new` derives them).
pub fn decorate(rng: &mut Rng, dt: &DataType) -> DataType {
    use DataType::*;
    match dt {
        List(f) => List(Arc::new(deco_field(rng, f))),
        LargeList(f) => LargeList(Arc::new(deco_field(rng, f))),
        ListView(f) => ListView(Arc::new(deco_field(rng, f))),
        LargeListView(f) => LargeListView(Arc::new(deco_field(rng, f))),
        FixedSizeList(f, n) => FixedSizeList(Arc::new(deco_field(rng, f)), *n),
        Struct(fs) => Struct(fs.iter().map(|f| deco_field(rng, f)).collect::<Vec<_>>().into()),
        Map(f, o) => Map(Arc::new(deco_field(rng, f)), *o),
        Union(ufs, m) => {
            let ids: Vec<i8> = ufs.iter().map(|(i, _)| i).collect();
            let fs: Vec<Field> = ufs.iter().map(|(_, f)| deco_field(rng, f)).collect();
            Union(UnionFields::try_new(ids, fs).expect("model: union fields"), *m)
        }
        Dictionary(k, v) => Dictionary(k.clone(), Box::new(decorate(rng, v))),
        RunEndEncoded(r, v) => RunEndEncoded(
            r.clone(),
            Arc::new(Field::new(v.name(), decorate(rng, v.data_type()), v.is_nullable())),
        ),
        other => other.clone(),
    }
}

fn wide_key(rng: &mut Rng) -> DataType {
    use DataType::*;
    rng.pick(&[Int16, Int32, Int64, UInt16, UInt32, UInt64]).clone()
}
fn any_key(rng: &mut Rng) -> DataType {
    use DataType::*;
    rng.pick(&[Int8, Int16, Int32, Int64, UInt8, UInt16, UInt32, UInt64]).clone()
}

fn prim_no_null(rng: &mut Rng, cfg: &TypeCfg) -> DataType {
    let mut c = cfg.clone();
    c.null_type = false;
    gens::gen_primitive_type(rng, &c)
}

fn ree_of(rng: &mut Rng, v: DataType) -> DataType {
    use DataType::*;
    let re = rng.pick(&[Int16, Int32, Int64]).clone();
    RunEndEncoded(
        Arc::new(Field::new("run_ends", re, false)),
        Arc::new(Field::new("values", v, true)),
    )
}

/// A nested type that is not directly a dictionary (usable as dictionary value type).
fn nested_non_dict(rng: &mut Rng, cfg: &TypeCfg, depth: u32) -> DataType {
    let c = cfg.clone().depth(depth);
    for _ in 0..20 {
        let t = gens::gen_type(rng, &c);
        // a union cannot carry the null entry / null run vcore::build may put into
        // dictionary values / run values, so not directly below Dictionary / RunEndEncoded
        if !matches!(t, DataType::Dictionary(_, _) | DataType::Null | DataType::Union(_, _)) {
            return t;
        }
    }
    DataType::Utf8
}

pub fn gen_col_type(rng: &mut Rng, cfg: &SeqCfg) -> DataType {
    use DataType::*;
    if cfg.flat {
        return match rng.below(8) {
            0 => Dictionary(Box::new(wide_key(rng)), Box::new(prim_no_null(rng, &cfg.types))),
            1 => {
                let v = prim_no_null(rng, &cfg.types);
                ree_of(rng, v)
            }
            _ => gens::gen_primitive_type(rng, &cfg.types),
        };
    }
    let depth = *rng.pick(&[0u32, 1, 1, 2, 2, 3]);
    let tc = cfg.types.clone().depth(depth);
    for _ in 0..50 {
        let k = rng.below(if cfg.dict_focus { 9 } else { 24 });
        let t = match k {
            0 if cfg.exotic => Dictionary(Box::new(wide_key(rng)), Box::new(nested_non_dict(rng, &cfg.types, 1))),
            1 if cfg.exotic => {
                let d = Dictionary(Box::new(wide_key(rng)), Box::new(prim_no_null(rng, &cfg.types)));
                ree_of(rng, d)
            }
            2 if cfg.exotic => {
                let v = nested_non_dict(rng, &cfg.types, 1);
                ree_of(rng, v)
            }
            3 | 4 => Dictionary(Box::new(any_key(rng)), Box::new(prim_no_null(rng, &cfg.types))),
            5 => {
                let d = Dictionary(Box::new(wide_key(rng)), Box::new(prim_no_null(rng, &cfg.types)));
                let f = Arc::new(Field::new("item", d, true));
                match rng.below(5) {
                    0 => List(f),
                    1 => LargeList(f),
                    2 => ListView(f),
                    3 => FixedSizeList(f, 2),
                    _ => LargeListView(f),
                }
            }
            6 => {
                let d = Dictionary(Box::new(wide_key(rng)), Box::new(prim_no_null(rng, &cfg.types)));
                let p = gens::gen_primitive_type(rng, &cfg.types);
                let mut fs = vec![Field::new("d", d, true), Field::new("p", p, true)];
                if rng.bool() {
                    fs.reverse();
                }
                Struct(Fields::from(fs))
            }
            _ => gens::gen_type(rng, &tc),
        };
        if cfg.dict_focus && !has_dict(&t) {
            continue;
        }
        return t;
    }
    Dictionary(Box::new(Int32), Box::new(Utf8))
}

// ------------------------------------------------------------------ dictionary slots

#[derive(Clone, Copy, Debug, PartialEq, Eq)]
enum Mode {
    First,
    Same,
    EqualNew,
    Extend,
    Replace,
    Shrink,
    Empty,
}

#[derive(Default)]
struct Slot {
    values: Vec<Val>,
    arr: Option<ArrayRef>,
    /// batch index + 1 of the last rebuild / reuse
    touched: usize,
}

struct DictEnv {
    slots: BTreeMap<String, Slot>,
    /// column index -> column whose slots it shares
    alias: Vec<usize>,
    modes: HashMap<String, Mode>,
    mode_rng: Rng,
    style: u8,
    batch: usize,
    prev: BTreeMap<String, (Vec<Val>, ArrayRef)>,
    events: Vec<(String, DictEv)>,
}

impl DictEnv {
    /// slot key of a field path ("c3/i/0" -> "c1/i/0" when column 3 shares with 1)
    fn slot_key(&self, path: &str) -> String {
        let (root, rest) = match path.find('/') {
            Some(i) => (&path[..i], &path[i..]),
            None => (path, ""),
        };
        let c: usize = root[1..].parse().expect("model: path root");
        format!("c{}{}", self.alias[c], rest)
    }
    fn mode(&mut self, path: &str) -> Mode {
        let key = self.slot_key(path);
        if let Some(m) = self.modes.get(&key) {
            return *m;
        }
        let exists = self.slots.get(&key).map(|s| s.arr.is_some()).unwrap_or(false);
        let m = if !exists {
            Mode::First
        } else {
            use Mode::*;
            match self.style {
                0 => *self.mode_rng.pick(&[Same, Same, EqualNew]),
                1 => *self.mode_rng.pick(&[Same, EqualNew, Extend, Extend]),
                _ => *self.mode_rng.pick(&[Same, EqualNew, Extend, Replace, Replace, Shrink, Empty]),
            }
        };
        self.modes.insert(key, m);
        m
    }
    fn pool_pick(&self, path: &str, rng: &mut Rng) -> Option<Val> {
        let key = self.slot_key(path);
        let s = self.slots.get(&key)?;
        let nn: Vec<&Val> = s.values.iter().filter(|v| !v.is_null()).collect();
        if nn.is_empty() { None } else { Some((*rng.pick(&nn)).clone()) }
    }
    fn note(&mut self, path: &str, values: &[Val], arr: &ArrayRef) {
        let ev = match self.prev.get(path) {
            None => DictEv::First,
            Some((pv, pa)) => {
                if Arc::as_ptr(pa) as *const u8 == Arc::as_ptr(arr) as *const u8 {
                    DictEv::Same
                } else if pv[..] == values[..] {
                    DictEv::Equal
                } else if values.len() > pv.len() && values[..pv.len()] == pv[..] {
                    DictEv::Extend
                } else {
                    DictEv::Replace
                }
            }
        };
        self.events.push((path.to_string(), ev));
        self.prev.insert(path.to_string(), (values.to_vec(), arr.clone()));
    }
}

struct G<'a> {
    rng: &'a mut Rng,
    env: &'a mut DictEnv,
    cfg: &'a TypeCfg,
    chaos: bool,
}

fn key_cap(k: &DataType) -> usize {
    match k {
        DataType::Int8 => 127,
        DataType::UInt8 => 255,
        _ => 30_000,
    }
}

// ------------------------------------------------------------------ pool-aware value generation

fn gen_field_p(g: &mut G, f: &Field, path: &str) -> Val {
    if f.is_nullable() && gens::can_be_null(f.data_type()) && g.rng.chance(1, 5) {
        return Val::Null;
    }
    let v = gen_val_p(g, f.data_type(), path);
    if v.is_null() && !f.is_nullable() && !matches!(f.data_type(), DataType::Null) {
        panic!("model: null generated for non-nullable field {f:?}");
    }
    v
}

/// One value of `dt`; below `Dictionary` nodes values are drawn from the slot's
/// pool according to the slot's mode for this batch. May return `Null` only for
/// dictionary / run-end positions (which are always nullable).
fn gen_val_p(g: &mut G, dt: &DataType, path: &str) -> Val {
    use DataType::*;
    if !has_dict(dt) {
        return gens::gen_value(g.rng, dt, g.cfg);
    }
    match dt {
        Dictionary(_, v) => {
            let mode = g.env.mode(path);
            let pct = match mode {
                Mode::Same | Mode::EqualNew => 100,
                Mode::Extend => 60,
                Mode::Shrink => 50,
                _ => 0,
            };
            if g.rng.below(100) < pct {
                if let Some(v) = g.env.pool_pick(path, g.rng) {
                    return v;
                }
                if pct == 100 {
                    return Val::Null;
                }
            }
            gen_val_p(g, v, &format!("{path}/d"))
        }
        List(f) | LargeList(f) | ListView(f) | LargeListView(f) => {
            let n = *g.rng.pick(&[0usize, 0, 1, 1, 2, 3, 5, 9]);
            let p = format!("{path}/i");
            Val::List((0..n).map(|_| gen_field_p(g, f, &p)).collect())
        }
        FixedSizeList(f, n) => {
            let p = format!("{path}/i");
            Val::List((0..*n).map(|_| gen_field_p(g, f, &p)).collect())
        }
        Struct(fs) => Val::Struct(
            fs.iter()
                .enumerate()
                .map(|(j, f)| gen_field_p(g, f, &format!("{path}/{j}")))
                .collect(),
        ),
        Map(entries, _) => {
            let Struct(kv) = entries.data_type() else { panic!("model: map entries") };
            let n = *g.rng.pick(&[0usize, 0, 1, 2, 3, 4]);
            let p = format!("{path}/i/1");
            Val::List(
                (0..n)
                    .map(|_| {
                        let k = gens::gen_value(g.rng, kv[0].data_type(), g.cfg);
                        let v = gen_field_p(g, &kv[1], &p);
                        Val::Struct(vec![k, v])
                    })
                    .collect(),
            )
        }
        Union(ufs, _) => {
            let i = g.rng.below(ufs.len());
            let (tid, f) = ufs.iter().nth(i).unwrap();
            Val::Union(tid, Box::new(gen_field_p(g, f, &format!("{path}/{i}"))))
        }
        RunEndEncoded(_, v) => gen_val_p(g, v.data_type(), &format!("{path}/v")),
        _ => unreachable!(),
    }
}

fn gen_column_p(g: &mut G, dt: &DataType, n: usize, nullable: bool, path: &str) -> Vec<Val> {
    if !has_dict(dt) {
        return gens::gen_column(g.rng, dt, n, nullable, g.cfg);
    }
    let can_null = nullable && gens::can_be_null(dt);
    let (nn, nd) = if can_null { gens::null_chance(g.rng) } else { (0, 1) };
    let dup = g.rng.chance(1, 3);
    let runs = g.rng.chance(1, 5);
    let mut out: Vec<Val> = Vec::with_capacity(n);
    for i in 0..n {
        if runs && i > 0 && g.rng.chance(3, 4) {
            let p = out[i - 1].clone();
            out.push(p);
            continue;
        }
        if nn > 0 && g.rng.chance(nn, nd) {
            out.push(Val::Null);
        } else if dup && i > 0 && g.rng.chance(1, 2) {
            let j = g.rng.below(i);
            let p = out[j].clone();
            out.push(p);
        } else {
            let v = gen_val_p(g, dt, path);
            if v.is_null() && !can_null {
                panic!("model: null generated for non-nullable column of {dt}");
            }
            out.push(v);
        }
    }
    out
}

// ------------------------------------------------------------------ build + re-key

fn build_col(g: &mut G, dt: &DataType, vals: &[Val], path: &str) -> ArrayRef {
    let a = if g.chaos { build::realise(g.rng, dt, vals) } else { build::build(dt, vals) };
    if has_dict(dt) { rekey(g, &a, path) } else { a }
}

fn rekey(g: &mut G, a: &ArrayRef, path: &str) -> ArrayRef {
    use DataType::*;
    let dt = a.data_type().clone();
    if !has_dict(&dt) {
        return a.clone();
    }
    match &dt {
        Dictionary(k, v) => rekey_dict(g, a, k, v, path),
        List(f) => {
            let l = a.as_list::<i32>();
            let c = rekey(g, l.values(), &format!("{path}/i"));
            Arc::new(ListArray::try_new(f.clone(), l.offsets().clone(), c, l.nulls().cloned()).expect("model: list"))
        }
        LargeList(f) => {
            let l = a.as_list::<i64>();
            let c = rekey(g, l.values(), &format!("{path}/i"));
            Arc::new(LargeListArray::try_new(f.clone(), l.offsets().clone(), c, l.nulls().cloned()).expect("model: llist"))
        }
        ListView(f) => {
            let l = a.as_list_view::<i32>();
            let c = rekey(g, l.values(), &format!("{path}/i"));
            Arc::new(
                ListViewArray::try_new(f.clone(), l.offsets().clone(), l.sizes().clone(), c, l.nulls().cloned())
                    .expect("model: lv"),
            )
        }
        LargeListView(f) => {
            let l = a.as_list_view::<i64>();
            let c = rekey(g, l.values(), &format!("{path}/i"));
            Arc::new(
                LargeListViewArray::try_new(f.clone(), l.offsets().clone(), l.sizes().clone(), c, l.nulls().cloned())
                    .expect("model: llv"),
            )
        }
        FixedSizeList(f, n) => {
            let l = a.as_fixed_size_list();
            let c = rekey(g, l.values(), &format!("{path}/i"));
            Arc::new(
                FixedSizeListArray::try_new_with_length(f.clone(), *n, c, l.nulls().cloned(), l.len())
                    .expect("model: fsl"),
            )
        }
        Struct(fs) => Arc::new(rekey_struct(g, a.as_struct(), fs, path)),
        Map(f, ordered) => {
            let m = a.as_map();
            let Struct(fs) = f.data_type() else { panic!("model: map entries") };
            let e = rekey_struct(g, m.entries(), fs, &format!("{path}/i"));
            Arc::new(MapArray::try_new(f.clone(), m.offsets().clone(), e, m.nulls().cloned(), *ordered).expect("model: map"))
        }
        Union(ufs, _) => {
            let u = a.as_union();
            let mut children = Vec::new();
            for (j, (tid, _)) in ufs.iter().enumerate() {
                children.push(rekey(g, u.child(tid), &format!("{path}/{j}")));
            }
            Arc::new(
                UnionArray::try_new(ufs.clone(), u.type_ids().clone(), u.offsets().cloned(), children)
                    .expect("model: union"),
            )
        }
        RunEndEncoded(re, _) => match re.data_type() {
            Int16 => rekey_ree::<Int16Type>(g, a, path),
            Int32 => rekey_ree::<Int32Type>(g, a, path),
            Int64 => rekey_ree::<Int64Type>(g, a, path),
            _ => panic!("model: run end type"),
        },
        _ => a.clone(),
    }
}

fn rekey_struct(g: &mut G, s: &StructArray, fs: &Fields, path: &str) -> StructArray {
    if fs.is_empty() {
        return s.clone();
    }
    let cols: Vec<ArrayRef> = s
        .columns()
        .iter()
        .enumerate()
        .map(|(j, c)| rekey(g, c, &format!("{path}/{j}")))
        .collect();
    StructArray::try_new(fs.clone(), cols, s.nulls().cloned()).expect("model: struct")
}

fn rekey_ree<Rt: RunEndIndexType>(g: &mut G, a: &ArrayRef, path: &str) -> ArrayRef {
    let r = a.as_run::<Rt>();
    let v = rekey(g, r.values(), &format!("{path}/v"));
    let re = PrimitiveArray::<Rt>::new(r.run_ends().inner().clone(), None);
    let full = RunArray::<Rt>::try_new(&re, v.as_ref()).expect("model: ree");
    Arc::new(full.slice(r.run_ends().offset(), r.run_ends().len()))
}

fn rekey_dict(g: &mut G, a: &ArrayRef, kt: &DataType, vt: &DataType, path: &str) -> ArrayRef {
    let rows = extract(a.as_ref());
    let skey = g.env.slot_key(path);
    let mode = g.env.mode(path);
    let cap = key_cap(kt);
    let bno = g.env.batch + 1;
    let (old_vals, old_arr, touched) = match g.env.slots.get(&skey) {
        Some(s) => (s.values.clone(), s.arr.clone(), s.touched == bno),
        None => (vec![], None, false),
    };
    // distinct non-null row values in order of first appearance
    let mut distinct: Vec<Val> = Vec::new();
    {
        let mut seen: HashMap<&Val, ()> = HashMap::new();
        for v in &rows {
            if !v.is_null() && seen.insert(v, ()).is_none() {
                distinct.push(v.clone());
            }
        }
    }
    let has_null_row = rows.iter().any(|v| v.is_null());
    let in_old: HashMap<&Val, ()> = old_vals.iter().map(|v| (v, ())).collect();
    let missing_old: Vec<Val> = distinct.iter().filter(|v| !in_old.contains_key(v)).cloned().collect();
    let mut eff = if old_arr.is_none() {
        Mode::First
    } else if touched {
        if missing_old.is_empty() { Mode::Same } else { Mode::Extend }
    } else {
        mode
    };
    // rows outside the pool (garbage rows of the physical layout): keep / equal degrade to extend
    if matches!(eff, Mode::Same | Mode::EqualNew) && !missing_old.is_empty() {
        eff = Mode::Extend;
    }
    drop(in_old);
    let mut values: Vec<Val> = match eff {
        Mode::Same | Mode::EqualNew => old_vals.clone(),
        Mode::Extend => {
            let mut v = old_vals.clone();
            v.extend(missing_old.iter().cloned());
            if g.rng.chance(1, 3) && v.len() + 2 < cap {
                // unused new entry
                let x = gen_val_p(g, vt, &format!("{path}/d"));
                if !x.is_null() {
                    v.push(x);
                }
            }
            v
        }
        Mode::Shrink => {
            let k = g.rng.below(old_vals.len() + 1);
            let mut v: Vec<Val> = old_vals[..k].to_vec();
            let have: HashMap<Val, ()> = v.iter().map(|x| (x.clone(), ())).collect();
            v.extend(distinct.iter().filter(|x| !have.contains_key(*x)).cloned());
            v
        }
        Mode::First | Mode::Replace | Mode::Empty => fresh_values(g, &distinct, has_null_row, vt, cap, path, eff == Mode::Empty),
    };
    if values.len() > cap {
        values = distinct.clone();
        eff = Mode::Replace;
    }
    let arr: ArrayRef = if eff == Mode::Same {
        old_arr.clone().unwrap()
    } else {
        build_col(g, vt, &values, &format!("{path}/d"))
    };
    // index of the chosen values
    let mut index: HashMap<&Val, Vec<usize>> = HashMap::new();
    let mut null_idx: Vec<usize> = Vec::new();
    for (i, v) in values.iter().enumerate() {
        if v.is_null() {
            null_idx.push(i);
        } else {
            index.entry(v).or_default().push(i);
        }
    }
    let garbage = g.chaos && g.rng.bool();
    let n = rows.len();
    let (pre, post) = if g.chaos && g.rng.bool() {
        (*g.rng.pick(&[0usize, 1, 3, 7, 8, 9, 63, 65]), *g.rng.pick(&[0usize, 0, 1, 5]))
    } else {
        (0, 0)
    };
    let mut keys: Vec<Option<usize>> = Vec::with_capacity(pre + n + post);
    let pad = |g: &mut G, keys: &mut Vec<Option<usize>>, m: usize| {
        for _ in 0..m {
            if !values.is_empty() && g.rng.bool() {
                keys.push(Some(g.rng.below(values.len())));
            } else {
                keys.push(None);
            }
        }
    };
    pad(g, &mut keys, pre);
    for v in &rows {
        if v.is_null() {
            if !null_idx.is_empty() && g.rng.bool() {
                keys.push(Some(*g.rng.pick(&null_idx)));
            } else {
                keys.push(None);
            }
        } else {
            let c = index.get(v).expect("model: row value not in dictionary");
            keys.push(Some(c[g.rng.below(c.len())]));
        }
    }
    pad(g, &mut keys, post);
    drop(index);
    let out = mk_dict_any(g, kt, &keys, garbage, arr.clone()).slice(pre, n);
    g.env.note(path, &values, &arr);
    let s = g.env.slots.entry(skey).or_default();
    s.values = values;
    s.arr = Some(arr);
    s.touched = bno;
    out
}

fn fresh_values(g: &mut G, distinct: &[Val], has_null_row: bool, vt: &DataType, cap: usize, path: &str, plain: bool) -> Vec<Val> {
    let mut v: Vec<Val> = distinct.to_vec();
    if plain {
        return v;
    }
    if g.rng.chance(1, 3) {
        // unused entries
        for _ in 0..1 + g.rng.below(2) {
            if v.len() + 2 < cap {
                let x = gen_val_p(g, vt, &format!("{path}/d"));
                if !x.is_null() {
                    v.push(x);
                }
            }
        }
    }
    if g.rng.chance(1, 4) && !v.is_empty() && v.len() + 2 < cap {
        // duplicate entry
        let x = v[g.rng.below(v.len())].clone();
        v.push(x);
    }
    if gens::can_be_null(vt) && v.len() + 2 < cap && ((has_null_row && g.rng.chance(1, 3)) || g.rng.chance(1, 12)) {
        v.push(Val::Null);
    }
    if g.rng.chance(1, 2) {
        g.rng.shuffle(&mut v);
    }
    v
}

fn mk_dict_any(g: &mut G, kt: &DataType, keys: &[Option<usize>], garbage: bool, values: ArrayRef) -> ArrayRef {
    use DataType::*;
    match kt {
        Int8 => mk_dict_k::<Int8Type>(g, keys, garbage, values),
        Int16 => mk_dict_k::<Int16Type>(g, keys, garbage, values),
        Int32 => mk_dict_k::<Int32Type>(g, keys, garbage, values),
        Int64 => mk_dict_k::<Int64Type>(g, keys, garbage, values),
        UInt8 => mk_dict_k::<UInt8Type>(g, keys, garbage, values),
        UInt16 => mk_dict_k::<UInt16Type>(g, keys, garbage, values),
        UInt32 => mk_dict_k::<UInt32Type>(g, keys, garbage, values),
        UInt64 => mk_dict_k::<UInt64Type>(g, keys, garbage, values),
        _ => panic!("model: dictionary key type"),
    }
}

fn mk_dict_k<K: ArrowDictionaryKeyType>(g: &mut G, keys: &[Option<usize>], garbage: bool, values: ArrayRef) -> ArrayRef {
    let mut kv: Vec<K::Native> = Vec::with_capacity(keys.len());
    for k in keys {
        match k {
            Some(i) => kv.push(K::Native::from_usize(*i).expect("model: key capacity")),
            None => {
                if garbage {
                    let x = g.rng.below(120);
                    kv.push(K::Native::from_usize(x).unwrap_or_default());
                } else {
                    kv.push(K::Native::default());
                }
            }
        }
    }
    let all_valid = keys.iter().all(|k| k.is_some());
    let chaos = g.chaos;
    let mut r = R { rng: &mut *g.rng, chaos, depth: 0 };
    let nulls = if all_valid && !(chaos && r.rng.chance(1, 3)) {
        None
    } else {
        Some(build::mk_nulls(&mut r, keys.iter().map(|k| k.is_some())))
    };
    let kb = build::mk_scalar(&mut r, kv);
    let karr = PrimitiveArray::<K>::new(kb, nulls);
    Arc::new(DictionaryArray::<K>::try_new(karr, values).expect("model: dict try_new"))
}

// ------------------------------------------------------------------ sequences

/// Generate a schema and 1..=max_batches record batches for it (all physical
/// layouts drawn from `vcore::build::realise`), with dictionary histories.
pub fn gen_sequence(rng: &mut Rng, cfg: &SeqCfg) -> Seq {
    let ncols = if cfg.zero_col && rng.chance(1, 14) { 0 } else { 1 + rng.below(cfg.max_cols) };
    let mut types: Vec<DataType> = Vec::new();
    let mut alias: Vec<usize> = Vec::new();
    let mut shared = Vec::new();
    for j in 0..ncols {
        // share the dictionaries of an earlier column
        let cands: Vec<usize> = (0..j).filter(|i| has_dict(&types[*i]) && alias[*i] == *i).collect();
        if !cands.is_empty() && rng.chance(1, 3) {
            let i = *rng.pick(&cands);
            types.push(types[i].clone());
            alias.push(i);
            shared.push((j, i));
            continue;
        }
        let t = gen_col_type(rng, cfg);
        let t = if cfg.metadata && rng.chance(1, 3) { decorate(rng, &t) } else { t };
        types.push(t);
        alias.push(j);
    }
    let mut fields: Vec<Field> = Vec::new();
    for (j, t) in types.iter().enumerate() {
        let force = matches!(
            t,
            DataType::Null | DataType::Union(_, _) | DataType::Dictionary(_, _) | DataType::RunEndEncoded(_, _)
        );
        let nullable = force || !rng.chance(1, 5);
        let name = match rng.below(12) {
            0 => String::new(),
            1 => "c0".to_string(),
            2 => format!("名{j}"),
            _ => format!("c{j}"),
        };
        let mut f = Field::new(name, t.clone(), nullable);
        if cfg.metadata && rng.chance(1, 4) {
            f = f.with_metadata(gen_md(rng));
        }
        fields.push(f);
    }
    let mut schema = Schema::new(fields);
    if cfg.metadata && rng.chance(1, 3) {
        schema = schema.with_metadata(gen_md(rng));
    }
    let schema: SchemaRef = Arc::new(schema);

    let style = rng.pick(&[0u8, 0, 1, 1, 2, 2, 2]).to_owned();
    let mut env = DictEnv {
        slots: BTreeMap::new(),
        alias,
        modes: HashMap::new(),
        mode_rng: rng.fork(),
        style,
        batch: 0,
        prev: BTreeMap::new(),
        events: Vec::new(),
    };
    let nb = 1 + rng.below(cfg.max_batches);
    let max_rows = if cfg.flat { cfg.max_rows } else { *rng.pick(&[8usize, 20, 40, cfg.max_rows]) }.min(cfg.max_rows);
    let mut batches = Vec::new();
    let mut model = Vec::new();
    let mut rows = Vec::new();
    let mut events = Vec::new();
    for b in 0..nb {
        env.batch = b;
        env.modes.clear();
        env.events.clear();
        let n = if rng.chance(1, 7) { 0 } else { rng.len_biased(max_rows) };
        let mut cols: Vec<ArrayRef> = Vec::new();
        let mut mcols: Vec<Vec<Val>> = Vec::new();
        for (j, f) in schema.fields().iter().enumerate() {
            let dt = f.data_type();
            let path = format!("c{j}");
            let chaos = if has_dict(dt) { rng.bool() } else { !rng.chance(1, 8) };
            let mut g = G { rng: &mut *rng, env: &mut env, cfg: &cfg.types, chaos };
            let vals = gen_column_p(&mut g, dt, n, f.is_nullable(), &path);
            let a = build_col(&mut g, dt, &vals, &path);
            if a.data_type() != dt {
                panic!("model: built {} for field type {dt}", a.data_type());
            }
            if has_dict(dt) && extract(a.as_ref()) != vals {
                panic!("model: re-keying changed the logical content of a {dt} column");
            }
            cols.push(a);
            mcols.push(vals);
        }
        let opts = RecordBatchOptions::new().with_row_count(Some(n));
        let batch = RecordBatch::try_new_with_options(schema.clone(), cols, &opts)
            .unwrap_or_else(|e| panic!("model: RecordBatch::try_new: {e}"));
        batches.push(batch);
        model.push(mcols);
        rows.push(n);
        events.push(env.events.clone());
    }
    Seq {
        schema,
        batches,
        model,
        rows,
        events,
        style: ["stable", "growing", "wild"][style as usize],
        shared,
    }
}

// ------------------------------------------------------------------ write options

#[derive(Clone, Debug)]
pub struct WriteOpts {
    pub align: usize,
    /// 0 = V4 legacy framing, 1 = V4, 2 = V5
    pub version: u8,
    /// 0 none, 1 lz4, 2 zstd
    pub compression: u8,
    pub zstd_level: Option<i32>,
    pub delta: bool,
}

impl WriteOpts {
    pub fn to_ipc(&self) -> Result<IpcWriteOptions, ArrowError> {
        let (legacy, v) = match self.version {
            0 => (true, MetadataVersion::V4),
            1 => (false, MetadataVersion::V4),
            _ => (false, MetadataVersion::V5),
        };
        let mut o = IpcWriteOptions::try_new(self.align, legacy, v)?;
        match self.compression {
            1 => o = o.try_with_compression(Some(CompressionType::LZ4_FRAME))?,
            2 => {
                o = o.try_with_compression(Some(CompressionType::ZSTD))?;
                if let Some(l) = self.zstd_level {
                    o = o.try_with_compression_level(Some(l))?;
                }
            }
            _ => {}
        }
        Ok(o.with_dictionary_handling(if self.delta { DictionaryHandling::Delta } else { DictionaryHandling::Resend }))
    }
    pub fn class(&self) -> String {
        format!(
            "{}/{}/{}",
            ["v4l", "v4", "v5"][self.version as usize],
            ["none", "lz4", "zstd"][self.compression as usize],
            if self.delta { "delta" } else { "resend" }
        )
    }
}

pub fn gen_write_opts(rng: &mut Rng) -> WriteOpts {
    let align = *rng.pick(&[8usize, 16, 32, 64, 64]);
    let version = *rng.pick(&[0u8, 1, 2, 2, 2, 2]);
    let compression = if version == 2 { *rng.pick(&[0u8, 0, 1, 2]) } else { 0 };
    let zstd_level = if compression == 2 && rng.bool() { Some(*rng.pick(&[-5i32, 1, 3, 9, 19])) } else { None };
    WriteOpts { align, version, compression, zstd_level, delta: rng.bool() }
}

// ------------------------------------------------------------------ writers

#[derive(Clone, Copy, Debug, PartialEq, Eq)]
pub enum IpcKind {
    File,
    Stream,
    StreamEncoder,
}

impl IpcKind {
    pub fn name(&self) -> &'static str {
        match self {
            IpcKind::File => "file",
            IpcKind::Stream => "stream",
            IpcKind::StreamEncoder => "encoder",
        }
    }
}

pub struct WriteRes {
    /// complete output (only meaningful when `err` and `panic` are `None`)
    pub bytes: Vec<u8>,
    /// (index of the batch whose write failed, or None for open/finish; message)
    pub err: Option<(Option<usize>, String)>,
    pub panic: Option<PanicInfo>,
}

/// Write the batches with the given writer kind; `file_md` is the custom footer
/// metadata of the file format (ignored by the stream kinds).
pub fn write_ipc(
    kind: IpcKind,
    schema: &Schema,
    batches: &[RecordBatch],
    opts: &IpcWriteOptions,
    file_md: &[(String, String)],
) -> WriteRes {
    type E = (Option<usize>, String);
    let r = guard(|| -> Result<Vec<u8>, E> {
        let e0 = |e: ArrowError| (None, e.to_string());
        match kind {
            IpcKind::File => {
                let mut w = FileWriter::try_new_with_options(Vec::new(), schema, opts.clone()).map_err(e0)?;
                for (k, v) in file_md {
                    w.write_metadata(k.clone(), v.clone());
                }
                for (i, b) in batches.iter().enumerate() {
                    w.write(b).map_err(|e| (Some(i), e.to_string()))?;
                }
                w.finish().map_err(e0)?;
                w.into_inner().map_err(e0)
            }
            IpcKind::Stream => {
                let mut w = StreamWriter::try_new_with_options(Vec::new(), schema, opts.clone()).map_err(e0)?;
                for (i, b) in batches.iter().enumerate() {
                    w.write(b).map_err(|e| (Some(i), e.to_string()))?;
                }
                w.finish().map_err(e0)?;
                w.into_inner().map_err(e0)
            }
            IpcKind::StreamEncoder => {
                let mut enc = StreamEncoder::try_new_with_options(schema, opts.clone()).map_err(e0)?;
                let mut out = Vec::new();
                for (i, b) in batches.iter().enumerate() {
                    for buf in enc.encode(b).map_err(|e| (Some(i), e.to_string()))? {
                        out.extend_from_slice(buf.as_slice());
                    }
                }
                for buf in enc.finish().map_err(e0)? {
                    out.extend_from_slice(buf.as_slice());
                }
                Ok(out)
            }
        }
    });
    match r {
        Ok(Ok(bytes)) => WriteRes { bytes, err: None, panic: None },
        Ok(Err(e)) => WriteRes { bytes: vec![], err: Some(e), panic: None },
        Err(p) => WriteRes { bytes: vec![], err: None, panic: Some(p) },
    }
}

/// Convenience for later workloads: a random sequence written under random
/// options; `None` when the writer rejected the input.
pub fn gen_ipc_bytes(rng: &mut Rng, cfg: &SeqCfg, kind: IpcKind) -> (Seq, WriteOpts, Option<Vec<u8>>) {
    let seq = gen_sequence(rng, cfg);
    let wo = gen_write_opts(rng);
    let bytes = match wo.to_ipc() {
        Ok(o) => {
            let r = write_ipc(kind, &seq.schema, &seq.batches, &o, &[]);
            if r.err.is_none() && r.panic.is_none() { Some(r.bytes) } else { None }
        }
        Err(_) => None,
    };
    (seq, wo, bytes)
}
