//! C06 helper: `RowSelection` as a set of row positions.
//!
//! * [`gen_bits`]: position sets (`Vec<bool>`) with the run patterns the reader special-cases
//!   (all / none / single rows / runs aligned to, and straddling, given boundaries);
//! * [`build_sel`]: the same position set as a real `RowSelection`, constructed through a random
//!   recipe (selector vector with split and zero-length runs, `from_filters`, `from_consecutive_ranges`,
//!   `from_boolean_buffer` at a non-zero bit offset, concatenation, `and_then`, `intersection`, `union`,
//!   `split_off` head / tail), recursively, so both backings and all four pairings occur;
//! * [`observe`]: every public observer of a selection against the `Vec<bool>` model;
//! * the `algebra` and `ranges` sections of C06.

use arrow_array::BooleanArray;
use arrow_buffer::BooleanBuffer;
use parquet::arrow::arrow_reader::{MaskRunIter, RowSelection, RowSelector};
use parquet::file::page_index::offset_index::PageLocation;
use std::collections::VecDeque;
use vcore::mon::{Ctx, guard, strip_digits};
use vcore::rng::Rng;

/// `C06_BREAK_MODEL=<what>`: oracle self-test switch (perturbs the *model*, never arrow-rs).
pub fn broken(what: &str) -> bool {
    std::env::var("C06_BREAK_MODEL").map(|v| v == what).unwrap_or(false)
}

pub fn bits_str(b: &[bool]) -> String {
    let mut s = String::with_capacity(b.len().min(400) + 16);
    for (i, x) in b.iter().enumerate() {
        if i >= 400 {
            s.push_str(&format!("..({})", b.len()));
            break;
        }
        s.push(if *x { 'Y' } else { 'N' });
    }
    s
}

pub fn runs(bits: &[bool]) -> Vec<(bool, usize)> {
    let mut out: Vec<(bool, usize)> = Vec::new();
    for &b in bits {
        match out.last_mut() {
            Some((v, n)) if *v == b => *n += 1,
            _ => out.push((b, 1)),
        }
    }
    out
}

pub fn count(bits: &[bool]) -> usize {
    bits.iter().filter(|b| **b).count()
}

/// Position set over `n` rows; `marks` are row positions (row-group / page starts) that runs
/// should begin / end at, or straddle by one.
pub fn gen_bits(rng: &mut Rng, n: usize, marks: &[usize]) -> Vec<bool> {
    if n == 0 {
        return vec![];
    }
    match rng.below(12) {
        0 => vec![true; n],
        1 => vec![false; n],
        2 | 3 => {
            let (a, b) = *rng.pick(&[(1u32, 2u32), (1, 10), (9, 10), (1, 40)]);
            (0..n).map(|_| rng.chance(a, b)).collect()
        }
        4 | 5 => {
            // runs of geometric-ish length
            let mean = *rng.pick(&[2usize, 8, 40]);
            let mut v = Vec::with_capacity(n);
            let mut cur = rng.bool();
            while v.len() < n {
                let l = 1 + rng.below(2 * mean);
                for _ in 0..l.min(n - v.len()) {
                    v.push(cur);
                }
                cur = !cur;
            }
            v
        }
        6 => {
            let mut v = vec![false; n];
            let p = match rng.below(3) {
                0 => 0,
                1 => n - 1,
                _ => rng.below(n),
            };
            v[p] = true;
            v
        }
        7 | 8 if !marks.is_empty() => {
            // toggle at (mark + {-1, 0, 1}) for a random subset of the marks
            let mut toggles: Vec<usize> = Vec::new();
            for &m in marks {
                if rng.chance(2, 3) {
                    let d = rng.range(-1, 1);
                    let p = (m as i64 + d).clamp(0, n as i64) as usize;
                    toggles.push(p);
                }
            }
            if rng.bool() {
                toggles.push(rng.below(n + 1));
            }
            toggles.sort();
            let mut v = Vec::with_capacity(n);
            let mut cur = rng.bool();
            let mut ti = 0;
            for i in 0..n {
                while ti < toggles.len() && toggles[ti] == i {
                    cur = !cur;
                    ti += 1;
                }
                v.push(cur);
            }
            v
        }
        9 => {
            let a = rng.below(n + 1);
            let b = rng.below(n + 1);
            let (a, b) = (a.min(b), a.max(b));
            (0..n).map(|i| i >= a && i < b).collect()
        }
        10 => {
            let ph = rng.bool();
            (0..n).map(|i| (i % 2 == 0) == ph).collect()
        }
        _ => {
            let mut v = vec![true; n];
            v[rng.below(n)] = false;
            v
        }
    }
}

// ------------------------------------------------------------------------------------------------
// observers
// ------------------------------------------------------------------------------------------------

pub fn sel_bits(s: &RowSelection) -> Vec<bool> {
    let mut v = Vec::new();
    for r in s.iter() {
        for _ in 0..r.row_count {
            v.push(!r.skip);
        }
    }
    v
}

fn selectors_bits<'a>(it: impl Iterator<Item = &'a RowSelector>) -> Vec<bool> {
    let mut v = Vec::new();
    for r in it {
        for _ in 0..r.row_count {
            v.push(!r.skip);
        }
    }
    v
}

pub fn repr(s: &RowSelection) -> &'static str {
    if s.as_mask().is_some() { "mask" } else { "sel" }
}

fn simple_vec(bits: &[bool]) -> RowSelection {
    runs(bits)
        .into_iter()
        .map(|(b, n)| if b { RowSelector::select(n) } else { RowSelector::skip(n) })
        .collect::<Vec<_>>()
        .into()
}

fn simple_mask(bits: &[bool]) -> RowSelection {
    RowSelection::from_boolean_buffer(BooleanBuffer::from(bits.to_vec()))
}

/// Compare every public observer of `s` with the model. `Some((observer, detail))` on the first
/// disagreement.
pub fn observe(s: &RowSelection, bits: &[bool]) -> Option<(&'static str, String)> {
    let got = sel_bits(s);
    if got != bits {
        return Some(("iter", format!("iter() denotes {}\nexpected        {}", bits_str(&got), bits_str(bits))));
    }
    if s.as_mask().is_none() {
        // documented invariants of the run-length backing
        let v: Vec<RowSelector> = s.iter().copied().collect();
        if v.iter().any(|r| r.row_count == 0) {
            return Some(("invariant-zero-run", format!("selector-backed selection contains a 0-row selector: {v:?}")));
        }
        if v.windows(2).any(|w| w[0].skip == w[1].skip) {
            return Some(("invariant-alternate", format!("selector-backed selection has adjacent selectors of the same kind: {v:?}")));
        }
    }
    let c = count(bits);
    if s.row_count() != c {
        return Some(("row_count", format!("row_count() = {}, model {c}; bits {}", s.row_count(), bits_str(bits))));
    }
    if s.total_row_count() != bits.len() {
        return Some(("total_row_count", format!("total_row_count() = {}, model {}", s.total_row_count(), bits.len())));
    }
    if s.skipped_row_count() != bits.len() - c {
        return Some(("skipped_row_count", format!("skipped_row_count() = {}, model {}", s.skipped_row_count(), bits.len() - c)));
    }
    if s.selects_any() != (c > 0) {
        return Some(("selects_any", format!("selects_any() = {}, model {}; bits {}", s.selects_any(), c > 0, bits_str(bits))));
    }
    if let Some(m) = s.as_mask() {
        let mb: Vec<bool> = m.iter().collect();
        if mb != bits {
            return Some(("as_mask", format!("as_mask() = {}\nexpected    {}", bits_str(&mb), bits_str(bits))));
        }
        let rb: Vec<RowSelector> = MaskRunIter::new(m).collect();
        if selectors_bits(rb.iter()) != bits {
            return Some(("MaskRunIter", format!("MaskRunIter yields {rb:?} for {}", bits_str(bits))));
        }
    }
    let v: Vec<RowSelector> = s.clone().into();
    if selectors_bits(v.iter()) != bits {
        return Some(("into-vec", format!("Vec<RowSelector>::from = {v:?} for {}", bits_str(bits))));
    }
    let d: VecDeque<RowSelector> = s.clone().into();
    if selectors_bits(d.iter()) != bits {
        return Some(("into-vecdeque", format!("VecDeque<RowSelector>::from = {d:?} for {}", bits_str(bits))));
    }
    // equality is equality of the denoted position sets (over the same number of rows)
    for (name, t) in [("sel", simple_vec(bits)), ("mask", simple_mask(bits))] {
        if !(*s == t) || !(t == *s) {
            return Some(("eq", format!("selection != the {name}-backed selection of the same bits {}", bits_str(bits))));
        }
    }
    if !bits.is_empty() {
        let mut other = bits.to_vec();
        let p = bits.len() / 2;
        other[p] = !other[p];
        for (name, t) in [("sel", simple_vec(&other)), ("mask", simple_mask(&other))] {
            if *s == t || t == *s {
                return Some(("eq", format!("selection == a {name}-backed selection that differs at row {p}; bits {}", bits_str(bits))));
            }
        }
    }
    None
}

/// A disagreement found while constructing / combining selections.
#[derive(Debug, Clone)]
pub struct Issue {
    pub sig: String,
    pub detail: String,
}

fn check(issues: &mut Vec<Issue>, op: &str, reprs: &str, s: &RowSelection, bits: &[bool], inputs: &str) {
    match guard(|| observe(s, bits)) {
        Ok(None) => {}
        Ok(Some((obs, d))) => issues.push(Issue {
            sig: format!("C06|algebra|{op}|{reprs}|{obs}"),
            detail: format!("{op} ({reprs}): {d}\n{inputs}"),
        }),
        Err(p) => issues.push(Issue {
            sig: format!("C06|algebra|{op}|{reprs}|observer-panic|{}|{}", p.file(), strip_digits(&p.msg)),
            detail: format!("{op} ({reprs}): panic {} @ {}\nexpected bits {}\n{inputs}", p.msg, p.loc, bits_str(bits)),
        }),
    }
}

// ------------------------------------------------------------------------------------------------
// construction
// ------------------------------------------------------------------------------------------------

pub struct Built {
    pub sel: RowSelection,
    /// full recipe, e.g. `and_then(mask,filters)`
    pub recipe: String,
    /// top-level recipe name (class strings)
    pub top: &'static str,
}

fn leaf_vec(rng: &mut Rng, bits: &[bool]) -> RowSelection {
    let mut v: Vec<RowSelector> = Vec::new();
    let zero = |rng: &mut Rng, v: &mut Vec<RowSelector>| {
        if rng.chance(1, 5) {
            v.push(if rng.bool() { RowSelector::select(0) } else { RowSelector::skip(0) });
        }
    };
    zero(rng, &mut v);
    for (b, n) in runs(bits) {
        // split the run into 1..3 adjacent selectors of the same kind
        let mut left = n;
        while left > 0 {
            let take = if rng.chance(1, 4) && left > 1 { 1 + rng.below(left - 1) } else { left };
            v.push(if b { RowSelector::select(take) } else { RowSelector::skip(take) });
            left -= take;
            zero(rng, &mut v);
        }
    }
    if rng.bool() { v.into() } else { v.into_iter().collect() }
}

fn sliced_bool_array(rng: &mut Rng, bits: &[bool]) -> BooleanArray {
    let pre = if rng.bool() { rng.below(20) } else { 0 };
    let post = rng.below(3);
    let mut v: Vec<bool> = (0..pre).map(|_| rng.bool()).collect();
    v.extend_from_slice(bits);
    v.extend((0..post).map(|_| rng.bool()));
    BooleanArray::from(v).slice(pre, bits.len())
}

fn leaf_filters(rng: &mut Rng, bits: &[bool]) -> RowSelection {
    let k = 1 + rng.below(4);
    let mut cuts: Vec<usize> = (0..k - 1).map(|_| rng.below(bits.len() + 1)).collect();
    cuts.push(0);
    cuts.push(bits.len());
    cuts.sort();
    let arrays: Vec<BooleanArray> = cuts.windows(2).map(|w| sliced_bool_array(rng, &bits[w[0]..w[1]])).collect();
    RowSelection::from_filters(&arrays)
}

fn leaf_ranges(rng: &mut Rng, bits: &[bool]) -> RowSelection {
    let mut rs: Vec<std::ops::Range<usize>> = Vec::new();
    let mut at = 0usize;
    for (b, n) in runs(bits) {
        if b {
            if n > 1 && rng.chance(1, 4) {
                let m = 1 + rng.below(n - 1);
                rs.push(at..at + m);
                rs.push(at + m..at + n);
            } else {
                rs.push(at..at + n);
            }
        } else if rng.chance(1, 6) {
            rs.push(at..at); // empty range
        }
        at += n;
    }
    RowSelection::from_consecutive_ranges(rs.into_iter(), bits.len())
}

fn leaf_mask(rng: &mut Rng, bits: &[bool]) -> RowSelection {
    let pre = if rng.chance(2, 3) { rng.below(70) } else { 0 };
    let post = rng.below(10);
    let mut v: Vec<bool> = (0..pre).map(|_| rng.bool()).collect();
    v.extend_from_slice(bits);
    v.extend((0..post).map(|_| rng.bool()));
    let b = BooleanBuffer::from(v).slice(pre, bits.len());
    if rng.bool() { RowSelection::from_boolean_buffer(b) } else { RowSelection::from(b) }
}

/// Build a `RowSelection` denoting `bits`. Every intermediate selection is checked with
/// [`observe`]; disagreements go to `issues`.
pub fn build_sel(rng: &mut Rng, bits: &[bool], depth: u32, issues: &mut Vec<Issue>) -> Built {
    let n = bits.len();
    let k = if depth == 0 { rng.below(4) } else { rng.below(11) };
    let inputs = |extra: &str| format!("expected bits {}\n{extra}", bits_str(bits));
    match k {
        0 => {
            let s = leaf_vec(rng, bits);
            check(issues, "from-vec", "sel", &s, bits, &inputs(""));
            Built { sel: s, recipe: "vec".into(), top: "vec" }
        }
        1 => {
            let s = leaf_filters(rng, bits);
            check(issues, "from_filters", "sel", &s, bits, &inputs(""));
            Built { sel: s, recipe: "filters".into(), top: "filters" }
        }
        2 => {
            let s = leaf_ranges(rng, bits);
            check(issues, "from_consecutive_ranges", "sel", &s, bits, &inputs(""));
            Built { sel: s, recipe: "ranges".into(), top: "ranges" }
        }
        3 => {
            let s = leaf_mask(rng, bits);
            check(issues, "from_boolean_buffer", "mask", &s, bits, &inputs(""));
            Built { sel: s, recipe: "mask".into(), top: "mask" }
        }
        4 => {
            // concatenation
            let k = 1 + rng.below(4);
            let mut cuts: Vec<usize> = (0..k - 1).map(|_| rng.below(n + 1)).collect();
            cuts.push(0);
            cuts.push(n);
            cuts.sort();
            let all_mask = rng.bool();
            let mut parts = Vec::new();
            let mut names = Vec::new();
            for w in cuts.windows(2) {
                let b = if all_mask {
                    Built { sel: leaf_mask(rng, &bits[w[0]..w[1]]), recipe: "mask".into(), top: "mask" }
                } else {
                    build_sel(rng, &bits[w[0]..w[1]], depth - 1, issues)
                };
                names.push(b.recipe);
                parts.push(b.sel);
            }
            let reprs: Vec<&str> = parts.iter().map(repr).collect();
            let reprs = reprs.join("+");
            let s: RowSelection = parts.into_iter().collect();
            check(issues, "concat", &reprs, &s, bits, &inputs(&format!("cuts {cuts:?}")));
            Built { sel: s, recipe: format!("concat({})", names.join(",")), top: "concat" }
        }
        5 | 6 => {
            // and_then: a superset refined by a selection over its selected rows
            let sup: Vec<bool> = match rng.below(3) {
                0 => vec![true; n],
                1 => bits.to_vec(),
                _ => bits.iter().map(|b| *b || rng.chance(1, 3)).collect(),
            };
            let refine: Vec<bool> = (0..n).filter(|i| sup[*i]).map(|i| bits[i]).collect();
            let a = build_sel(rng, &sup, depth - 1, issues);
            let b = build_sel(rng, &refine, depth - 1, issues);
            let reprs = format!("{}x{}", repr(&a.sel), repr(&b.sel));
            let s = a.sel.and_then(&b.sel);
            check(issues, "and_then", &reprs, &s, bits, &inputs(&format!("self  {}\nother {}", bits_str(&sup), bits_str(&refine))));
            Built { sel: s, recipe: format!("and_then({},{})", a.recipe, b.recipe), top: "and_then" }
        }
        7 => {
            // intersection of two supersets
            let a_bits: Vec<bool> = bits.iter().map(|b| *b || rng.chance(1, 3)).collect();
            let b_bits: Vec<bool> = (0..n).map(|i| bits[i] || (!a_bits[i] && rng.bool())).collect();
            let a = build_sel(rng, &a_bits, depth - 1, issues);
            let b = build_sel(rng, &b_bits, depth - 1, issues);
            let reprs = format!("{}x{}", repr(&a.sel), repr(&b.sel));
            let s = a.sel.intersection(&b.sel);
            check(issues, "intersection", &reprs, &s, bits, &inputs(&format!("self  {}\nother {}", bits_str(&a_bits), bits_str(&b_bits))));
            Built { sel: s, recipe: format!("inter({},{})", a.recipe, b.recipe), top: "intersection" }
        }
        8 => {
            // union of two subsets
            let a_bits: Vec<bool> = bits.iter().map(|b| *b && rng.chance(2, 3)).collect();
            let b_bits: Vec<bool> = (0..n).map(|i| bits[i] && (!a_bits[i] || rng.bool())).collect();
            let a = build_sel(rng, &a_bits, depth - 1, issues);
            let b = build_sel(rng, &b_bits, depth - 1, issues);
            let reprs = format!("{}x{}", repr(&a.sel), repr(&b.sel));
            let s = a.sel.union(&b.sel);
            check(issues, "union", &reprs, &s, bits, &inputs(&format!("self  {}\nother {}", bits_str(&a_bits), bits_str(&b_bits))));
            Built { sel: s, recipe: format!("union({},{})", a.recipe, b.recipe), top: "union" }
        }
        9 => {
            // tail of a split
            let k = rng.below(40);
            let pre = gen_bits(rng, k, &[]);
            let mut all = pre.clone();
            all.extend_from_slice(bits);
            let mut x = build_sel(rng, &all, depth - 1, issues);
            let r = repr(&x.sel);
            let head = x.sel.split_off(pre.len());
            check(issues, "split_off-head", r, &head, &pre, &format!("split_off({}) of {}", pre.len(), bits_str(&all)));
            check(issues, "split_off-tail", r, &x.sel, bits, &format!("split_off({}) of {}", pre.len(), bits_str(&all)));
            Built { sel: x.sel, recipe: format!("split_tail({})", x.recipe), top: "split_tail" }
        }
        _ => {
            // head of a split
            let k = rng.below(40);
            let post = gen_bits(rng, k, &[]);
            let mut all = bits.to_vec();
            all.extend_from_slice(&post);
            let mut x = build_sel(rng, &all, depth - 1, issues);
            let r = repr(&x.sel);
            let head = x.sel.split_off(n);
            check(issues, "split_off-head", r, &head, bits, &format!("split_off({n}) of {}", bits_str(&all)));
            check(issues, "split_off-tail", r, &x.sel, &post, &format!("split_off({n}) of {}", bits_str(&all)));
            Built { sel: head, recipe: format!("split_head({})", x.recipe), top: "split_head" }
        }
    }
}

pub fn report_issues(ctx: &mut Ctx, issues: &[Issue]) {
    for i in issues {
        ctx.violation(&i.sig, i.detail.clone());
    }
}

// ------------------------------------------------------------------------------------------------
// section `algebra`
// ------------------------------------------------------------------------------------------------

/// Model of `intersection` / `union` on selections of different total length: the documented
/// example (rustdoc of `RowSelection::intersection`) lets the tail of the longer side pass through.
fn combine(a: &[bool], b: &[bool], and: bool) -> Vec<bool> {
    let n = a.len().max(b.len());
    (0..n)
        .map(|i| match (a.get(i), b.get(i)) {
            (Some(x), Some(y)) => {
                if and {
                    *x && *y
                } else if broken("union") {
                    *x != *y
                } else {
                    *x || *y
                }
            }
            (Some(x), None) | (None, Some(x)) => *x,
            (None, None) => false,
        })
        .collect()
}

pub fn algebra_case(ctx: &mut Ctx, rng: &mut Rng) {
    let mut issues: Vec<Issue> = Vec::new();
    let n = if rng.chance(1, 8) { rng.below(3) } else { rng.len_biased(300) };
    let marks: Vec<usize> = (0..rng.below(5)).map(|_| rng.below(n + 1)).collect();
    let a_bits = gen_bits(rng, n, &marks);
    let r = guard(|| {
        let mut cur_bits = a_bits.clone();
        let mut cur = build_sel(rng, &a_bits, 2, &mut issues);
        let mut trail = vec![cur.recipe.clone()];
        let mut classes: Vec<String> = Vec::new();
        let steps = 1 + rng.below(3);
        for _ in 0..steps {
            let op = rng.below(6);
            match op {
                0 => {
                    let c = count(&cur_bits);
                    let b_bits = gen_bits(rng, c, &[]);
                    let b = build_sel(rng, &b_bits, 1, &mut issues);
                    let mut it = b_bits.iter();
                    let exp: Vec<bool> = cur_bits.iter().map(|x| *x && *it.next().unwrap()).collect();
                    let reprs = format!("{}x{}", repr(&cur.sel), repr(&b.sel));
                    let s = cur.sel.and_then(&b.sel);
                    check(&mut issues, "and_then", &reprs, &s, &exp, &format!("self  {}\nother {}\ntrail {trail:?} / {}", bits_str(&cur_bits), bits_str(&b_bits), b.recipe));
                    classes.push(format!("algebra|and_then|{reprs}|{}|{}", cur.top, b.top));
                    trail.push(format!("and_then({})", b.recipe));
                    cur = Built { sel: s, recipe: String::new(), top: "and_then" };
                    cur_bits = exp;
                }
                1 | 2 => {
                    let and = op == 1;
                    let m = match rng.below(4) {
                        0 => rng.below(cur_bits.len() + 1),
                        1 => cur_bits.len() + rng.below(70),
                        _ => cur_bits.len(),
                    };
                    let b_bits = gen_bits(rng, m, &[]);
                    let b = build_sel(rng, &b_bits, 1, &mut issues);
                    let exp = combine(&cur_bits, &b_bits, and);
                    let name = if and { "intersection" } else { "union" };
                    let len_class = if m == cur_bits.len() { "eqlen" } else { "neqlen" };
                    let flip = rng.bool();
                    let (l, rr, lb, rb) = if flip { (&b.sel, &cur.sel, &b_bits, &cur_bits) } else { (&cur.sel, &b.sel, &cur_bits, &b_bits) };
                    let reprs = format!("{}x{}", repr(l), repr(rr));
                    let s = if and { l.intersection(rr) } else { l.union(rr) };
                    check(&mut issues, &format!("{name}-{len_class}"), &reprs, &s, &exp, &format!("self  {}\nother {}\ntrail {trail:?} / {}", bits_str(lb), bits_str(rb), b.recipe));
                    classes.push(format!("algebra|{name}|{reprs}|{len_class}|{}|{}", cur.top, b.top));
                    trail.push(format!("{name}({})", b.recipe));
                    cur = Built { sel: s, recipe: String::new(), top: if and { "intersection" } else { "union" } };
                    cur_bits = exp;
                }
                3 | 4 => {
                    let len = cur_bits.len();
                    let k = match rng.below(5) {
                        0 => 0,
                        1 => len,
                        2 => len + 1 + rng.below(5),
                        _ => rng.below(len + 1),
                    };
                    let r = repr(&cur.sel);
                    let head = cur.sel.split_off(k);
                    let cut = k.min(len);
                    let inputs = format!("split_off({k}) of {}\ntrail {trail:?}", bits_str(&cur_bits));
                    check(&mut issues, "split_off-head", r, &head, &cur_bits[..cut], &inputs);
                    check(&mut issues, "split_off-tail", r, &cur.sel, &cur_bits[cut..], &inputs);
                    classes.push(format!("algebra|split_off|{r}|{}|{}", if k == 0 { "zero" } else if k >= len { "all" } else { "mid" }, cur.top));
                    trail.push(format!("split_off({k})"));
                    if op == 3 {
                        cur_bits = cur_bits[..cut].to_vec();
                        cur = Built { sel: head, recipe: String::new(), top: "split_head" };
                    } else {
                        cur_bits = cur_bits[cut..].to_vec();
                        cur.top = "split_tail";
                    }
                }
                _ => {
                    // re-concatenate pieces obtained by repeated split_off
                    let len = cur_bits.len();
                    let mut rest = cur.sel.clone();
                    let mut parts = Vec::new();
                    let mut taken = 0usize;
                    let r = repr(&cur.sel);
                    while taken < len {
                        let k = 1 + rng.below((len - taken).min(64));
                        let h = rest.split_off(k);
                        check(&mut issues, "split_off-head", r, &h, &cur_bits[taken..taken + k], &format!("repeated split_off, piece at {taken}+{k} of {}", bits_str(&cur_bits)));
                        parts.push(h);
                        taken += k;
                    }
                    check(&mut issues, "split_off-tail", r, &rest, &[], "remainder after splitting off every row");
                    let s: RowSelection = parts.into_iter().collect();
                    check(&mut issues, "concat", r, &s, &cur_bits, &format!("pieces of repeated split_off of {}", bits_str(&cur_bits)));
                    classes.push(format!("algebra|resplit|{r}|{}", cur.top));
                    trail.push("resplit".into());
                    cur = Built { sel: s, recipe: String::new(), top: "concat" };
                }
            }
        }
        (classes, trail, cur_bits.len())
    });
    ctx.eval();
    match r {
        Ok((classes, trail, _)) => {
            if n > 0 {
                for c in classes {
                    ctx.class(c);
                }
            }
            ctx.count("algebra_ops", trail.len() as u64);
            ctx.sample(|| format!("algebra n={n} bits {} trail {trail:?}", bits_str(&a_bits)));
        }
        Err(p) => {
            if p.msg.starts_with("model:") || p.loc.contains("/props/c06") {
                ctx.inconclusive(&format!("harness panic in algebra: {} @ {}", p.msg, p.loc));
            } else {
                ctx.panic_violation("algebra", &p, format!("bits {}", bits_str(&a_bits)));
            }
        }
    }
    report_issues(ctx, &issues);
}

// ------------------------------------------------------------------------------------------------
// scan_ranges
// ------------------------------------------------------------------------------------------------

/// `scan_ranges` against the model: (missing pages, ranges that are no page / out of order, exact?)
pub fn check_scan_ranges(sel: &RowSelection, bits: &[bool], pages: &[PageLocation]) -> Result<bool, (&'static str, String)> {
    let got = sel.scan_ranges(pages);
    let mut want: Vec<std::ops::Range<u64>> = Vec::new();
    for (i, p) in pages.iter().enumerate() {
        let lo = p.first_row_index as usize;
        let hi = pages.get(i + 1).map(|q| q.first_row_index as usize).unwrap_or(usize::MAX);
        let any = (lo..hi.min(bits.len())).any(|r| bits[r]);
        if any || (broken("scan") && i == 0) {
            want.push(p.offset as u64..p.offset as u64 + p.compressed_page_size as u64);
        }
    }
    let dump = || format!("bits {}\npages {:?}\nscan_ranges {got:?}\nexpected    {want:?}", bits_str(bits), pages.iter().map(|p| (p.first_row_index, p.offset, p.compressed_page_size)).collect::<Vec<_>>());
    for w in &want {
        if !got.contains(w) {
            return Err(("missing-page", format!("page {w:?} holds a selected row but is not in scan_ranges\n{}", dump())));
        }
    }
    let all: Vec<std::ops::Range<u64>> = pages.iter().map(|p| p.offset as u64..p.offset as u64 + p.compressed_page_size as u64).collect();
    for g in &got {
        if !all.contains(g) {
            return Err(("not-a-page", format!("range {g:?} is not the byte range of a page\n{}", dump())));
        }
    }
    if got.windows(2).any(|w| w[0].start >= w[1].start) {
        return Err(("order", format!("ranges not strictly increasing\n{}", dump())));
    }
    if got != want && std::env::var("C06_DEBUG").is_ok() {
        eprintln!("scan_ranges returns extra pages\n{}", dump());
    }
    Ok(got == want)
}

pub fn ranges_case(ctx: &mut Ctx, rng: &mut Rng) {
    let mut issues: Vec<Issue> = Vec::new();
    let npages = 1 + rng.below(12);
    let zero_row_pages = rng.chance(1, 4);
    let mut pages: Vec<PageLocation> = Vec::new();
    let mut row = 0i64;
    let mut off = 4 + rng.below(100) as i64;
    for _ in 0..npages {
        let size = 1 + rng.below(200) as i32;
        pages.push(PageLocation { offset: off, compressed_page_size: size, first_row_index: row });
        off += size as i64 + if rng.chance(1, 3) { rng.below(50) as i64 } else { 0 };
        let step = if rng.bool() { rng.below(4) } else { rng.below(40) };
        // the real writer emits an occasional page without rows (same first_row_index as the next page)
        row += if zero_row_pages && rng.chance(1, 6) { 0 } else { 1 + step as i64 };
    }
    let total = (row as usize).max(pages.last().map(|p| p.first_row_index as usize + 1).unwrap_or(1)); // the last page ends at `total`
    let n = match rng.below(6) {
        0 => rng.below(total + 1), // selection covering a prefix only: the rest is not selected
        _ => total,
    };
    let marks: Vec<usize> = pages.iter().map(|p| p.first_row_index as usize).collect();
    let bits = gen_bits(rng, n, &marks);
    let r = guard(|| {
        let b = build_sel(rng, &bits, 1, &mut issues);
        let r = check_scan_ranges(&b.sel, &bits, &pages);
        (repr(&b.sel), b.top, r)
    });
    ctx.eval();
    match r {
        Ok((rp, top, Ok(exact))) => {
            ctx.count(if exact { "scan_ranges_exact" } else { "scan_ranges_with_extra_pages" }, 1);
            if n > 0 {
                ctx.class(format!("ranges|{rp}|{top}|pages{}|{}|{}", npages.min(4), if n < total { "prefix" } else { "full" }, if zero_row_pages { "zero-row-pages" } else { "-" }));
            }
        }
        Ok((rp, _, Err((what, d)))) => ctx.violation(&format!("C06|scan_ranges|{rp}|{what}"), d),
        Err(p) => {
            if p.msg.starts_with("model:") || p.loc.contains("/props/c06") {
                ctx.inconclusive(&format!("harness panic in ranges: {} @ {}", p.msg, p.loc));
            } else {
                ctx.panic_violation("scan_ranges", &p, format!("bits {}\npages {pages:?}", bits_str(&bits)));
            }
        }
    }
    report_issues(ctx, &issues);
}
