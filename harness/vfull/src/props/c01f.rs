//! C01, format-reader part: every record batch returned `Ok` by the IPC (file / stream),
//! Parquet, CSV, JSON and Avro readers on the harness' own valid files is well-formed, and so is
//! everything the registry kernels return when applied to the columns that were read.
//!
//! `vrun C01` = `vcore::props::c01::run` (sections `pipe`, `ctor`) + section `read` below.
//!
//! Files come from the generators of the round-trip workloads (c04gen, pq_common, c17::{csv,
//! json, avro}): valid by construction (written by the arrow-rs writers under random options).
//! not asserted: that the reader accepts the file, or any value (C04/C05/C17 do that); reader
//! `Err` / panics are counted (`read.<fmt>.err`, `read.<fmt>.panic`), not judged here.

use super::c04gen::{IpcKind, SeqCfg, gen_ipc_bytes};
use super::c17::{avro, csv, json};
use super::pq_common::{ReadOutcome, WriteCfg, gen_read_cfg, read_file, write_file};
use arrow_array::RecordBatch;
use arrow_ipc::reader::{FileReader, StreamReader};
use std::io::Cursor;
use vcore::mon::{Ctx, PanicInfo, guard};
use vcore::props::c01::{check_out_batch, chunk, is_fv_panic, pipeline_from};
use vcore::props::opreg::{panic_class, phenomenon};
use vcore::rng::Rng;

const FORMATS: [&str; 6] = ["ipc-file", "ipc-stream", "parquet", "csv", "json", "avro"];

enum Read {
    Ok(Vec<RecordBatch>, String),
    /// the writer rejected the generated input, or the format has no reader for this framing
    NoFile,
    #[allow(dead_code)]
    Err(String),
    Panic(PanicInfo),
    /// generator / writer / reader did not return within the watchdog budget
    Hang,
}

/// formats whose reader (or writer) hung once in this process are not used again: the hung
/// worker thread cannot be stopped and keeps a core busy
static DISABLED: [std::sync::atomic::AtomicBool; 6] = [const { std::sync::atomic::AtomicBool::new(false) }; 6];

/// `produce` on a worker thread under a wall-clock watchdog (a liveness failure of a reader is
/// the business of C08/C17, here it only makes the case inconclusive)
fn produce_watched(rng: &mut Rng, fmt: &'static str) -> Read {
    let mut r2 = rng.fork();
    let (tx, rx) = std::sync::mpsc::channel();
    let spawned = std::thread::Builder::new().stack_size(64 << 20).spawn(move || {
        let _ = tx.send(produce(&mut r2, fmt));
    });
    if spawned.is_err() {
        return Read::NoFile;
    }
    match rx.recv_timeout(std::time::Duration::from_secs(20)) {
        Ok(r) => r,
        Err(_) => Read::Hang,
    }
}

fn ipc_read(bytes: &[u8], file: bool, proj: Option<Vec<usize>>) -> Result<Vec<RecordBatch>, String> {
    let mut out = Vec::new();
    if file {
        let r = FileReader::try_new(Cursor::new(bytes), proj).map_err(|e| e.to_string())?;
        for b in r {
            out.push(b.map_err(|e| e.to_string())?);
        }
    } else {
        let r = StreamReader::try_new(bytes, proj).map_err(|e| e.to_string())?;
        for b in r {
            out.push(b.map_err(|e| e.to_string())?);
        }
    }
    Ok(out)
}

fn wrap(r: Result<Result<Vec<RecordBatch>, String>, PanicInfo>, desc: String) -> Read {
    match r {
        Ok(Ok(b)) => Read::Ok(b, desc),
        Ok(Err(e)) => Read::Err(e),
        Err(p) => Read::Panic(p),
    }
}

fn produce(rng: &mut Rng, fmt: &str) -> Read {
    match fmt {
        "ipc-file" | "ipc-stream" => {
            let file = fmt == "ipc-file";
            let kind = if file {
                IpcKind::File
            } else if rng.bool() {
                IpcKind::Stream
            } else {
                IpcKind::StreamEncoder
            };
            let (seq, wo, bytes) = match guard(|| gen_ipc_bytes(rng, &SeqCfg::ipc(), kind)) {
                Ok(v) => v,
                Err(p) if p.is_model() => return Read::NoFile,
                Err(_) => return Read::NoFile,
            };
            let Some(bytes) = bytes else { return Read::NoFile };
            let ncols = seq.schema.fields().len();
            let proj = if ncols > 0 && rng.chance(1, 3) { Some((0..ncols).filter(|_| rng.bool()).collect::<Vec<usize>>()) } else { None };
            let desc = format!("{} {} projection {proj:?}\n{}", kind.name(), wo.class(), seq.describe());
            wrap(guard(|| ipc_read(&bytes, file, proj)), desc)
        }
        "parquet" => {
            let w = match guard(|| write_file(rng, &WriteCfg::standard())) {
                Ok(Ok(w)) => w,
                _ => return Read::NoFile,
            };
            let rc = gen_read_cfg(rng, w.logical.rows);
            let desc = format!("{}\nread {rc:?}", w.desc);
            match read_file(&w.bytes, &rc) {
                ReadOutcome::Ok(_, b) => Read::Ok(b, desc),
                ReadOutcome::Err(st, m) => Read::Err(format!("{st}: {m}")),
                ReadOutcome::Panic(p) => Read::Panic(p),
            }
        }
        "csv" => {
            let c = match guard(|| csv::gen_case(rng)) {
                Ok(c) => c,
                Err(_) => return Read::NoFile,
            };
            let bytes = match guard(|| csv::write_csv(&c)) {
                Ok(Ok(b)) => b,
                _ => return Read::NoFile,
            };
            let desc = format!("csv {}\n{}", c.opts.class(), c.case.dump());
            wrap(
                guard(|| {
                    let r = csv::reader_builder(&c).build(Cursor::new(bytes)).map_err(|e| e.to_string())?;
                    let mut out = Vec::new();
                    for b in r {
                        out.push(b.map_err(|e| e.to_string())?);
                    }
                    Ok(out)
                }),
                desc,
            )
        }
        "json" => {
            let c = match guard(|| json::gen_case(rng)) {
                Ok(c) => c,
                Err(_) => return Read::NoFile,
            };
            let bytes = match guard(|| json::write_json(&c)) {
                Ok(Ok(b)) => b,
                _ => return Read::NoFile,
            };
            let desc = format!("json {}\n{}", c.opts.class(), c.case.dump());
            wrap(guard(|| json::read_all(json::reader_builder(&c), bytes)), desc)
        }
        _ => {
            let c = match guard(|| avro::gen_case(rng)) {
                Ok(c) => c,
                Err(_) => return Read::NoFile,
            };
            let w = match guard(|| avro::write_avro(&c)) {
                Ok(Ok(w)) => w,
                _ => return Read::NoFile,
            };
            let desc = format!("avro {}\n{}", c.opts.class(), c.case.dump());
            match guard(|| avro::read_avro(&c, &w)) {
                Ok(None) => Read::NoFile,
                Ok(Some(r)) => wrap(Ok(r), desc),
                Err(p) => Read::Panic(p),
            }
        }
    }
}

fn run_read(ctx: &mut Ctx, i: u64) {
    let mut rng = ctx.begin("read", i);
    // Avro is opt-in (`C01_AVRO=1`): on this tree the OCF reader does not terminate on some of
    // the harness' own valid files (a liveness defect that belongs to C08/C17); every such case
    // costs a full watchdog period and leaves a spinning worker thread behind
    let nfmt = if std::env::var("C01_AVRO").is_ok() { FORMATS.len() } else { FORMATS.len() - 1 };
    let fi = rng.below(nfmt);
    let fmt = FORMATS[fi];
    if DISABLED[fi].load(std::sync::atomic::Ordering::Relaxed) {
        ctx.count(&format!("read.{fmt}.skipped_after_hang"), 1);
        return;
    }
    match produce_watched(&mut rng, fmt) {
        Read::Hang => {
            DISABLED[fi].store(true, std::sync::atomic::Ordering::Relaxed);
            ctx.inconclusive(&format!("{fmt}: generator/writer/reader did not return within 20 s (watchdog); format disabled for the rest of this shard"));
        }
        Read::NoFile => ctx.reject(),
        Read::Err(_) => ctx.count(&format!("read.{fmt}.err"), 1),
        Read::Panic(p) => {
            if is_fv_panic(&p) {
                ctx.violation(&format!("C01|read.{fmt}|fv-panic|{}", panic_class(&p)), format!("force_validate build: the {fmt} reader panicked inside a re-validating constructor: {} @ {}", p.msg, p.loc));
            } else {
                ctx.count(&format!("read.{fmt}.panic|{}", p.file()), 1);
            }
        }
        Read::Ok(batches, desc) => {
            ctx.eval();
            ctx.count(&format!("read.{fmt}.ok"), 1);
            ctx.count(&format!("read.{fmt}.batches"), batches.len() as u64);
            let mut ok = true;
            for (k, b) in batches.iter().enumerate() {
                match check_out_batch(b) {
                    Ok(Ok(())) => {}
                    Ok(Err(e)) => {
                        ok = false;
                        ctx.violation(&format!("C01|read.{fmt}|batch|{}", phenomenon(&e)), format!("batch {k} returned by the {fmt} reader is malformed: {e}\nschema {:?}\n{desc}", b.schema()));
                    }
                    Err(p) if p.is_model() => ctx.inconclusive(&format!("model panic in exercise: {} @ {}", p.msg, p.loc)),
                    Err(p) => {
                        ok = false;
                        ctx.violation(&format!("C01|read.{fmt}|batch|exercise-panic|{}", panic_class(&p)), format!("exercise of batch {k} returned by the {fmt} reader panicked: {} @ {}\nschema {:?}\n{desc}", p.msg, p.loc, b.schema()));
                    }
                }
            }
            let rows: usize = batches.iter().map(|b| b.num_rows()).sum();
            if ok && rows > 0 {
                let shapes: Vec<String> = batches[0].schema().fields().iter().map(|f| vcore::props::opreg::fam(f.data_type()).to_string()).collect();
                ctx.class(format!("read|{fmt}|{}|b{}", shapes.join(","), batches.len().min(3)));
                // reader output feeds the registry kernels
                let cands: Vec<_> = batches.iter().filter(|b| b.num_columns() > 0 && b.num_rows() <= 400).collect();
                if !cands.is_empty() {
                    let b = *rng.pick(&cands);
                    let col = b.column(rng.below(b.num_columns())).clone();
                    pipeline_from(ctx, &mut rng, col, None, 2, format!("read.{fmt} -> "));
                }
            }
            ctx.sample(|| format!("read {fmt}: {} batches, {rows} rows\n{desc}", batches.len()));
        }
    }
}

pub fn run(ctx: &mut Ctx) {
    ctx.sig_norm = Some(vcore::props::c01::norm_sig);
    // the vcore part (pipelines over the registry) and the reader part share the deadline:
    // interleave them in slices so that a deadline cuts both proportionally
    let total_read = ctx.tier.pick(12, 4_000, 120_000);
    const CHUNKS: u64 = 4;
    for k in 0..CHUNKS {
        for i in chunk(ctx, "read", total_read, k, CHUNKS) {
            if ctx.out_of_time() {
                break;
            }
            if let Err(p) = guard(|| run_read(ctx, i)) {
                ctx.inconclusive(&format!("harness panic in read case {i}: {} @ {}", p.msg, p.loc));
            }
        }
        vcore::props::c01::run_slice(ctx, k, CHUNKS);
    }
}
