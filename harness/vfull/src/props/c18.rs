//! C18: truncation and I/O faults are reported, never turned into wrong rows.
//!
//! Events: every `write` / `flush` call the IPC `FileWriter` / `StreamWriter`, the Parquet
//! `ArrowWriter`, the Parquet `AsyncArrowWriter` (through a faulty `AsyncFileWriter` and through a
//! faulty tokio `AsyncWrite`), the arrow-avro `Writer` (OCF and single-object stream), the
//! arrow-csv `Writer` and the arrow-json `Writer` (line delimited and array) make against an
//! instrumented sink; every `read` / `seek` call of the IPC `FileReader` / `StreamReader`, the
//! arrow-avro / arrow-csv / arrow-json `Reader`s against an instrumented `Read + Seek` source, every
//! `get_read` / `get_bytes` / `read` call of the Parquet `ParquetRecordBatchReader` and of
//! `SerializedFileReader::get_row_iter` against an instrumented `ChunkReader`; the `Result` of every
//! API call; the bytes the sink accepted; the batches decoded.
//!
//! Oracle (fault enumeration): a fault-free dry run records the N I/O calls (kind and size of each).
//! Then for every call index k < N (all of them when N <= 1000 (quick) / 1732 (thorough), else a
//! deterministic sample of 1e6/N (3e6/N) indices incl. the first and last ones, see `site_cap`) and
//! every fault kind
//!   * `err`   - call k returns `Err(ErrorKind::Other)` once, nothing accepted, later calls work;
//!   * `dead`  - call k and every later call return `Err(ErrorKind::Other)` (crashed device);
//!   * `short` - call k accepts / returns only half of the bytes (a legal short write / short read);
//!   * `intr`  - call k returns `Err(ErrorKind::Interrupted)` once;
//!   * `pend`  - (async sinks only) call k returns `Poll::Pending` once after waking the task
//! the API sequence is re-run with the `?` discipline (stop at the first `Err`), then the writer is
//! torn down by dropping it (even k+kind) or by `into_inner()` (odd).
//!   writers: no panic; no runaway I/O (call budget 20 N + 1000); the bytes accepted before the fault are
//!   a prefix of the fault-free output (all but Avro OCF); if every API call incl. `finish`/`close`
//!   returned `Ok`, the sink content equals the fault-free output (Avro OCF: after blanking the random
//!   sync marker, which `Writer::sync_marker()` reveals).
//!   readers: no panic; no runaway I/O; every batch returned before the first `Err` equals the
//!   corresponding fault-free batch (IPC: batch by batch; Parquet / Avro / CSV / JSON: row-wise prefix);
//!   a run that ends without `Err` has returned all rows.
//! Truncation: every length 0..len of every produced file (self-delimiting files longer than 16 KiB quick /
//! 32 KiB thorough: the first and last 2048 lengths + a sample, since each read costs O(len)) is read back: Parquet and IPC file => some
//! call returns `Err`; IPC stream => a batch-wise prefix then `Err` or end; Avro OCF and NDJSON => a
//! row-wise prefix then `Err` or end; CSV => no panic only.
//!
//! Sections: `ipc-file`, `ipc-stream`, `parquet`, `parquet-async`, `avro`, `csv`, `json`; a case is one
//! generated input (C04 / C05 generators for IPC / Parquet, a small flat-table generator here for the
//! text formats and Avro) that first has to survive a plain write + read + compare-with-model, and is
//! then explored exhaustively: writer faults, reader faults (two reader configurations for Parquet),
//! truncations.
//!
//! not asserted:
//! * which API call reports the error, the error's kind or message;
//! * whether a short write/read, `Interrupted` or a transient `Err` is retried through or reported;
//! * anything the writer does *after* it has returned an `Err` (the driver stops calling it; what a later
//!   `into_inner()`/drop adds to the sink is only counted: `w-final-not-prefix`), except that the
//!   tear-down must not panic;
//! * `finish()` returning `Ok` after an earlier API call returned `Err` (protocol misuse);
//! * Avro OCF: byte prefix (random sync marker); only the marker-blanked equality on full success;
//! * CSV truncation (the format cannot detect it): only absence of panics; the number of decoded rows
//!   that differ is counted as evidence;
//! * whether a truncated self-delimiting stream ends with `Err` or with a clean end of data;
//! * batch boundaries of the row-oriented readers (Parquet, Avro, CSV, JSON): rows are compared;
//! * output of two fault-free runs that already differs (would be counted `nondeterministic-writer`
//!   and the byte oracles skipped for that input);
//! * inputs whose plain round trip fails (C04 / C05 / C17 territory): skipped and counted.
//!
//! Exploration bounds (never verdicts): the `--deadline`; per input and phase a CPU budget (`CpuBudget`, 4 s quick /
//! 12 s thorough) that drops the remaining sites of an input whose single runs are slow - sites are visited in a
//! deterministic permutation (first, last, shuffled rest), cuts are counted `*-cut-by-cpu-budget`.
//! Counters: `sites|<format>|<w|r>|<kind>` = (call index x kind) pairs at which the fault was actually delivered,
//! `fault-sites-delivered-total`, `trunc-lengths|<format>`, `w-outcome|..` / `r-outcome|..` (reported vs retried
//! through), `skip|..` (unusable inputs by reason), `w-evidence|..` (finish()/into_inner() answering Ok after an
//! API call had already failed - not asserted; `C18_STRICT_FINISH=1` turns it into a violation for triage).
//! `C18_REPRO=1` runs the hand-written minimal reproducers of the findings; `C18_TIMING=1` prints phase timings.
//!
//! Self-test (`C18_BREAK=lossy|eof|ref|rows`): `lossy` adds a sink fault that swallows the bytes of call
//! k but answers `Ok` (what a writer ignoring an error looks like to the oracle), `eof` adds a source
//! fault that answers `Ok(0)` (what a reader mapping errors to end-of-data looks like), `ref` flips a
//! byte of the fault-free reference, `rows` perturbs the expected rows.

use super::c04gen::{self, IpcKind, SeqCfg};
use super::pq_common::{self as pq, ReadOutcome, WriteCfg, WriteMode};
use arrow_array::{ArrayRef, RecordBatch, RecordBatchOptions, StringArray};
use arrow_schema::{DataType, Field, Schema, SchemaRef, TimeUnit};
use bytes::Bytes;
use std::collections::BTreeMap;
use std::io::{self, BufReader, BufWriter, Read, Seek, SeekFrom, Write};
use std::pin::Pin;
use std::sync::{Arc, Mutex};
use std::task::{Context, Poll};
use vcore::build;
use vcore::extract::extract;
use vcore::gens::{self, TypeCfg};
use vcore::mon::{Ctx, PanicInfo, guard, is_rejection_msg, strip_digits};
use vcore::rng::Rng;
use vcore::val::{Val, dump_vals};

// ------------------------------------------------------------------------------------------
// fault model
// ------------------------------------------------------------------------------------------

#[derive(Clone, Copy, PartialEq, Eq, Debug, PartialOrd, Ord)]
enum Kind {
    ErrOnce,
    Dead,
    Short,
    Intr,
    Pending,
    /// self-test only: the sink answers Ok(len) but drops the bytes
    Lossy,
    /// self-test only: the source answers Ok(0)
    Eof,
}

impl Kind {
    fn name(&self) -> &'static str {
        match self {
            Kind::ErrOnce => "err",
            Kind::Dead => "dead",
            Kind::Short => "short",
            Kind::Intr => "intr",
            Kind::Pending => "pend",
            Kind::Lossy => "selftest-lossy",
            Kind::Eof => "selftest-eof",
        }
    }
}

#[derive(Clone, Copy, PartialEq, Eq, Debug)]
enum Op {
    /// sync `write(buf)` / `poll_write(buf)` with buf.len()
    Write(usize),
    Flush,
    /// `AsyncFileWriter::write(Bytes)`: all-or-nothing
    AWrite(usize),
    AComplete,
    Shutdown,
    /// `read(buf)`: min(buf.len(), bytes available)
    Read(usize),
    Seek,
    GetRead,
    GetBytes,
}

fn deliverable(op: Op, kind: Kind) -> bool {
    match kind {
        Kind::ErrOnce | Kind::Dead | Kind::Intr => true,
        Kind::Short => matches!(op, Op::Write(n) | Op::Read(n) if n >= 2),
        Kind::Pending => matches!(op, Op::Write(_) | Op::Flush | Op::AWrite(_) | Op::AComplete | Op::Shutdown),
        Kind::Lossy => matches!(op, Op::Write(n) | Op::AWrite(n) if n >= 1),
        Kind::Eof => matches!(op, Op::Read(n) if n >= 1),
    }
}

/// State shared between the driver and the instrumented sink / source of one run.
#[derive(Default)]
struct IoState {
    /// sink: the bytes accepted so far
    data: Vec<u8>,
    calls: usize,
    log: Vec<Op>,
    record: bool,
    plan: Option<(usize, Kind)>,
    delivered: bool,
    /// sink: `data.len()` when the fault was delivered
    at_len: usize,
    dead: bool,
    budget: usize,
    runaway: bool,
}

type Shared = Arc<Mutex<IoState>>;

fn new_state(plan: Option<(usize, Kind)>, budget: usize, record: bool) -> Shared {
    Arc::new(Mutex::new(IoState { plan, budget, record, ..Default::default() }))
}

fn injected(kind: io::ErrorKind, what: &str) -> io::Error {
    io::Error::new(kind, format!("c18 injected fault: {what}"))
}

enum Act {
    Pass,
    Fail(io::Error),
    Short,
    Pending,
    Lossy,
    Eof,
}

/// Account one I/O call and decide what the instrumented object does with it.
fn account(s: &mut IoState, op: Op) -> Act {
    let idx = s.calls;
    s.calls += 1;
    if s.record {
        s.log.push(op);
    }
    if s.calls > s.budget {
        s.runaway = true;
        return Act::Fail(injected(io::ErrorKind::Other, "I/O call budget exhausted"));
    }
    if s.dead {
        return Act::Fail(injected(io::ErrorKind::Other, "device is dead"));
    }
    if let Some((k, kind)) = s.plan {
        if k == idx && deliverable(op, kind) {
            s.delivered = true;
            s.at_len = s.data.len();
            return match kind {
                Kind::ErrOnce => Act::Fail(injected(io::ErrorKind::Other, "transient error")),
                Kind::Dead => {
                    s.dead = true;
                    Act::Fail(injected(io::ErrorKind::Other, "device died"))
                }
                Kind::Intr => Act::Fail(injected(io::ErrorKind::Interrupted, "interrupted")),
                Kind::Short => Act::Short,
                Kind::Pending => Act::Pending,
                Kind::Lossy => Act::Lossy,
                Kind::Eof => Act::Eof,
            };
        }
    }
    Act::Pass
}

enum SinkRes {
    Done(io::Result<usize>),
    Pending,
}

fn sink_write(st: &Shared, buf: &[u8], op: Op) -> SinkRes {
    let mut s = st.lock().unwrap();
    match account(&mut s, op) {
        Act::Pass | Act::Eof => {
            s.data.extend_from_slice(buf);
            SinkRes::Done(Ok(buf.len()))
        }
        Act::Fail(e) => SinkRes::Done(Err(e)),
        Act::Short => {
            let n = (buf.len() / 2).max(1);
            s.data.extend_from_slice(&buf[..n]);
            SinkRes::Done(Ok(n))
        }
        Act::Pending => SinkRes::Pending,
        Act::Lossy => SinkRes::Done(Ok(buf.len())),
    }
}

fn sink_flush(st: &Shared, op: Op) -> SinkRes {
    let mut s = st.lock().unwrap();
    match account(&mut s, op) {
        Act::Fail(e) => SinkRes::Done(Err(e)),
        Act::Pending => SinkRes::Pending,
        _ => SinkRes::Done(Ok(0)),
    }
}

/// `Write` sink.
struct FaultyW(Shared);

impl Write for FaultyW {
    fn write(&mut self, buf: &[u8]) -> io::Result<usize> {
        match sink_write(&self.0, buf, Op::Write(buf.len())) {
            SinkRes::Done(r) => r,
            SinkRes::Pending => panic!("model: Pending planned for a sync sink"),
        }
    }
    fn flush(&mut self) -> io::Result<()> {
        match sink_flush(&self.0, Op::Flush) {
            SinkRes::Done(r) => r.map(|_| ()),
            SinkRes::Pending => panic!("model: Pending planned for a sync sink"),
        }
    }
}

/// What is left to do with the sink once the format writer handed it back.
trait SinkEnd {
    fn end(self);
}
impl SinkEnd for FaultyW {
    fn end(self) {}
}
impl<W: Write + SinkEnd> SinkEnd for BufWriter<W> {
    fn end(self) {
        if let Ok(w) = self.into_inner() {
            w.end()
        }
    }
}

/// `AsyncFileWriter` implemented directly.
struct FaultyAsyncFW(Shared);

struct PendOnce<T> {
    polled: bool,
    v: Option<T>,
}
impl<T: Unpin> std::future::Future for PendOnce<T> {
    type Output = T;
    fn poll(mut self: Pin<&mut Self>, cx: &mut Context<'_>) -> Poll<T> {
        if !self.polled {
            self.polled = true;
            cx.waker().wake_by_ref();
            return Poll::Pending;
        }
        Poll::Ready(self.v.take().expect("model: PendOnce polled after completion"))
    }
}

fn pq_io_err(e: io::Error) -> parquet::errors::ParquetError {
    parquet::errors::ParquetError::External(Box::new(e))
}

impl parquet::arrow::async_writer::AsyncFileWriter for FaultyAsyncFW {
    fn write(&mut self, bs: Bytes) -> futures::future::BoxFuture<'_, parquet::errors::Result<()>> {
        match sink_write(&self.0, &bs, Op::AWrite(bs.len())) {
            SinkRes::Done(r) => {
                let r = r.map(|_| ()).map_err(pq_io_err);
                Box::pin(async move { r })
            }
            SinkRes::Pending => {
                // the call is pending once, then goes through
                self.0.lock().unwrap().data.extend_from_slice(&bs);
                Box::pin(PendOnce { polled: false, v: Some(Ok(())) })
            }
        }
    }
    fn complete(&mut self) -> futures::future::BoxFuture<'_, parquet::errors::Result<()>> {
        match sink_flush(&self.0, Op::AComplete) {
            SinkRes::Done(r) => {
                let r = r.map(|_| ()).map_err(pq_io_err);
                Box::pin(async move { r })
            }
            SinkRes::Pending => Box::pin(PendOnce { polled: false, v: Some(Ok(())) }),
        }
    }
}

/// tokio `AsyncWrite` (reaches `AsyncArrowWriter` through the blanket `AsyncFileWriter` impl).
struct FaultyTokio(Shared);

impl tokio::io::AsyncWrite for FaultyTokio {
    fn poll_write(self: Pin<&mut Self>, cx: &mut Context<'_>, buf: &[u8]) -> Poll<io::Result<usize>> {
        match sink_write(&self.0, buf, Op::Write(buf.len())) {
            SinkRes::Done(r) => Poll::Ready(r),
            SinkRes::Pending => {
                cx.waker().wake_by_ref();
                Poll::Pending
            }
        }
    }
    fn poll_flush(self: Pin<&mut Self>, cx: &mut Context<'_>) -> Poll<io::Result<()>> {
        match sink_flush(&self.0, Op::Flush) {
            SinkRes::Done(r) => Poll::Ready(r.map(|_| ())),
            SinkRes::Pending => {
                cx.waker().wake_by_ref();
                Poll::Pending
            }
        }
    }
    fn poll_shutdown(self: Pin<&mut Self>, cx: &mut Context<'_>) -> Poll<io::Result<()>> {
        match sink_flush(&self.0, Op::Shutdown) {
            SinkRes::Done(r) => Poll::Ready(r.map(|_| ())),
            SinkRes::Pending => {
                cx.waker().wake_by_ref();
                Poll::Pending
            }
        }
    }
}

/// `Read + Seek` source over an in-memory file.
struct FaultyR {
    data: Bytes,
    pos: u64,
    st: Shared,
}

impl Read for FaultyR {
    fn read(&mut self, buf: &mut [u8]) -> io::Result<usize> {
        let avail = (self.data.len() as u64).saturating_sub(self.pos) as usize;
        let mut n = buf.len().min(avail);
        let act = {
            let mut s = self.st.lock().unwrap();
            account(&mut s, Op::Read(n))
        };
        match act {
            Act::Fail(e) => return Err(e),
            Act::Eof => return Ok(0),
            Act::Short => n = (n / 2).max(1),
            _ => {}
        }
        let p = self.pos as usize;
        buf[..n].copy_from_slice(&self.data[p..p + n]);
        self.pos += n as u64;
        Ok(n)
    }
}

impl Seek for FaultyR {
    fn seek(&mut self, to: SeekFrom) -> io::Result<u64> {
        let act = {
            let mut s = self.st.lock().unwrap();
            account(&mut s, Op::Seek)
        };
        if let Act::Fail(e) = act {
            return Err(e);
        }
        let len = self.data.len() as i128;
        let new = match to {
            SeekFrom::Start(p) => p as i128,
            SeekFrom::End(d) => len + d as i128,
            SeekFrom::Current(d) => self.pos as i128 + d as i128,
        };
        if new < 0 {
            return Err(io::Error::new(io::ErrorKind::InvalidInput, "seek before start"));
        }
        self.pos = new as u64;
        Ok(self.pos)
    }
}

/// Parquet `ChunkReader`.
struct FaultyChunk {
    data: Bytes,
    st: Shared,
}

impl parquet::file::reader::Length for FaultyChunk {
    fn len(&self) -> u64 {
        self.data.len() as u64
    }
}

impl parquet::file::reader::ChunkReader for FaultyChunk {
    type T = FaultyR;
    fn get_read(&self, start: u64) -> parquet::errors::Result<FaultyR> {
        let act = {
            let mut s = self.st.lock().unwrap();
            account(&mut s, Op::GetRead)
        };
        if let Act::Fail(e) = act {
            return Err(pq_io_err(e));
        }
        if start > self.data.len() as u64 {
            return Err(parquet::errors::ParquetError::EOF(format!("get_read at {start} beyond the file length {}", self.data.len())));
        }
        Ok(FaultyR { data: self.data.clone(), pos: start, st: self.st.clone() })
    }
    fn get_bytes(&self, start: u64, length: usize) -> parquet::errors::Result<Bytes> {
        let act = {
            let mut s = self.st.lock().unwrap();
            account(&mut s, Op::GetBytes)
        };
        if let Act::Fail(e) = act {
            return Err(pq_io_err(e));
        }
        let len = self.data.len() as u64;
        if start > len || start + length as u64 > len {
            return Err(parquet::errors::ParquetError::EOF(format!("get_bytes {length} at {start} beyond the file length {len}")));
        }
        Ok(self.data.slice(start as usize..start as usize + length))
    }
}

// ------------------------------------------------------------------------------------------
// generic exploration
// ------------------------------------------------------------------------------------------

#[derive(Clone, Copy, PartialEq, Eq, Debug)]
enum Teardown {
    Drop,
    IntoInner,
}

const MAX_SITES: usize = 3000;

thread_local! {
    /// evidence only: a finish() / into_inner() issued after an API call had already returned Err came back Ok
    static LATE_OK: std::cell::Cell<bool> = const { std::cell::Cell::new(false) };
}
fn late_ok() {
    LATE_OK.with(|c| c.set(true));
}

/// all k when n <= max, else the first and last max/8 (200 for max = 3000 .. 1600) + a deterministic sample
fn pick_sites(n: usize, max: usize, rng: &mut Rng) -> Vec<usize> {
    if n <= max {
        return (0..n).collect();
    }
    let edge = (max / 8).min(200);
    let mut v: Vec<usize> = (0..edge).chain(n - edge..n).collect();
    let mut mid: Vec<usize> = (edge..n - edge).collect();
    rng.shuffle(&mut mid);
    v.extend(mid.into_iter().take(max - 2 * edge));
    v.sort();
    v
}

/// Every fault run repeats about the n I/O calls of the fault-free run, so exploring s sites costs about
/// s * n * kinds call-units (~1 us each). The number of sites per input is bounded by that work (a pure
/// function of n and the tier, so that replays explore the same sites): all call indices when
/// n * n <= work (n <= 1000 quick, n <= 1732 thorough), else work / n of them (first and last ones + a
/// deterministic sample), never below 40 and never above 3000.
fn site_cap(ctx: &Ctx, n: usize, max: usize) -> usize {
    let work: usize = ctx.tier.pick(100_000, 1_000_000, 3_000_000);
    max.min((work / n.max(1)).max(40))
}

/// CPU seconds (user + system) consumed by this thread; wall clock where /proc is not available.
fn cpu_secs() -> f64 {
    if let Ok(s) = std::fs::read_to_string("/proc/thread-self/stat") {
        if let Some((_, rest)) = s.rsplit_once(')') {
            let f: Vec<&str> = rest.split_whitespace().collect();
            if f.len() > 12 {
                if let (Ok(u), Ok(k)) = (f[11].parse::<f64>(), f[12].parse::<f64>()) {
                    return (u + k) / 100.0;
                }
            }
        }
    }
    static START: std::sync::OnceLock<std::time::Instant> = std::sync::OnceLock::new();
    START.get_or_init(std::time::Instant::now).elapsed().as_secs_f64()
}

/// Safety net against single inputs whose every run is slow (thousands of tiny pages, heavy codecs): one
/// exploration phase of one input may use this much CPU, then the remaining sites / lengths of that input
/// are dropped (counted `..-cut-by-cpu-budget`). The order in which sites are visited is a deterministic
/// permutation (first, last, then shuffled), so a cut keeps a spread sample and a replay without budget
/// pressure revisits every site an earlier run visited. Like the deadline, this only bounds exploration.
struct CpuBudget {
    start: f64,
    limit: f64,
    tick: usize,
}
impl CpuBudget {
    fn new(ctx: &Ctx) -> Self {
        CpuBudget { start: cpu_secs(), limit: ctx.tier.pick(1.0, 4.0, 12.0), tick: 0 }
    }
    fn exhausted(&mut self) -> bool {
        self.tick += 1;
        self.tick % 8 == 0 && cpu_secs() - self.start > self.limit
    }
}

/// first, last, then the rest in a deterministic shuffle
fn visit_order(mut sites: Vec<usize>, rng: &mut Rng) -> Vec<usize> {
    if sites.len() > 2 {
        let last = sites.pop().unwrap();
        let first = sites.remove(0);
        rng.shuffle(&mut sites);
        sites.insert(0, last);
        sites.insert(0, first);
    }
    sites
}

fn stage<E: std::fmt::Display>(s: &'static str) -> impl Fn(E) -> String {
    move |e| format!("{s}: {e}")
}

fn self_test() -> Option<String> {
    std::env::var("C18_BREAK").ok()
}

/// Local tallies, flushed into `ctx.count` once per run (keeps the counter map small and ordered).
#[derive(Default)]
struct Tally(BTreeMap<String, u64>);
impl Tally {
    fn add(&mut self, k: String, n: u64) {
        *self.0.entry(k).or_insert(0) += n;
    }
    fn flush(&mut self, ctx: &mut Ctx) {
        for (k, v) in std::mem::take(&mut self.0) {
            ctx.count(&k, v);
        }
    }
}

struct WriterSpec<'a> {
    fmt: &'static str,
    /// runs the whole API sequence against a fresh sink over the given state
    run: &'a dyn Fn(Shared, Teardown) -> Result<(), String>,
    /// normalise the sink content of the run that just finished (identity but for Avro OCF)
    norm: &'a dyn Fn(&[u8]) -> Vec<u8>,
    prefix_asserted: bool,
    kinds: Vec<Kind>,
    witness: &'a dyn Fn() -> String,
}

struct WriterRef {
    /// raw output of the first fault-free run
    bytes: Vec<u8>,
    calls: usize,
}

/// A panic of arrow-rs where the property demands an `Err`. One signature per (format, role, file,
/// leading part of the message): the injected error's text and the fault kind are left to the detail.
fn panic_finding(ctx: &mut Ctx, fmt: &str, role: &str, p: &PanicInfo, detail: String) {
    if p.is_rejection() {
        ctx.reject();
        return;
    }
    if p.msg.starts_with("model:") || p.loc.contains("/harness/") {
        ctx.inconclusive(&format!("harness panic in {fmt} {role}: {} @ {}", p.msg, p.loc));
        return;
    }
    let m = strip_digits(&p.msg);
    let m = m.split("Custom {").next().unwrap_or("").split("c# injected").next().unwrap_or("");
    let m: String = m.trim_end_matches([' ', ':', '"', '(']).chars().take(70).collect();
    ctx.violation(&format!("C18|{fmt}|{role}|panic|{}|{m}", p.file()), format!("panic: {} @ {}\n{detail}", p.msg, p.loc));
}

fn first_diff(a: &[u8], b: &[u8]) -> usize {
    a.iter().zip(b.iter()).position(|(x, y)| x != y).unwrap_or(a.len().min(b.len()))
}

fn size_class(n: usize) -> &'static str {
    match n {
        0..=3 => "N<=3",
        4..=30 => "N<=30",
        31..=300 => "N<=300",
        _ => "N>300",
    }
}

/// Fault enumeration over a writer. `None`: the input was not usable (rejected, counted).
fn explore_writer(ctx: &mut Ctx, t: &mut Tally, rng: &mut Rng, spec: &WriterSpec) -> Option<WriterRef> {
    let t0 = std::time::Instant::now();
    let r = explore_writer_(ctx, t, rng, spec);
    if std::env::var("C18_TIMING").is_ok() {
        eprintln!("   {} writer faults: {:.2}s ({} calls)", spec.fmt, t0.elapsed().as_secs_f64(), r.as_ref().map(|r| r.calls).unwrap_or(0));
    }
    r
}

fn explore_writer_(ctx: &mut Ctx, t: &mut Tally, rng: &mut Rng, spec: &WriterSpec) -> Option<WriterRef> {
    let fmt = spec.fmt;
    // two fault-free runs
    let mut dry: Vec<(Vec<u8>, Vec<u8>, Vec<Op>)> = Vec::new();
    for td in [Teardown::Drop, Teardown::IntoInner] {
        let st = new_state(None, usize::MAX, true);
        let r = guard(|| (spec.run)(st.clone(), td));
        let s = st.lock().unwrap();
        match r {
            Ok(Ok(())) => {}
            Ok(Err(e)) => {
                ctx.reject();
                let m: String = strip_digits(&e).chars().take(80).collect();
                t.add(format!("skip|{fmt}|fault-free write Err: {m}"), 1);
                return None;
            }
            Err(p) => {
                if p.msg.starts_with("model:") {
                    ctx.inconclusive(&format!("{fmt} writer dry run: {} @ {}", p.msg, p.loc));
                } else {
                    // a panic of the plain writer on this input is another property's finding
                    ctx.reject();
                    t.add(format!("skip|{fmt}|fault-free write panics"), 1);
                }
                return None;
            }
        }
        dry.push((s.data.clone(), (spec.norm)(&s.data), s.log.clone()));
    }
    let (raw, mut reference, log_drop) = dry.swap_remove(0);
    let (_, ref_b, log_into) = dry.swap_remove(0);
    // the two tear-downs may differ in trailing calls (a final flush); the accepted bytes must not
    let common = log_drop.len().min(log_into.len());
    let n = log_drop.len().max(log_into.len());
    t.add(format!("w-inputs|{fmt}"), 1);
    t.add(format!("w-io-calls|{fmt}"), n as u64);
    if reference != ref_b || log_drop[..common] != log_into[..common] {
        ctx.reject();
        t.add(format!("skip|{fmt}|nondeterministic-writer"), 1);
        return Some(WriterRef { bytes: raw, calls: n });
    }
    if self_test().as_deref() == Some("ref") && !reference.is_empty() {
        let i = reference.len() / 2;
        reference[i] ^= 0x40;
    }
    let sites = pick_sites(n, site_cap(ctx, n, MAX_SITES), rng);
    if sites.len() < n {
        t.add(format!("w-inputs-sampled|{fmt}"), 1);
    }
    let mut kinds = spec.kinds.clone();
    if self_test().as_deref() == Some("lossy") {
        kinds.push(Kind::Lossy);
    }
    let budget = 20 * n + 1000;
    let mut delivered_here = 0u64;
    let mut outcomes: BTreeMap<&'static str, u64> = BTreeMap::new();
    let sites = visit_order(sites, rng);
    let mut cpu = CpuBudget::new(ctx);
    'sites: for &k in &sites {
        if cpu.exhausted() {
            t.add(format!("w-inputs-cut-by-cpu-budget|{fmt}"), 1);
            break;
        }
        for &kind in &kinds {
            // tear-down by parity, unless call k only exists under the other one
            let mut td = if (k + kind as usize) % 2 == 0 { Teardown::Drop } else { Teardown::IntoInner };
            if td == Teardown::Drop && k >= log_drop.len() {
                td = Teardown::IntoInner;
            } else if td == Teardown::IntoInner && k >= log_into.len() {
                td = Teardown::Drop;
            }
            let log = if td == Teardown::Drop { &log_drop } else { &log_into };
            if !deliverable(log[k], kind) {
                t.add(format!("w-undeliverable|{fmt}|{}", kind.name()), 1);
                continue;
            }
            if ctx.out_of_time() {
                t.add(format!("w-inputs-cut-by-deadline|{fmt}"), 1);
                break 'sites;
            }
            let st = new_state(Some((k, kind)), budget, false);
            LATE_OK.with(|c| c.set(false));
            let r = guard(|| (spec.run)(st.clone(), td));
            let s = st.lock().unwrap();
            let site = || format!("fault {} at I/O call {k} of {n} ({:?}), tear-down {td:?}\n{}", kind.name(), log[k], (spec.witness)());
            if !s.delivered {
                t.add(format!("w-planned-not-delivered|{fmt}|{}", kind.name()), 1);
                continue;
            }
            delivered_here += 1;
            t.add(format!("sites|{fmt}|w|{}", kind.name()), 1);
            t.add("fault-sites-delivered-total".into(), 1);
            let res = match r {
                Ok(r) => r,
                Err(p) => {
                    drop(s);
                    panic_finding(ctx, fmt, "writer", &p, site());
                    continue;
                }
            };
            if s.runaway {
                ctx.violation(
                    &format!("C18|{fmt}|writer|{}|runaway-io", kind.name()),
                    format!("more than {budget} I/O calls after the fault (fault-free run: {n})\n{}", site()),
                );
                continue;
            }
            if spec.prefix_asserted && !reference.starts_with(&s.data[..s.at_len]) {
                ctx.violation(
                    &format!("C18|{fmt}|writer|{}|bytes-before-fault-not-a-prefix", kind.name()),
                    format!(
                        "the {} bytes accepted before the fault differ from the fault-free output at offset {}\n{}",
                        s.at_len,
                        first_diff(&reference, &s.data[..s.at_len]),
                        site()
                    ),
                );
                continue;
            }
            match res {
                Ok(()) => {
                    *outcomes.entry("ok").or_insert(0) += 1;
                    t.add(format!("w-outcome|{fmt}|{}|all-calls-ok", kind.name()), 1);
                    let got = (spec.norm)(&s.data);
                    if got != reference {
                        let d = first_diff(&reference, &got);
                        ctx.violation(
                            &format!("C18|{fmt}|writer|{}|ok-but-output-differs", kind.name()),
                            format!(
                                "every API call incl. finish/close returned Ok, but the sink holds {} bytes, the fault-free output {} bytes; first difference at offset {d}\n{}",
                                got.len(),
                                reference.len(),
                                site()
                            ),
                        );
                    }
                }
                Err(_) => {
                    *outcomes.entry("err").or_insert(0) += 1;
                    t.add(format!("w-outcome|{fmt}|{}|err-reported", kind.name()), 1);
                    if LATE_OK.with(|c| c.get()) {
                        t.add(format!("w-evidence|{fmt}|{}|finish/into_inner Ok after a reported Err (not asserted)", kind.name()), 1);
                        if std::env::var("C18_STRICT_FINISH").is_ok() && matches!(kind, Kind::ErrOnce | Kind::Dead) && !reference.starts_with(&s.data) {
                            // opt-in literal reading of "never reports successful finish/close unless the sink accepted
                            // every byte": the caller ignored the Err of an earlier call and finalised anyway
                            ctx.violation(
                                &format!("C18|{fmt}|writer|finish-ok-after-err"),
                                format!("an API call returned Err ({:?}), the following finish()/into_inner() returned Ok although the sink content is not even a prefix of the fault-free output\n{}", res, site()),
                            );
                        }
                    }
                    if spec.prefix_asserted && !reference.starts_with(&s.data) {
                        t.add(format!("w-final-not-prefix|{fmt}|{}|{td:?}", kind.name()), 1);
                    }
                }
            }
        }
    }
    if delivered_here > 0 {
        ctx.eval();
        ctx.class(format!("{fmt}|writer|{}|{}", size_class(n), outcomes.keys().cloned().collect::<Vec<_>>().join("+")));
    }
    Some(WriterRef { bytes: raw, calls: n })
}

// ------------------------------------------------------------------ readers

struct ReadRun {
    batches: Vec<RecordBatch>,
    err: Option<String>,
}

impl ReadRun {
    fn fail<E: std::fmt::Display>(batches: Vec<RecordBatch>, st: &str, e: E) -> ReadRun {
        ReadRun { batches, err: Some(format!("{st}: {e}")) }
    }
    fn drain<E: std::fmt::Display>(it: impl Iterator<Item = Result<RecordBatch, E>>) -> ReadRun {
        let mut batches = Vec::new();
        for x in it {
            match x {
                Ok(b) => batches.push(b),
                Err(e) => return ReadRun::fail(batches, "next", e),
            }
        }
        ReadRun { batches, err: None }
    }
}

#[derive(Clone, Copy, PartialEq, Eq, Debug)]
enum Trunc {
    /// footer-based: every proper prefix must be rejected
    MustErr,
    /// self-delimiting: a prefix of the rows, then Err or end
    Prefix,
    /// no panic only
    PanicOnly,
    /// not run
    Skip,
}

struct ReaderSpec<'a> {
    fmt: &'static str,
    run: &'a dyn Fn(Bytes, Shared) -> ReadRun,
    /// compare batch by batch (IPC) or the concatenated rows
    batchwise: bool,
    trunc: Trunc,
    kinds: Vec<Kind>,
    /// all call indices up to this many, else a sample of this size
    max_sites: usize,
    witness: &'a dyn Fn() -> String,
}

/// The fault-free result in model form.
struct Expected {
    /// [batch][col][row]
    batches: Vec<Vec<Vec<Val>>>,
    rows: Vec<usize>,
    /// [col][row]
    cols: Vec<Vec<Val>>,
    total: usize,
}

fn model_batch(b: &RecordBatch) -> Vec<Vec<Val>> {
    b.columns().iter().map(|c| extract(c.as_ref())).collect()
}

fn expected_of(batches: &[RecordBatch]) -> Expected {
    let per: Vec<Vec<Vec<Val>>> = batches.iter().map(model_batch).collect();
    let rows: Vec<usize> = batches.iter().map(|b| b.num_rows()).collect();
    let ncols = batches.first().map(|b| b.num_columns()).unwrap_or(0);
    let mut cols: Vec<Vec<Val>> = vec![Vec::new(); ncols];
    for b in &per {
        for (c, v) in b.iter().enumerate() {
            cols[c].extend(v.iter().cloned());
        }
    }
    Expected { total: rows.iter().sum(), batches: per, rows, cols }
}

/// `Ok(complete)` if what was read is a prefix of the expectation.
fn check_prefix(exp: &Expected, got: &[RecordBatch], batchwise: bool) -> Result<bool, String> {
    if batchwise {
        if got.len() > exp.batches.len() {
            return Err(format!("{} batches read, {} written", got.len(), exp.batches.len()));
        }
        for (i, b) in got.iter().enumerate() {
            if b.num_rows() != exp.rows[i] {
                return Err(format!("batch {i} has {} rows, written {}", b.num_rows(), exp.rows[i]));
            }
            let m = model_batch(b);
            if m.len() != exp.batches[i].len() {
                return Err(format!("batch {i} has {} columns, written {}", m.len(), exp.batches[i].len()));
            }
            for (c, v) in m.iter().enumerate() {
                if *v != exp.batches[i][c] {
                    let r = v.iter().zip(exp.batches[i][c].iter()).position(|(a, b)| a != b).unwrap_or(0);
                    return Err(format!(
                        "batch {i} column {c} row {r}: read {} written {}",
                        dump_vals(&v[r..(r + 1).min(v.len())]),
                        dump_vals(&exp.batches[i][c][r..(r + 1).min(exp.batches[i][c].len())])
                    ));
                }
            }
        }
        Ok(got.len() == exp.batches.len())
    } else {
        let mut at = 0usize;
        for (i, b) in got.iter().enumerate() {
            if at + b.num_rows() > exp.total {
                return Err(format!("{} rows read after batch {i}, {} written", at + b.num_rows(), exp.total));
            }
            if b.num_columns() != exp.cols.len() && !exp.batches.is_empty() {
                return Err(format!("batch {i} has {} columns, written {}", b.num_columns(), exp.cols.len()));
            }
            for (c, col) in b.columns().iter().enumerate() {
                let v = extract(col.as_ref());
                if v.len() != b.num_rows() {
                    return Err(format!("batch {i} column {c} has {} rows in a batch of {}", v.len(), b.num_rows()));
                }
                if exp.cols.len() > c && v[..] != exp.cols[c][at..at + v.len()] {
                    let r = v.iter().zip(exp.cols[c][at..].iter()).position(|(a, b)| a != b).unwrap_or(0);
                    return Err(format!(
                        "row {} column {c}: read {} written {}",
                        at + r,
                        dump_vals(&v[r..r + 1]),
                        dump_vals(&exp.cols[c][at + r..at + r + 1])
                    ));
                }
            }
            at += b.num_rows();
        }
        Ok(at == exp.total)
    }
}

fn count_rows(b: &[RecordBatch]) -> usize {
    b.iter().map(|b| b.num_rows()).sum()
}

/// Fault enumeration over a reader + truncation at every length.
fn explore_reader(ctx: &mut Ctx, t: &mut Tally, rng: &mut Rng, spec: &ReaderSpec, file: &Bytes) {
    let fmt = spec.fmt;
    let t_start = std::time::Instant::now();
    let st = new_state(None, usize::MAX, true);
    let r = guard(|| (spec.run)(file.clone(), st.clone()));
    let log = st.lock().unwrap().log.clone();
    let dry = match r {
        Ok(r) if r.err.is_none() => r,
        Ok(r) => {
            ctx.reject();
            let m: String = strip_digits(r.err.as_deref().unwrap_or("")).chars().take(80).collect();
            t.add(format!("skip|{fmt}|fault-free read Err: {m}"), 1);
            return;
        }
        Err(p) => {
            if p.msg.starts_with("model:") {
                ctx.inconclusive(&format!("{fmt} reader dry run: {} @ {}", p.msg, p.loc));
            } else {
                ctx.reject();
                t.add(format!("skip|{fmt}|fault-free read panics"), 1);
            }
            return;
        }
    };
    let mut exp = match guard(|| expected_of(&dry.batches)) {
        Ok(e) => e,
        Err(p) => {
            ctx.inconclusive(&format!("{fmt} extract of the fault-free read: {} @ {}", p.msg, p.loc));
            return;
        }
    };
    if self_test().as_deref() == Some("rows") {
        // perturb the expectation: drop the first row / first batch
        if spec.batchwise {
            if !exp.batches.is_empty() {
                exp.batches.remove(0);
                exp.rows.remove(0);
            }
        } else if exp.total > 0 {
            for c in exp.cols.iter_mut() {
                c.remove(0);
            }
            exp.total -= 1;
        }
    }
    let n = log.len();
    t.add(format!("r-inputs|{fmt}"), 1);
    t.add(format!("r-io-calls|{fmt}"), n as u64);
    let sites = pick_sites(n, site_cap(ctx, n, spec.max_sites), rng);
    if sites.len() < n {
        t.add(format!("r-inputs-sampled|{fmt}"), 1);
    }
    let mut kinds = spec.kinds.clone();
    if self_test().as_deref() == Some("eof") {
        kinds.push(Kind::Eof);
    }
    let budget = 20 * n + 1000;
    let mut delivered_here = 0u64;
    let mut outcomes: BTreeMap<&'static str, u64> = BTreeMap::new();
    let sites = visit_order(sites, rng);
    let mut cpu = CpuBudget::new(ctx);
    'sites: for &k in &sites {
        if cpu.exhausted() {
            t.add(format!("r-inputs-cut-by-cpu-budget|{fmt}"), 1);
            break;
        }
        for &kind in &kinds {
            if !deliverable(log[k], kind) {
                t.add(format!("r-undeliverable|{fmt}|{}", kind.name()), 1);
                continue;
            }
            if ctx.out_of_time() {
                t.add(format!("r-inputs-cut-by-deadline|{fmt}"), 1);
                break 'sites;
            }
            let st = new_state(Some((k, kind)), budget, false);
            let r = guard(|| (spec.run)(file.clone(), st.clone()));
            let (delivered, runaway) = {
                let s = st.lock().unwrap();
                (s.delivered, s.runaway)
            };
            let site = || format!("fault {} at I/O call {k} of {n} ({:?})\n{}", kind.name(), log[k], (spec.witness)());
            if !delivered {
                t.add(format!("r-planned-not-delivered|{fmt}|{}", kind.name()), 1);
                continue;
            }
            delivered_here += 1;
            t.add(format!("sites|{fmt}|r|{}", kind.name()), 1);
            t.add("fault-sites-delivered-total".into(), 1);
            let run = match r {
                Ok(r) => r,
                Err(p) => {
                    panic_finding(ctx, fmt, "reader", &p, site());
                    continue;
                }
            };
            if runaway {
                ctx.violation(
                    &format!("C18|{fmt}|reader|{}|runaway-io", kind.name()),
                    format!("more than {budget} I/O calls after the fault (fault-free run: {n})\n{}", site()),
                );
                continue;
            }
            match guard(|| check_prefix(&exp, &run.batches, spec.batchwise)) {
                Err(p) => {
                    panic_finding(ctx, fmt, "reader-returned-array", &p, site());
                }
                Ok(Err(d)) => ctx.violation(
                    &format!("C18|{fmt}|reader|{}|wrong-rows", kind.name()),
                    format!("a batch returned before any Err differs from the fault-free read: {d}\nend of run: {:?}\n{}", run.err, site()),
                ),
                Ok(Ok(complete)) => match (&run.err, complete) {
                    (None, false) => ctx.violation(
                        &format!("C18|{fmt}|reader|{}|fault-became-end-of-data", kind.name()),
                        format!(
                            "the reader finished without any Err after returning {} of {} rows ({} of {} batches)\n{}",
                            count_rows(&run.batches),
                            exp.total,
                            run.batches.len(),
                            exp.batches.len(),
                            site()
                        ),
                    ),
                    (None, true) => {
                        *outcomes.entry("ok").or_insert(0) += 1;
                        t.add(format!("r-outcome|{fmt}|{}|retried-through", kind.name()), 1);
                    }
                    (Some(_), _) => {
                        *outcomes.entry("err").or_insert(0) += 1;
                        t.add(format!("r-outcome|{fmt}|{}|err-reported", kind.name()), 1);
                        if !run.batches.is_empty() {
                            t.add(format!("r-err-after-some-batches|{fmt}"), 1);
                        }
                    }
                },
            }
        }
    }
    if delivered_here > 0 {
        ctx.eval();
        ctx.class(format!("{fmt}|reader|{}|{}", size_class(n), outcomes.keys().cloned().collect::<Vec<_>>().join("+")));
    }
    if std::env::var("C18_TIMING").is_ok() {
        eprintln!("   {fmt} reader faults: {:.2}s ({n} calls, file {} bytes)", t_start.elapsed().as_secs_f64(), file.len());
    }
    // ---- truncation at every length
    if spec.trunc == Trunc::Skip {
        return;
    }
    let mut lens = 0u64;
    let mut toc: BTreeMap<&'static str, u64> = BTreeMap::new();
    let mut distinct_prefixes = std::collections::BTreeSet::new();
    // every length, unless reading a prefix costs O(length) and the file is long (then O(len^2) work): all
    // lengths of the first and last 2048 bytes + a deterministic sample, `quad_budget / len` lengths in all
    let all: Vec<usize> = {
        let len = file.len();
        let limit: usize = ctx.tier.pick(4096, 16_384, 32_768);
        if matches!(spec.trunc, Trunc::MustErr) || len <= limit {
            (0..len).collect()
        } else {
            t.add(format!("trunc-inputs-sampled|{fmt}"), 1);
            let mut v: Vec<usize> = (0..2048).chain(len - 2048..len).collect();
            let mut mid: Vec<usize> = (2048..len - 2048).collect();
            rng.shuffle(&mut mid);
            v.extend(mid.into_iter().take((limit * limit / len).saturating_sub(4096)));
            v.sort();
            v
        }
    };
    let all = visit_order(all, rng);
    let mut cpu = CpuBudget::new(ctx);
    for (i, l) in all.into_iter().enumerate() {
        if cpu.exhausted() {
            t.add(format!("trunc-inputs-cut-by-cpu-budget|{fmt}"), 1);
            break;
        }
        if i % 64 == 0 && ctx.out_of_time() {
            t.add(format!("trunc-inputs-cut-by-deadline|{fmt}"), 1);
            break;
        }
        let cut = file.slice(0..l);
        let st = new_state(None, usize::MAX, false);
        let r = guard(|| (spec.run)(cut.clone(), st.clone()));
        lens += 1;
        let site = || format!("file of {} bytes cut to {l} bytes\n{}", file.len(), (spec.witness)());
        let run = match r {
            Ok(r) => r,
            Err(p) => {
                panic_finding(ctx, fmt, "truncated-read", &p, site());
                continue;
            }
        };
        match spec.trunc {
            Trunc::MustErr => {
                if run.err.is_none() {
                    ctx.violation(
                        &format!("C18|{fmt}|truncation|accepted"),
                        format!("the cut file was read without any Err ({} rows in {} batches)\n{}", count_rows(&run.batches), run.batches.len(), site()),
                    );
                    continue;
                }
                // rows handed out before the Err must still be rows that were written
                match guard(|| check_prefix(&exp, &run.batches, spec.batchwise)) {
                    Ok(Err(d)) => ctx.violation(&format!("C18|{fmt}|truncation|wrong-rows"), format!("{d}\nend of run: {:?}\n{}", run.err, site())),
                    Err(p) => ctx.inconclusive(&format!("{fmt} extract: {} @ {}", p.msg, p.loc)),
                    Ok(Ok(_)) => *toc.entry(if run.batches.is_empty() { "err" } else { "rows-then-err" }).or_insert(0) += 1,
                }
            }
            Trunc::Prefix => match guard(|| check_prefix(&exp, &run.batches, spec.batchwise)) {
                Ok(Err(d)) => ctx.violation(&format!("C18|{fmt}|truncation|wrong-rows"), format!("{d}\nend of run: {:?}\n{}", run.err, site())),
                Err(p) => {
                    panic_finding(ctx, fmt, "truncated-read-returned-array", &p, site());
                }
                Ok(Ok(_)) => {
                    distinct_prefixes.insert(count_rows(&run.batches));
                    *toc.entry(if run.err.is_some() { "prefix-then-err" } else { "prefix-then-end" }).or_insert(0) += 1;
                }
            },
            Trunc::PanicOnly => {
                *toc.entry(if run.err.is_some() { "err" } else { "end" }).or_insert(0) += 1;
                if let Ok(Err(_)) = guard(|| check_prefix(&exp, &run.batches, spec.batchwise)) {
                    t.add(format!("trunc-evidence|{fmt}|decoded rows differ from the written ones (not asserted)"), 1);
                }
            }
            Trunc::Skip => {}
        }
    }
    t.add(format!("trunc-lengths|{fmt}"), lens);
    t.add("truncation-lengths-total".into(), lens);
    for (k, v) in &toc {
        t.add(format!("trunc-outcome|{fmt}|{k}"), *v);
    }
    if spec.trunc == Trunc::Prefix {
        t.add(format!("trunc-distinct-row-prefixes|{fmt}"), distinct_prefixes.len() as u64);
    }
    if lens > 0 {
        ctx.eval();
        ctx.class(format!("{fmt}|truncation|{:?}|{}", spec.trunc, toc.keys().cloned().collect::<Vec<_>>().join("+")));
    }
}

const W_KINDS: [Kind; 4] = [Kind::ErrOnce, Kind::Dead, Kind::Short, Kind::Intr];
const R_KINDS: [Kind; 4] = [Kind::ErrOnce, Kind::Dead, Kind::Short, Kind::Intr];

// ------------------------------------------------------------------------------------------
// IPC
// ------------------------------------------------------------------------------------------

struct IpcPlan {
    schema: SchemaRef,
    batches: Vec<RecordBatch>,
    opts: arrow_ipc::writer::IpcWriteOptions,
    md: Option<(String, String)>,
    flush_after: Vec<bool>,
    /// 0: the sink itself; else BufWriter / BufReader of this capacity around it
    wrap: usize,
}

fn ipc_write_seq<W: Write + SinkEnd>(w: W, p: &IpcPlan, file: bool, td: Teardown) -> Result<(), String> {
    use arrow_ipc::writer::{FileWriter, StreamWriter};
    macro_rules! seq {
        ($fw:ident) => {{
            let r = (|| -> Result<(), String> {
                for (i, b) in p.batches.iter().enumerate() {
                    $fw.write(b).map_err(stage("write"))?;
                    if p.flush_after[i] {
                        $fw.flush().map_err(stage("flush"))?;
                    }
                }
                $fw.finish().map_err(stage("finish"))
            })();
            match td {
                Teardown::Drop => {
                    drop($fw);
                    r
                }
                Teardown::IntoInner => match $fw.into_inner() {
                    Ok(w) => {
                        if r.is_err() {
                            late_ok();
                        }
                        w.end();
                        r
                    }
                    Err(e) => r.and(Err(format!("into_inner: {e}"))),
                },
            }
        }};
    }
    if file {
        let mut fw = FileWriter::try_new_with_options(w, &p.schema, p.opts.clone()).map_err(stage("try_new"))?;
        if let Some((k, v)) = &p.md {
            fw.write_metadata(k.clone(), v.clone());
        }
        seq!(fw)
    } else {
        let mut fw = StreamWriter::try_new_with_options(w, &p.schema, p.opts.clone()).map_err(stage("try_new"))?;
        seq!(fw)
    }
}

fn ipc_read<R: Read + Seek>(src: R, file: bool) -> ReadRun {
    use arrow_ipc::reader::{FileReader, StreamReader};
    if file {
        match FileReader::try_new(src, None) {
            Ok(r) => ReadRun::drain(r),
            Err(e) => ReadRun::fail(vec![], "try_new", e),
        }
    } else {
        match StreamReader::try_new(src, None) {
            Ok(r) => ReadRun::drain(r),
            Err(e) => ReadRun::fail(vec![], "try_new", e),
        }
    }
}

fn ipc_case(ctx: &mut Ctx, t: &mut Tally, rng: &mut Rng, file: bool) {
    let fmt: &'static str = if file { "ipc-file" } else { "ipc-stream" };
    let mut cfg = SeqCfg::ipc();
    cfg.max_rows = *rng.pick(&[8usize, 24, 40, 100]);
    cfg.max_batches = 5;
    cfg.max_cols = 4;
    let seq = match guard(|| c04gen::gen_sequence(rng, &cfg)) {
        Ok(s) => s,
        Err(p) => {
            ctx.inconclusive(&format!("ipc generator: {} @ {}", p.msg, p.loc));
            return;
        }
    };
    let mut wo = c04gen::gen_write_opts(rng);
    if matches!(wo.zstd_level, Some(l) if l > 3) {
        // every fault site re-encodes all batches: the high zstd levels only cost time here
        wo.zstd_level = Some(3);
    }
    if wo.compression == 1 && !rng.chance(1, 4) {
        // the lz4 frame encoder costs ~30 ms per run whatever the input size: keep it rare
        wo.compression = 0;
    }
    let opts = match wo.to_ipc() {
        Ok(o) => o,
        Err(_) => {
            ctx.reject();
            return;
        }
    };
    let kind = if file { IpcKind::File } else { IpcKind::Stream };
    let md = if file && rng.chance(1, 3) { Some(("k".to_string(), gens::gen_string(rng))) } else { None };
    let md_vec: Vec<(String, String)> = md.iter().cloned().collect();
    // plain write: learn whether (and from which batch on) the writer declines the sequence
    let mut nb = seq.batches.len();
    let plain = c04gen::write_ipc(kind, &seq.schema, &seq.batches, &opts, &md_vec);
    if let Some((Some(i), _)) = &plain.err {
        nb = *i;
    } else if plain.err.is_some() || plain.panic.is_some() {
        ctx.reject();
        t.add(format!("skip|{fmt}|plain write declined"), 1);
        return;
    }
    let batches: Vec<RecordBatch> = seq.batches[..nb].to_vec();
    let plain = if nb < seq.batches.len() { c04gen::write_ipc(kind, &seq.schema, &batches, &opts, &md_vec) } else { plain };
    if plain.err.is_some() || plain.panic.is_some() {
        ctx.reject();
        t.add(format!("skip|{fmt}|plain write declined"), 1);
        return;
    }
    // plain read and compare with the model
    let round = guard(|| -> Result<(), String> {
        let r = ipc_read(io::Cursor::new(plain.bytes.clone()), file);
        if let Some(e) = r.err {
            return Err(format!("read Err: {}", strip_digits(&e).chars().take(60).collect::<String>()));
        }
        if r.batches.len() != nb {
            return Err("batch count".into());
        }
        match r.batches.iter().enumerate().all(|(i, b)| b.num_rows() == seq.rows[i] && model_batch(b) == seq.model[i]) {
            true => Ok(()),
            false => Err("rows differ from the model".into()),
        }
    });
    if !matches!(round, Ok(Ok(()))) {
        ctx.reject();
        let why = match round {
            Ok(Err(e)) => e,
            Err(p) => format!("panic {}", strip_digits(&p.msg).chars().take(60).collect::<String>()),
            _ => String::new(),
        };
        t.add(format!("skip|{fmt}|plain round trip: {why}"), 1);
        return;
    }
    let flush_p = *rng.pick(&[(0u32, 1u32), (1, 4), (1, 1)]);
    let plan = IpcPlan {
        schema: seq.schema.clone(),
        flush_after: (0..nb).map(|_| rng.chance(flush_p.0, flush_p.1)).collect(),
        batches,
        opts,
        md,
        wrap: *rng.pick(&[0usize, 0, 0, 16, 100, 4096]),
    };
    let desc = format!(
        "{fmt} {} wrap {} flush_after {:?} md {:?}\n{}",
        wo.class(),
        plan.wrap,
        plan.flush_after.iter().map(|b| *b as u8).collect::<Vec<_>>(),
        plan.md,
        seq.describe()
    );
    let witness = || desc.clone();
    let run_w = |st: Shared, td: Teardown| -> Result<(), String> {
        if plan.wrap == 0 {
            ipc_write_seq(FaultyW(st), &plan, file, td)
        } else {
            ipc_write_seq(BufWriter::with_capacity(plan.wrap, FaultyW(st)), &plan, file, td)
        }
    };
    let ident = |b: &[u8]| b.to_vec();
    let ws = WriterSpec { fmt, run: &run_w, norm: &ident, prefix_asserted: true, kinds: W_KINDS.to_vec(), witness: &witness };
    let Some(wr) = explore_writer(ctx, t, rng, &ws) else { return };
    if wr.bytes != plain.bytes {
        t.add(format!("evidence|{fmt}|instrumented output differs from Vec<u8> output"), 1);
    }
    let rwrap = *rng.pick(&[0usize, 0, 7, 64, 8192]);
    let run_r = |data: Bytes, st: Shared| -> ReadRun {
        let src = FaultyR { data, pos: 0, st };
        if rwrap == 0 { ipc_read(src, file) } else { ipc_read(BufReader::with_capacity(rwrap, src), file) }
    };
    let desc_r = format!("reader wrap {rwrap}\n{desc}");
    let witness_r = || desc_r.clone();
    let rs = ReaderSpec {
        fmt,
        run: &run_r,
        batchwise: true,
        trunc: if file { Trunc::MustErr } else { Trunc::Prefix },
        kinds: R_KINDS.to_vec(),
        max_sites: MAX_SITES,
        witness: &witness_r,
    };
    let fbytes = Bytes::from(wr.bytes);
    explore_reader(ctx, t, rng, &rs, &fbytes);
    ctx.sample(|| format!("{desc}\nwriter I/O calls {} file bytes {}", wr.calls, fbytes.len()));
    ctx.class(format!("{fmt}|opts|{}|w{}|r{}", wo.class(), plan.wrap.min(1), rwrap.min(1)));
}

// ------------------------------------------------------------------------------------------
// Parquet
// ------------------------------------------------------------------------------------------

struct PqPlan {
    schema: SchemaRef,
    batches: Vec<RecordBatch>,
    props: parquet::file::properties::WriterProperties,
    flush_after: Vec<bool>,
}

fn pq_write_seq(st: Shared, p: &PqPlan, td: Teardown) -> Result<(), String> {
    use parquet::arrow::ArrowWriter;
    use parquet::arrow::arrow_writer::ArrowWriterOptions;
    let opts = ArrowWriterOptions::new().with_properties(p.props.clone());
    let mut w = ArrowWriter::try_new_with_options(FaultyW(st), p.schema.clone(), opts).map_err(stage("try_new"))?;
    let r = (|| -> Result<(), String> {
        for (i, b) in p.batches.iter().enumerate() {
            w.write(b).map_err(stage("write"))?;
            if p.flush_after[i] {
                w.flush().map_err(stage("flush"))?;
            }
        }
        Ok(())
    })();
    match (r, td) {
        (Ok(()), Teardown::Drop) => w.close().map(|_| ()).map_err(stage("close")),
        // `ArrowWriter::into_inner` is the other documented way to finalise: it writes the footer
        (Ok(()), Teardown::IntoInner) => w.into_inner().map(|_| ()).map_err(stage("into_inner")),
        (Err(e), Teardown::Drop) => Err(e),
        (Err(e), Teardown::IntoInner) => {
            if w.into_inner().is_ok() {
                late_ok();
            }
            Err(e)
        }
    }
}

async fn pq_async_seq<W: parquet::arrow::async_writer::AsyncFileWriter>(sink: W, p: &PqPlan, td: Teardown) -> Result<(), String> {
    use parquet::arrow::AsyncArrowWriter;
    use parquet::arrow::arrow_writer::ArrowWriterOptions;
    let opts = ArrowWriterOptions::new().with_properties(p.props.clone());
    let mut w = AsyncArrowWriter::try_new_with_options(sink, p.schema.clone(), opts).map_err(stage("try_new"))?;
    let mut r: Result<(), String> = Ok(());
    for (i, b) in p.batches.iter().enumerate() {
        r = w.write(b).await.map_err(stage("write"));
        if r.is_ok() && p.flush_after[i] {
            r = w.flush().await.map_err(stage("flush"));
        }
        if r.is_err() {
            break;
        }
    }
    match (r, td) {
        (Ok(()), Teardown::Drop) => w.close().await.map(|_| ()).map_err(stage("close")),
        (Ok(()), Teardown::IntoInner) => {
            let r = w.finish().await.map(|_| ()).map_err(stage("finish"));
            drop(w.into_inner());
            r
        }
        (Err(e), Teardown::Drop) => Err(e),
        (Err(e), Teardown::IntoInner) => {
            if w.finish().await.is_ok() {
                late_ok();
            }
            drop(w.into_inner());
            Err(e)
        }
    }
}

fn pq_read_arrow(data: Bytes, st: Shared, bs: usize, page_index: parquet::file::metadata::PageIndexPolicy) -> ReadRun {
    use parquet::arrow::arrow_reader::{ArrowReaderOptions, ParquetRecordBatchReaderBuilder};
    let opts = ArrowReaderOptions::new().with_page_index_policy(page_index);
    let b = match ParquetRecordBatchReaderBuilder::try_new_with_options(FaultyChunk { data, st }, opts) {
        Ok(b) => b,
        Err(e) => return ReadRun::fail(vec![], "open", e),
    };
    match b.with_batch_size(bs).build() {
        Ok(r) => ReadRun::drain(r),
        Err(e) => ReadRun::fail(vec![], "build", e),
    }
}

/// `SerializedFileReader` + record API; every row becomes one string (one-column batches of <= 7 rows)
fn pq_read_rows(data: Bytes, st: Shared) -> ReadRun {
    use parquet::file::reader::FileReader;
    use parquet::file::serialized_reader::SerializedFileReader;
    let schema = Arc::new(Schema::new(vec![Field::new("row", DataType::Utf8, false)]));
    let mk = |rows: &mut Vec<String>| {
        let a: ArrayRef = Arc::new(StringArray::from(std::mem::take(rows)));
        RecordBatch::try_new(schema.clone(), vec![a]).expect("model: row batch")
    };
    let r = match SerializedFileReader::new(FaultyChunk { data, st }) {
        Ok(r) => r,
        Err(e) => return ReadRun::fail(vec![], "open", e),
    };
    let it = match r.get_row_iter(None) {
        Ok(it) => it,
        Err(e) => return ReadRun::fail(vec![], "get_row_iter", e),
    };
    let mut batches = Vec::new();
    let mut rows: Vec<String> = Vec::new();
    for x in it {
        match x {
            Ok(row) => {
                rows.push(row.to_string());
                if rows.len() == 7 {
                    batches.push(mk(&mut rows));
                }
            }
            Err(e) => {
                if !rows.is_empty() {
                    batches.push(mk(&mut rows));
                }
                return ReadRun::fail(batches, "next", e);
            }
        }
    }
    if !rows.is_empty() {
        batches.push(mk(&mut rows));
    }
    ReadRun { batches, err: None }
}

/// Generate a Parquet input whose plain round trip holds. `None`: skipped (counted).
fn pq_input(ctx: &mut Ctx, t: &mut Tally, rng: &mut Rng, fmt: &str) -> Option<pq::Written> {
    let mut cfg = WriteCfg::standard().with_mode(WriteMode::Serial);
    match rng.below(4) {
        // long inputs (several 8 KiB buffer flushes): fewer tiny-page settings, every run re-encodes everything
        0 => {
            cfg.gen_cfg = pq::GenCfg::flat_long();
            cfg.props.tiny = (1, 8);
            cfg.props.cdc = false;
        }
        1 => {
            cfg.gen_cfg.max_rows = 2000;
            cfg.gen_cfg.max_cols = 3;
            cfg.props.tiny = (1, 8);
            cfg.props.cdc = false;
        }
        _ => {}
    }
    cfg.props.lzo = false;
    cfg.gen_cfg.keep_unsupported = (0, 1);
    let w = match pq::write_file(rng, &cfg) {
        Ok(w) => w,
        Err(f) => {
            match f.kind {
                pq::FailKind::Model => ctx.inconclusive(&format!("parquet generator: {}", f.msg)),
                _ => {
                    ctx.reject();
                    t.add(format!("skip|{fmt}|plain write declined or failed ({})", f.stage), 1);
                }
            }
            return None;
        }
    };
    let rc = pq::ReadCfg { batch_size: 1024, page_index: parquet::file::metadata::PageIndexPolicy::Skip };
    let ok = match pq::read_file(&w.bytes, &rc) {
        ReadOutcome::Ok(_, batches) => matches!(pq::compare_rows(&w.expected_schema, &w.logical.cols, &batches), Ok(Ok(()))),
        _ => false,
    };
    if !ok {
        ctx.reject();
        t.add(format!("skip|{fmt}|plain round trip differs from the model"), 1);
        return None;
    }
    Some(w)
}

fn pq_case(ctx: &mut Ctx, t: &mut Tally, rng: &mut Rng, is_async: bool) {
    let fmt: &'static str = if is_async { "parquet-async" } else { "parquet" };
    let Some(w) = pq_input(ctx, t, rng, fmt) else { return };
    let plan = PqPlan { schema: w.schema.clone(), batches: w.batches.clone(), props: w.props.props.clone(), flush_after: w.flush_after.clone() };
    let tokio_flavour = is_async && rng.bool();
    let desc = format!("{fmt}{} file bytes {}\n{}", if is_async { if tokio_flavour { " (tokio AsyncWrite sink)" } else { " (AsyncFileWriter sink)" } } else { "" }, w.bytes.len(), w.desc);
    let witness = || desc.clone();
    let ident = |b: &[u8]| b.to_vec();
    if is_async {
        let fmt2: &'static str = if tokio_flavour { "parquet-async-tokio" } else { "parquet-async-direct" };
        let run_w = |st: Shared, td: Teardown| -> Result<(), String> {
            if tokio_flavour {
                futures::executor::block_on(pq_async_seq(FaultyTokio(st), &plan, td))
            } else {
                futures::executor::block_on(pq_async_seq(FaultyAsyncFW(st), &plan, td))
            }
        };
        let kinds = if tokio_flavour {
            vec![Kind::ErrOnce, Kind::Dead, Kind::Short, Kind::Intr, Kind::Pending]
        } else {
            vec![Kind::ErrOnce, Kind::Dead, Kind::Pending]
        };
        let ws = WriterSpec { fmt: fmt2, run: &run_w, norm: &ident, prefix_asserted: true, kinds, witness: &witness };
        if let Some(wr) = explore_writer(ctx, t, rng, &ws) {
            if wr.bytes[..] != w.bytes[..] {
                t.add(format!("evidence|{fmt2}|async output differs from the sync writer's"), 1);
            }
            ctx.sample(|| format!("{desc}\nwriter I/O calls {}", wr.calls));
        }
        return;
    }
    let run_w = |st: Shared, td: Teardown| pq_write_seq(st, &plan, td);
    let ws = WriterSpec { fmt, run: &run_w, norm: &ident, prefix_asserted: true, kinds: W_KINDS.to_vec(), witness: &witness };
    let Some(wr) = explore_writer(ctx, t, rng, &ws) else { return };
    if wr.bytes[..] != w.bytes[..] {
        t.add(format!("evidence|{fmt}|instrumented output differs from Vec<u8> output"), 1);
    }
    // readers
    let bs = *rng.pick(&[1usize, 3, 64, 1024, 1024]);
    let bs = if w.logical.rows > 600 { bs.max(64) } else { bs };
    let pi = *rng.pick(&[parquet::file::metadata::PageIndexPolicy::Skip, parquet::file::metadata::PageIndexPolicy::Optional, parquet::file::metadata::PageIndexPolicy::Optional]);
    let run_r = |data: Bytes, st: Shared| pq_read_arrow(data, st, bs, pi);
    let desc_r = format!("ParquetRecordBatchReader batch_size {bs} page index {pi:?}\n{desc}");
    let witness_r = || desc_r.clone();
    let rs = ReaderSpec { fmt: "parquet", run: &run_r, batchwise: false, trunc: Trunc::MustErr, kinds: R_KINDS.to_vec(), max_sites: MAX_SITES, witness: &witness_r };
    explore_reader(ctx, t, rng, &rs, &w.bytes);
    // the record API over the same file (reader faults; truncation only for small files, the footer path is shared)
    let run_rows = |data: Bytes, st: Shared| pq_read_rows(data, st);
    let desc_rows = format!("SerializedFileReader::get_row_iter\n{desc}");
    let witness_rows = || desc_rows.clone();
    let rs2 = ReaderSpec {
        fmt: "parquet-rowiter",
        run: &run_rows,
        batchwise: false,
        trunc: if w.bytes.len() <= 4096 { Trunc::MustErr } else { Trunc::Skip },
        kinds: R_KINDS.to_vec(),
        max_sites: ctx.tier.pick(100, 400, 1500),
        witness: &witness_rows,
    };
    explore_reader(ctx, t, rng, &rs2, &w.bytes);
    ctx.sample(|| format!("{desc}\nwriter I/O calls {}", wr.calls));
    ctx.class(format!("parquet|opts|v{}|{}|{}|bs{}|{pi:?}", if w.props.version2 { 2 } else { 1 }, w.props.compression, if w.bytes.len() > 8192 { "multi-buffer" } else { "one-buffer" }, bs.min(64)));
}

// ------------------------------------------------------------------------------------------
// flat tables for Avro / CSV / JSON
// ------------------------------------------------------------------------------------------

struct Table {
    schema: SchemaRef,
    batches: Vec<RecordBatch>,
    rows: usize,
    desc: String,
}

/// keep the values inside what the text writers can format: finite floats, dates / timestamps within a few
/// thousand years (anything else is a writer `Err` = an unusable input)
fn tame(dt: &DataType, v: Val) -> Val {
    match (dt, v) {
        (DataType::Date32, Val::Int(d)) => Val::Int(d % 1_000_000),
        (DataType::Timestamp(_, _), Val::Int(d)) => Val::Int(d % 60_000_000_000_000),
        (_, v) => finite(v),
    }
}

fn finite(v: Val) -> Val {
    match v {
        Val::F64(b) if !f64::from_bits(b).is_finite() => Val::F64(1.5f64.to_bits()),
        Val::F32(b) if !f32::from_bits(b).is_finite() => Val::F32(2.5f32.to_bits()),
        Val::List(l) => Val::List(l.into_iter().map(finite).collect()),
        Val::Struct(l) => Val::Struct(l.into_iter().map(finite).collect()),
        v => v,
    }
}

fn gen_table(rng: &mut Rng, menu: &[DataType], max_cols: usize, max_batches: usize, max_rows: usize, odd_names: bool) -> Table {
    let ncols = 1 + rng.below(max_cols);
    let cfg = TypeCfg::all();
    let mut fields = Vec::new();
    for c in 0..ncols {
        let dt = rng.pick(menu).clone();
        let name = if odd_names && rng.chance(1, 10) { format!("col {c}") } else { format!("c{c}") };
        fields.push(Field::new(name, dt, !rng.chance(1, 4)));
    }
    let schema: SchemaRef = Arc::new(Schema::new(fields));
    let nb = 1 + rng.below(max_batches);
    let mut batches = Vec::new();
    let mut rows = 0;
    for _ in 0..nb {
        let n = if rng.chance(1, 8) { 0 } else { 1 + rng.below(max_rows) };
        let cols: Vec<ArrayRef> = schema
            .fields()
            .iter()
            .map(|f| {
                let vals: Vec<Val> = gens::gen_column(rng, f.data_type(), n, f.is_nullable(), &cfg).into_iter().map(|v| tame(f.data_type(), v)).collect();
                if rng.bool() { build::realise(rng, f.data_type(), &vals) } else { build::build(f.data_type(), &vals) }
            })
            .collect();
        let opts = RecordBatchOptions::new().with_row_count(Some(n));
        batches.push(RecordBatch::try_new_with_options(schema.clone(), cols, &opts).unwrap_or_else(|e| panic!("model: RecordBatch::try_new: {e}")));
        rows += n;
    }
    let desc = format!("schema {} batches {:?}", pq::schema_string(&schema), batches.iter().map(|b| b.num_rows()).collect::<Vec<_>>());
    Table { schema, batches, rows, desc }
}

fn list_of(dt: DataType) -> DataType {
    DataType::List(Arc::new(Field::new_list_field(dt, true)))
}

fn struct_of() -> DataType {
    DataType::Struct(vec![Field::new("a", DataType::Int32, true), Field::new("b", DataType::Utf8, true)].into())
}

/// Shared by the three text/row formats: write plainly, run the writer exploration with `run_w`, then the
/// reader exploration on the produced bytes.
#[allow(clippy::too_many_arguments)]
fn table_case(
    ctx: &mut Ctx,
    t: &mut Tally,
    rng: &mut Rng,
    fmt: &'static str,
    tab: &Table,
    opt_desc: &str,
    run_w: &dyn Fn(Shared, Teardown) -> Result<(), String>,
    norm: &dyn Fn(&[u8]) -> Vec<u8>,
    prefix_asserted: bool,
    reader: Option<(&dyn Fn(Bytes, Shared) -> ReadRun, Trunc, String)>,
) {
    let desc = format!("{fmt} {opt_desc}\n{}", tab.desc);
    let witness = || desc.clone();
    let ws = WriterSpec { fmt, run: run_w, norm, prefix_asserted, kinds: W_KINDS.to_vec(), witness: &witness };
    let Some(wr) = explore_writer(ctx, t, rng, &ws) else { return };
    ctx.sample(|| format!("{desc}\nwriter I/O calls {} file bytes {}", wr.calls, wr.bytes.len()));
    ctx.class(format!("{fmt}|opts|{opt_desc}"));
    let Some((run_r, trunc, rdesc)) = reader else { return };
    let file = Bytes::from(wr.bytes);
    // the plain read must succeed and return as many rows as were written, else the input is not usable
    let plain = guard(|| run_r(file.clone(), new_state(None, usize::MAX, false)));
    match plain {
        Ok(r) if r.err.is_none() && count_rows(&r.batches) == tab.rows => {}
        Ok(r) => {
            ctx.reject();
            let m: String = strip_digits(&r.err.unwrap_or_else(|| "row count differs".into())).chars().take(70).collect();
            t.add(format!("skip|{fmt}|plain read back: {m}"), 1);
            return;
        }
        Err(p) => {
            ctx.reject();
            t.add(format!("skip|{fmt}|plain read back panics: {}", strip_digits(&p.msg).chars().take(60).collect::<String>()), 1);
            return;
        }
    }
    let desc_r = format!("{rdesc}\n{desc}");
    let witness_r = || desc_r.clone();
    let rs = ReaderSpec { fmt, run: run_r, batchwise: false, trunc, kinds: R_KINDS.to_vec(), max_sites: MAX_SITES, witness: &witness_r };
    explore_reader(ctx, t, rng, &rs, &file);
}

// ------------------------------------------------------------------ Avro

fn blank_marker(data: &[u8], m: &[u8; 16]) -> Vec<u8> {
    let mut out = data.to_vec();
    let mut i = 0;
    while i + 16 <= out.len() {
        if out[i..i + 16] == m[..] {
            out[i..i + 16].fill(0);
            i += 16;
        } else {
            i += 1;
        }
    }
    out
}

fn avro_case(ctx: &mut Ctx, t: &mut Tally, rng: &mut Rng) {
    use arrow_avro::compression::CompressionCodec;
    use arrow_avro::writer::format::{AvroOcfFormat, AvroSoeFormat};
    use arrow_avro::writer::{Writer, WriterBuilder};
    let menu = [
        DataType::Int32,
        DataType::Int64,
        DataType::Float32,
        DataType::Float64,
        DataType::Boolean,
        DataType::Utf8,
        DataType::Utf8,
        DataType::Binary,
        list_of(DataType::Int64),
        struct_of(),
    ];
    let tab = match guard(|| gen_table(rng, &menu, 4, 4, 24, false)) {
        Ok(t) => t,
        Err(p) => {
            ctx.inconclusive(&format!("table generator: {} @ {}", p.msg, p.loc));
            return;
        }
    };
    let ocf = !rng.chance(1, 4);
    let codec = if ocf {
        // bzip2 / xz blocks cost tens of ms each and every fault site re-encodes all blocks: rare
        match rng.below(24) {
            0 => Some(CompressionCodec::Bzip2),
            1 => Some(CompressionCodec::Xz),
            2..=5 => Some(CompressionCodec::Deflate),
            6..=9 => Some(CompressionCodec::Snappy),
            10..=13 => Some(CompressionCodec::ZStandard),
            _ => None,
        }
    } else {
        None
    };
    let marker: Mutex<Option<[u8; 16]>> = Mutex::new(None);
    fn seq<F: arrow_avro::writer::format::AvroFormat>(mut w: Writer<FaultyW, F>, tab: &Table, td: Teardown) -> Result<(), String> {
        let r = (|| -> Result<(), String> {
            for b in &tab.batches {
                w.write(b).map_err(stage("write"))?;
            }
            w.finish().map_err(stage("finish"))
        })();
        match td {
            Teardown::Drop => drop(w),
            Teardown::IntoInner => {
                if r.is_err() && w.finish().is_ok() {
                    late_ok();
                }
                drop(w.into_inner())
            }
        }
        r
    }
    let run_w = |st: Shared, td: Teardown| -> Result<(), String> {
        *marker.lock().unwrap() = None;
        let b = WriterBuilder::new(tab.schema.as_ref().clone()).with_compression(codec);
        if ocf {
            let w = b.build::<_, AvroOcfFormat>(FaultyW(st)).map_err(stage("build"))?;
            *marker.lock().unwrap() = w.sync_marker().copied();
            seq(w, &tab, td)
        } else {
            let w = b.build::<_, AvroSoeFormat>(FaultyW(st)).map_err(stage("build"))?;
            seq(w, &tab, td)
        }
    };
    let norm = |d: &[u8]| -> Vec<u8> {
        match *marker.lock().unwrap() {
            Some(m) => blank_marker(d, &m),
            None => d.to_vec(),
        }
    };
    let bs = *rng.pick(&[1usize, 5, 1024]);
    let cap = *rng.pick(&[7usize, 16, 64, 8192]);
    let run_r = |data: Bytes, st: Shared| -> ReadRun {
        let src = BufReader::with_capacity(cap, FaultyR { data, pos: 0, st });
        match arrow_avro::reader::ReaderBuilder::new().with_batch_size(bs).build(src) {
            Ok(r) => ReadRun::drain(r),
            Err(e) => ReadRun::fail(vec![], "build", e),
        }
    };
    let fmt: &'static str = if ocf { "avro-ocf" } else { "avro-soe" };
    let opt = format!("codec {codec:?}");
    let reader: Option<(&dyn Fn(Bytes, Shared) -> ReadRun, Trunc, String)> =
        if ocf { Some((&run_r, Trunc::Prefix, format!("Reader batch_size {bs} BufReader capacity {cap}"))) } else { None };
    table_case(ctx, t, rng, fmt, &tab, &opt, &run_w, &norm, !ocf, reader);
}

// ------------------------------------------------------------------ CSV

fn csv_case(ctx: &mut Ctx, t: &mut Tally, rng: &mut Rng) {
    let menu = [
        DataType::Boolean,
        DataType::Int32,
        DataType::Int64,
        DataType::UInt16,
        DataType::Float64,
        DataType::Utf8,
        DataType::Utf8,
        DataType::Date32,
        DataType::Timestamp(TimeUnit::Millisecond, None),
    ];
    let tab = match guard(|| gen_table(rng, &menu, 4, 10, 16, true)) {
        Ok(t) => t,
        Err(p) => {
            ctx.inconclusive(&format!("table generator: {} @ {}", p.msg, p.loc));
            return;
        }
    };
    let header = rng.bool();
    let delim = *rng.pick(&[b',', b',', b'\t', b'|']);
    let run_w = |st: Shared, td: Teardown| -> Result<(), String> {
        let mut w = arrow_csv::WriterBuilder::new().with_header(header).with_delimiter(delim).build(FaultyW(st));
        let r = (|| -> Result<(), String> {
            for b in &tab.batches {
                w.write(b).map_err(stage("write"))?;
            }
            Ok(())
        })();
        match td {
            Teardown::Drop => drop(w),
            Teardown::IntoInner => drop(w.into_inner()),
        }
        r
    };
    let ident = |b: &[u8]| b.to_vec();
    let bs = *rng.pick(&[1usize, 7, 1024]);
    let cap = *rng.pick(&[0usize, 3, 16, 64]);
    let schema = tab.schema.clone();
    let run_r = |data: Bytes, st: Shared| -> ReadRun {
        let b = arrow_csv::ReaderBuilder::new(schema.clone()).with_header(header).with_delimiter(delim).with_batch_size(bs);
        let src = FaultyR { data, pos: 0, st };
        if cap == 0 {
            match b.build(src) {
                Ok(r) => ReadRun::drain(r),
                Err(e) => ReadRun::fail(vec![], "build", e),
            }
        } else {
            match b.build_buffered(BufReader::with_capacity(cap, src)) {
                Ok(r) => ReadRun::drain(r),
                Err(e) => ReadRun::fail(vec![], "build", e),
            }
        }
    };
    let opt = format!("header {header} delimiter {:?}", delim as char);
    table_case(ctx, t, rng, "csv", &tab, &opt, &run_w, &ident, true, Some((&run_r, Trunc::PanicOnly, format!("Reader batch_size {bs} BufReader capacity {cap} (0 = build())"))));
}

// ------------------------------------------------------------------ JSON

fn json_case(ctx: &mut Ctx, t: &mut Tally, rng: &mut Rng) {
    use arrow_json::writer::{JsonArray, LineDelimited, WriterBuilder};
    let menu = [
        DataType::Boolean,
        DataType::Int32,
        DataType::Int64,
        DataType::Float64,
        DataType::Utf8,
        DataType::Utf8,
        list_of(DataType::Int32),
        struct_of(),
    ];
    let tab = match guard(|| gen_table(rng, &menu, 4, 10, 12, true)) {
        Ok(t) => t,
        Err(p) => {
            ctx.inconclusive(&format!("table generator: {} @ {}", p.msg, p.loc));
            return;
        }
    };
    let lines = !rng.chance(1, 4);
    let explicit_nulls = rng.bool();
    fn seq<F: arrow_json::writer::JsonFormat>(mut w: arrow_json::writer::Writer<FaultyW, F>, tab: &Table, td: Teardown) -> Result<(), String> {
        let r = (|| -> Result<(), String> {
            for b in &tab.batches {
                w.write(b).map_err(stage("write"))?;
            }
            w.finish().map_err(stage("finish"))
        })();
        match td {
            Teardown::Drop => drop(w),
            Teardown::IntoInner => {
                if r.is_err() && w.finish().is_ok() {
                    late_ok();
                }
                drop(w.into_inner())
            }
        }
        r
    }
    let run_w = |st: Shared, td: Teardown| -> Result<(), String> {
        let b = WriterBuilder::new().with_explicit_nulls(explicit_nulls);
        if lines { seq(b.build::<_, LineDelimited>(FaultyW(st)), &tab, td) } else { seq(b.build::<_, JsonArray>(FaultyW(st)), &tab, td) }
    };
    let ident = |b: &[u8]| b.to_vec();
    let bs = *rng.pick(&[1usize, 4, 1024]);
    let cap = *rng.pick(&[7usize, 16, 64, 8192]);
    let schema = tab.schema.clone();
    let run_r = |data: Bytes, st: Shared| -> ReadRun {
        let src = BufReader::with_capacity(cap, FaultyR { data, pos: 0, st });
        match arrow_json::ReaderBuilder::new(schema.clone()).with_batch_size(bs).build(src) {
            Ok(r) => ReadRun::drain(r),
            Err(e) => ReadRun::fail(vec![], "build", e),
        }
    };
    let fmt: &'static str = if lines { "json-lines" } else { "json-array" };
    let opt = format!("explicit_nulls {explicit_nulls}");
    let reader: Option<(&dyn Fn(Bytes, Shared) -> ReadRun, Trunc, String)> =
        if lines { Some((&run_r, Trunc::Prefix, format!("Reader batch_size {bs} BufReader capacity {cap}"))) } else { None };
    table_case(ctx, t, rng, fmt, &tab, &opt, &run_w, &ident, true, reader);
}

// ------------------------------------------------------------------------------------------

/// `C18_REPRO=csv`: the minimal reproducers of the findings, outside the generators.
fn repro() {
    use arrow_array::Int32Array;
    struct Sink {
        flushes_that_fail: usize,
    }
    impl Write for Sink {
        fn write(&mut self, b: &[u8]) -> io::Result<usize> {
            Ok(b.len())
        }
        fn flush(&mut self) -> io::Result<()> {
            if self.flushes_that_fail > 0 {
                self.flushes_that_fail -= 1;
                return Err(io::Error::other("disk full"));
            }
            Ok(())
        }
    }
    let batch = RecordBatch::try_from_iter([("a", Arc::new(Int32Array::from(vec![1, 2, 3])) as ArrayRef)]).unwrap();
    // (1) write() reports the failed flush, then into_inner() - the only way to get the sink back - panics
    let r = guard(|| {
        let mut w = arrow_csv::Writer::new(Sink { flushes_that_fail: 2 });
        let first = w.write(&batch).map_err(|e| e.to_string());
        eprintln!("csv repro 1: write() -> {first:?}");
        let _sink = w.into_inner();
    });
    eprintln!("csv repro 1: into_inner() after the failed write -> {:?}", r.map_err(|p| format!("PANIC {} @ {}", p.msg, p.loc)));
    // (2) every write() succeeded; only the flush inside into_inner() fails
    let r = guard(|| {
        let mut w = arrow_csv::WriterBuilder::new().build(Sink { flushes_that_fail: 0 });
        w.write(&batch).unwrap();
        let mut sink = w.into_inner();
        sink.flushes_that_fail = 1;
        // a fresh writer over a sink whose next flush fails, nothing written through it at all
        let w2 = arrow_csv::Writer::new(sink);
        let _ = w2.into_inner();
    });
    eprintln!("csv repro 2: into_inner() whose own flush fails -> {:?}", r.map_err(|p| format!("PANIC {} @ {}", p.msg, p.loc)));
}

pub fn run(ctx: &mut Ctx) {
    if std::env::var("C18_REPRO").is_ok() {
        repro();
        return;
    }
    // (section, total inputs across all shards)
    let plan: Vec<(&'static str, u64)> = vec![
        ("ipc-file", ctx.tier.pick(2, 2400, 30_000)),
        ("ipc-stream", ctx.tier.pick(2, 1920, 24_000)),
        ("parquet", ctx.tier.pick(2, 480, 4_800)),
        ("parquet-async", ctx.tier.pick(2, 1440, 14_400)),
        ("avro", ctx.tier.pick(2, 560, 5_600)),
        ("csv", ctx.tier.pick(2, 1600, 16_000)),
        ("json", ctx.tier.pick(2, 960, 9_600)),
    ];
    let lists: Vec<Vec<u64>> = plan.iter().map(|(s, n)| ctx.cases(s, *n)).collect();
    let mut idx = vec![0usize; plan.len()];
    let mut t = Tally::default();
    // interleave the sections so that a deadline cuts all of them proportionally
    let wmin = plan.iter().map(|p| p.1).min().unwrap_or(1).max(1);
    'outer: loop {
        let mut progressed = false;
        for (k, (section, _)) in plan.iter().enumerate() {
          for _ in 0..(plan[k].1 / wmin).max(1) {
            if idx[k] >= lists[k].len() {
                break;
            }
            if ctx.out_of_time() {
                break 'outer;
            }
            let i = lists[k][idx[k]];
            idx[k] += 1;
            progressed = true;
            let mut rng = ctx.begin(section, i);
            let t0 = std::time::Instant::now();
            match *section {
                "ipc-file" => ipc_case(ctx, &mut t, &mut rng, true),
                "ipc-stream" => ipc_case(ctx, &mut t, &mut rng, false),
                "parquet" => pq_case(ctx, &mut t, &mut rng, false),
                "parquet-async" => pq_case(ctx, &mut t, &mut rng, true),
                "avro" => avro_case(ctx, &mut t, &mut rng),
                "csv" => csv_case(ctx, &mut t, &mut rng),
                _ => json_case(ctx, &mut t, &mut rng),
            }
            let dt = t0.elapsed().as_secs_f64();
            if std::env::var("C18_TIMING").is_ok() {
                eprintln!("{section} {i}: {dt:.2}s");
            }
            if dt > 10.0 {
                t.add(format!("inputs-slower-than-10s|{section}"), 1);
            }
          }
        }
        if !progressed {
            break;
        }
    }
    let left: usize = lists.iter().zip(idx.iter()).map(|(l, i)| l.len() - i).sum();
    t.add("inputs-not-started-before-deadline".into(), left as u64);
    t.flush(ctx);
    let _ = is_rejection_msg;
    let _: Option<PanicInfo> = None;
}
