//! C17 / Avro: arrow-avro writer -> (apache-avro, arrow-avro reader); apache-avro writer -> arrow-avro reader.
//!
//! not asserted (documented lossy mappings of the default feature set, applied to the expectation):
//!   * Int8/Int16/UInt8/UInt16 come back as Int32, UInt32/UInt64/Duration as Int64, Float16 as
//!     Float32, Large*/View/FixedSizeList layouts as their plain forms, Dictionary/RunEndEncoded
//!     as their value type, Date64 as Timestamp(ms), time zones as "+00:00"
//!   * Time32(s)/Timestamp(s) are scaled to milliseconds; Time64(ns) is truncated to microseconds
//!     (columns are generated as whole microseconds); Interval(*) becomes the Avro `duration`
//!     (non-negative months/days/whole milliseconds only: other values are writer rejections)
//!   * union type ids (the OCF header strips Arrow metadata): compared by branch position
//!   * field names: only `[A-Za-z_][A-Za-z0-9_]*` names are generated (the writer sanitises others)
//!   * map entry order for files written by apache-avro (its map is a HashMap): compared sorted;
//!     duplicate map keys when decoding with apache-avro (last one wins there)
//!   * the random OCF sync marker

use super::*;
use apache_avro::types::Value as AV;
use arrow_array::{DictionaryArray, Int32Array, StringArray};
use arrow_avro::compression::CompressionCodec;
use arrow_avro::reader::ReaderBuilder;
use arrow_avro::schema::{
    AVRO_ENUM_SYMBOLS_METADATA_KEY, AvroSchema, Fingerprint, FingerprintAlgorithm, FingerprintStrategy,
    SCHEMA_METADATA_KEY, SchemaStore,
};
use arrow_avro::writer::WriterBuilder;
use arrow_avro::writer::format::{AvroBinaryFormat, AvroOcfFormat, AvroSoeFormat};
use num_bigint::BigInt;
use std::collections::HashMap;
use std::io::Cursor;
use vcore::mon::{Outcome, is_rejection_msg, run_op};
use vcore::validate::check_batch;

// ------------------------------------------------------------------ options

#[derive(Clone, Copy, Debug, PartialEq)]
pub enum Framing {
    /// object container file with a block codec
    Ocf(Option<CompressionCodec>),
    /// single-object-encoded stream, Rabin fingerprint prefix
    SoeRabin,
    /// Confluent wire format (0x00 + 4 byte id)
    SoeId(u32),
    /// Apicurio wire format (0x00 + 8 byte id)
    SoeId64(u64),
    /// row-by-row `Encoder`, SOE prefix per row
    EncoderSoe,
    /// row-by-row `Encoder`, raw datum per row (no prefix)
    EncoderBinary,
}

#[derive(Clone, Debug)]
pub struct AvroOpts {
    pub framing: Framing,
    pub batch_size: usize,
    pub utf8_view: bool,
    pub strict: bool,
    /// hand the writer an `avro.schema` whose nullable unions are `[T, "null"]`
    pub null_second: bool,
    pub capacity: usize,
}

impl AvroOpts {
    pub fn class(&self) -> String {
        format!(
            "{}{}{}",
            match self.framing {
                Framing::Ocf(None) => "ocf-null".to_string(),
                Framing::Ocf(Some(c)) => format!("ocf-{c:?}"),
                Framing::SoeRabin => "soe-rabin".into(),
                Framing::SoeId(_) => "soe-id".into(),
                Framing::SoeId64(_) => "soe-id64".into(),
                Framing::EncoderSoe => "enc-soe".into(),
                Framing::EncoderBinary => "enc-bin".into(),
            },
            if self.null_second { "|null2" } else { "" },
            if self.utf8_view { "|view" } else { "" }
        )
    }
}

pub struct AvroCase {
    pub case: Case,
    pub opts: AvroOpts,
    /// schema handed to the writer (may carry `avro.schema` metadata)
    pub writer_schema: Schema,
}

pub fn avro_profile(rng: &mut Rng) -> Profile {
    use DataType::*;
    let mut prims = vec![
        Boolean, Int8, Int16, Int32, Int32, Int64, Int64, UInt8, UInt16, UInt32, UInt64, Float16, Float32,
        Float64, Float64, Utf8, Utf8, Utf8, LargeUtf8, Utf8View, Binary, LargeBinary, BinaryView, Date32, Date64,
    ];
    prims.push(FixedSizeBinary(*rng.pick(&[1, 2, 3, 16, 16, 0])));
    prims.push(Time32(*rng.pick(&[TimeUnit::Second, TimeUnit::Millisecond])));
    prims.push(Time64(*rng.pick(&[TimeUnit::Microsecond, TimeUnit::Nanosecond])));
    for _ in 0..3 {
        let tz: Option<Arc<str>> = match rng.below(5) {
            0..=2 => None,
            3 => Some("+00:00".into()),
            _ => Some("+05:30".into()),
        };
        prims.push(Timestamp(*rng.pick(&gens::TIME_UNITS), tz));
    }
    for _ in 0..3 {
        // Avro decimals: 0 <= scale <= precision; Decimal32/64 need a non-default feature
        let big = rng.chance(1, 3);
        let maxp = if big { 76 } else { 38 };
        let p = if rng.chance(1, 4) { maxp } else { 1 + rng.below(maxp) } as u8;
        let s = rng.below(p as usize + 1) as i8;
        prims.push(if big { Decimal256(p, s) } else { Decimal128(p, s) });
    }
    prims.push(Duration(*rng.pick(&gens::TIME_UNITS)));
    prims.push(Interval(*rng.pick(&interval_units())));
    if rng.chance(1, 10) {
        prims.push(Null);
    }
    if rng.chance(1, 12) {
        prims.push(Decimal64(10, 2));
        prims.push(Decimal128(10, -2));
    }
    Profile {
        prims,
        enc_vals: vec![Utf8, Utf8, Int32, Int64, Float64, Boolean, Binary, Date32, Decimal128(10, 2), LargeUtf8],
        dict_keys: vec![Int32, Int8, UInt16],
        map_keys: if rng.chance(1, 15) { vec![Utf8, Int32] } else { vec![Utf8, Utf8, LargeUtf8] },
        list: true,
        large: true,
        list_view: true,
        fsl: true,
        strukt: true,
        map: true,
        dict: rng.chance(1, 10),
        ree: rng.chance(1, 5),
        union: true,
        non_nullable: true,
        max_depth: 3,
    }
}

/// Avro has no nullable arrow-union sites (the writer would add a third branch): make every
/// field that holds a Union non-nullable.
fn fix_union_fields(f: &Field) -> Field {
    let dt = fix_union_types(f.data_type());
    let nullable = f.is_nullable() && !matches!(dt, DataType::Union(_, _));
    Field::new(f.name(), dt, nullable).with_metadata(f.metadata().clone())
}

fn fix_union_types(dt: &DataType) -> DataType {
    use DataType::*;
    let ff = |f: &arrow_schema::FieldRef| Arc::new(fix_union_fields(f));
    match dt {
        List(f) => List(ff(f)),
        LargeList(f) => LargeList(ff(f)),
        ListView(f) => ListView(ff(f)),
        LargeListView(f) => LargeListView(ff(f)),
        FixedSizeList(f, n) => FixedSizeList(ff(f), *n),
        Struct(fs) => Struct(fs.iter().map(|f| fix_union_fields(f)).collect()),
        Map(e, o) => Map(ff(e), *o),
        Union(ufs, m) => {
            let ids: Vec<i8> = ufs.iter().map(|(i, _)| i).collect();
            let fs: Vec<Field> = ufs.iter().map(|(_, f)| fix_union_fields(f).with_nullable(false)).collect();
            Union(UnionFields::try_new(ids, fs).unwrap(), *m)
        }
        RunEndEncoded(r, v) => RunEndEncoded(r.clone(), ff(v)),
        other => other.clone(),
    }
}

/// Values the Avro mapping can carry exactly (see "not asserted").
fn tame_avro(rng: &mut Rng, dt: &DataType, v: &mut Val) {
    use DataType::*;
    match (dt, &*v) {
        (Time64(TimeUnit::Nanosecond), Val::Int(x)) => *v = Val::Int(x - x.rem_euclid(1000)),
        (Interval(IntervalUnit::YearMonth), Val::Int(_)) => {
            if rng.chance(9, 10) {
                *v = Val::Int(gens::gen_int(rng, 0, i32::MAX as i128));
            }
        }
        (Interval(IntervalUnit::DayTime), Val::IntervalDT(_, _)) => {
            if rng.chance(9, 10) {
                *v = Val::IntervalDT(
                    gens::gen_int(rng, 0, i32::MAX as i128) as i32,
                    gens::gen_int(rng, 0, i32::MAX as i128) as i32,
                );
            }
        }
        (Interval(IntervalUnit::MonthDayNano), Val::IntervalMDN(_, _, _)) => {
            if rng.chance(9, 10) {
                *v = Val::IntervalMDN(
                    gens::gen_int(rng, 0, i32::MAX as i128) as i32,
                    gens::gen_int(rng, 0, i32::MAX as i128) as i32,
                    gens::gen_int(rng, 0, u32::MAX as i128) as i64 * 1_000_000,
                );
            }
        }
        (UInt64, Val::Int(x)) if *x > i64::MAX as i128 => {
            if rng.chance(19, 20) {
                *v = Val::Int(gens::gen_int(rng, 0, i64::MAX as i128));
            }
        }
        (Time32(TimeUnit::Second), Val::Int(_)) => {}
        (Timestamp(TimeUnit::Second, _), Val::Int(x)) => {
            if (*x > i64::MAX as i128 / 1000 || *x < i64::MIN as i128 / 1000) && rng.chance(19, 20) {
                *v = Val::Int(gens::gen_int(rng, i64::MIN as i128 / 1000, i64::MAX as i128 / 1000));
            }
        }
        _ => {}
    }
}

/// Avro union branches carry no null of their own: give every union a non-null payload.
fn fill_union_payloads(rng: &mut Rng, dt: &DataType, v: &mut Val) {
    use DataType::*;
    if v.is_null() {
        return;
    }
    match (dt, v) {
        (Union(ufs, _), Val::Union(t, x)) => {
            if let Some((_, f)) = ufs.iter().find(|(id, _)| id == t) {
                if x.is_null() && !matches!(f.data_type(), Null) {
                    **x = gens::gen_value(rng, f.data_type(), &value_cfg());
                }
                fill_union_payloads(rng, f.data_type(), x);
            }
        }
        (List(f) | LargeList(f) | ListView(f) | LargeListView(f) | FixedSizeList(f, _), Val::List(xs)) => {
            for x in xs {
                fill_union_payloads(rng, f.data_type(), x);
            }
        }
        (Map(e, _), Val::List(xs)) => {
            if let Struct(kv) = e.data_type() {
                for x in xs {
                    if let Val::Struct(p) = x {
                        fill_union_payloads(rng, kv[1].data_type(), &mut p[1]);
                    }
                }
            }
        }
        (Struct(fs), Val::Struct(xs)) => {
            for (f, x) in fs.iter().zip(xs) {
                fill_union_payloads(rng, f.data_type(), x);
            }
        }
        (Dictionary(_, vt), x) => fill_union_payloads(rng, vt, x),
        (RunEndEncoded(_, vf), x) => fill_union_payloads(rng, vf.data_type(), x),
        _ => {}
    }
}

fn flip_null_order(v: &mut serde_json::Value) {
    use serde_json::Value as V;
    match v {
        V::Array(xs) => {
            for x in xs.iter_mut() {
                flip_null_order(x);
            }
            if xs.len() == 2 && xs[0] == V::String("null".into()) && xs[1] != V::String("null".into()) {
                xs.swap(0, 1);
            }
        }
        V::Object(m) => {
            for (_, x) in m.iter_mut() {
                flip_null_order(x);
            }
        }
        _ => {}
    }
}

const CODECS: [Option<CompressionCodec>; 6] = [
    None,
    Some(CompressionCodec::Deflate),
    Some(CompressionCodec::Snappy),
    Some(CompressionCodec::ZStandard),
    Some(CompressionCodec::Bzip2),
    Some(CompressionCodec::Xz),
];

/// An `Dictionary<Int32, Utf8>` column written as an Avro enum: (field, logical values, arrays per batch cut)
fn gen_enum_column(rng: &mut Rng, name: &str, n: usize) -> (Field, Vec<Val>, Vec<String>) {
    let k = 1 + rng.below(5);
    let symbols: Vec<String> = (0..k).map(|i| format!("{}{}", *rng.pick(&["A", "b_", "SYM", "_x"]), i)).collect();
    let nullable = rng.bool();
    let col: Vec<Val> = (0..n)
        .map(|_| {
            if nullable && rng.chance(1, 5) { Val::Null } else { Val::Str(rng.pick(&symbols).clone()) }
        })
        .collect();
    let mut md = HashMap::new();
    md.insert(AVRO_ENUM_SYMBOLS_METADATA_KEY.to_string(), serde_json::to_string(&symbols).unwrap());
    let f = Field::new(name, DataType::Dictionary(Box::new(DataType::Int32), Box::new(DataType::Utf8)), nullable)
        .with_metadata(md);
    (f, col, symbols)
}

fn enum_array(symbols: &[String], vals: &[Val]) -> ArrayRef {
    let keys: Int32Array = vals
        .iter()
        .map(|v| v.as_str().map(|s| symbols.iter().position(|x| x == s).unwrap() as i32))
        .collect();
    let values = StringArray::from(symbols.to_vec());
    Arc::new(DictionaryArray::try_new(keys, Arc::new(values)).expect("model: enum dictionary"))
}

/// Generate schema, data and writer/reader options.
pub fn gen_case(rng: &mut Rng) -> AvroCase {
    let p = avro_profile(rng);
    let ncols = 1 + rng.below(4);
    let names = gen_names(rng, ncols, true);
    let n = rng.len_biased(24);
    let cfg = value_cfg();
    let mut fields = Vec::new();
    let mut cols: Vec<Vec<Val>> = Vec::new();
    let mut enums: Vec<(usize, Vec<String>)> = Vec::new();
    for (ci, nm) in names.iter().enumerate() {
        if rng.chance(1, 14) {
            let (f, col, syms) = gen_enum_column(rng, nm, n);
            fields.push(f);
            cols.push(col);
            enums.push((ci, syms));
            continue;
        }
        let depth = *rng.pick(&[0u32, 0, 1, 1, 2, 3]);
        let dt = fix_union_types(&gen_ty(rng, &p, depth.min(p.max_depth), true));
        let must_null = matches!(dt, DataType::Null | DataType::Dictionary(_, _) | DataType::RunEndEncoded(_, _));
        let nullable = !matches!(dt, DataType::Union(_, _)) && (must_null || !rng.chance(1, 4));
        let mut col = gens::gen_column(rng, &dt, n, nullable, &cfg);
        let mut r2 = rng.fork();
        walk_col(&dt, &mut col, &mut |l, v| tame_avro(&mut r2, l, v));
        for v in col.iter_mut() {
            fill_union_payloads(&mut r2, &dt, v);
        }
        fields.push(Field::new(nm, dt, nullable));
        cols.push(col);
    }
    let schema: SchemaRef = Arc::new(Schema::new(fields));
    // batches: enum columns need their dictionary to equal the symbol list
    let mut batches = make_batches(rng, &schema, &cols);
    if !enums.is_empty() {
        let mut off = 0;
        for b in batches.iter_mut() {
            let mut arrays: Vec<ArrayRef> = b.columns().to_vec();
            for (ci, syms) in &enums {
                arrays[*ci] = enum_array(syms, &cols[*ci][off..off + b.num_rows()]);
            }
            off += b.num_rows();
            *b = RecordBatch::try_new_with_options(
                schema.clone(),
                arrays,
                &RecordBatchOptions::new().with_row_count(Some(b.num_rows())),
            )
            .expect("model: enum batch");
        }
    }
    let framing = match rng.below(10) {
        0..=5 => Framing::Ocf(*rng.pick(&CODECS)),
        6 => Framing::SoeRabin,
        7 => {
            if rng.bool() { Framing::SoeId(rng.u32()) } else { Framing::SoeId64(rng.u64()) }
        }
        8 => Framing::EncoderSoe,
        _ => Framing::EncoderBinary,
    };
    let mut opts = AvroOpts {
        framing,
        batch_size: *rng.pick(&[1usize, 2, 3, 8, 1024]),
        utf8_view: rng.chance(1, 4),
        strict: rng.chance(1, 4),
        null_second: rng.chance(1, 4),
        capacity: *rng.pick(&[0usize, 1, 16, 1024]),
    };
    let mut writer_schema = schema.as_ref().clone();
    if opts.null_second {
        // strict mode documents `[T, "null"]` unions as rejected
        opts.strict = false;
        match AvroSchema::try_from(schema.as_ref()) {
            Ok(a) => {
                let mut v: serde_json::Value = serde_json::from_str(&a.json_string).expect("model: schema json");
                flip_null_order(&mut v);
                let mut md = HashMap::new();
                md.insert(SCHEMA_METADATA_KEY.to_string(), v.to_string());
                writer_schema = Schema::new_with_metadata(schema.fields().clone(), md);
            }
            Err(_) => opts.null_second = false,
        }
    }
    AvroCase { case: Case { schema, cols, batches }, opts, writer_schema }
}

/// What the writer produced: the byte stream, per-row boundaries for the `Encoder` modes,
/// and the Avro schema JSON the data was encoded with.
#[derive(Clone)]
pub struct AvroBytes {
    pub bytes: Vec<u8>,
    pub rows: Option<Vec<(usize, usize)>>,
    pub schema_json: String,
}

/// The Avro schema the writer encodes with (its own conversion, or the supplied `avro.schema`).
pub fn writer_avro_schema(c: &AvroCase) -> Result<AvroSchema, String> {
    match c.writer_schema.metadata().get(SCHEMA_METADATA_KEY) {
        Some(j) => Ok(AvroSchema::new(j.clone())),
        None => AvroSchema::try_from(&c.writer_schema).map_err(|e| e.to_string()),
    }
}

/// Serialize all batches of the case with its options.
pub fn write_avro(c: &AvroCase) -> Result<AvroBytes, String> {
    let wb = || WriterBuilder::new(c.writer_schema.clone()).with_capacity(c.opts.capacity);
    let schema_json = writer_avro_schema(c)?.json_string;
    // the record batches carry the plain schema; the writer compares fields only
    let batches = &c.case.batches;
    let e = |e: arrow_avro::errors::AvroError| e.to_string();
    match c.opts.framing {
        Framing::Ocf(codec) => {
            let mut w = wb().with_compression(codec).build::<_, AvroOcfFormat>(Vec::new()).map_err(e)?;
            for b in batches {
                w.write(b).map_err(e)?;
            }
            w.finish().map_err(e)?;
            Ok(AvroBytes { bytes: w.into_inner(), rows: None, schema_json })
        }
        Framing::SoeRabin | Framing::SoeId(_) | Framing::SoeId64(_) => {
            let strat = match c.opts.framing {
                Framing::SoeId(i) => FingerprintStrategy::Id(i),
                Framing::SoeId64(i) => FingerprintStrategy::Id64(i),
                _ => FingerprintStrategy::Rabin,
            };
            let mut w = wb().with_fingerprint_strategy(strat).build::<_, AvroSoeFormat>(Vec::new()).map_err(e)?;
            for b in batches {
                w.write(b).map_err(e)?;
            }
            w.finish().map_err(e)?;
            Ok(AvroBytes { bytes: w.into_inner(), rows: None, schema_json })
        }
        Framing::EncoderSoe | Framing::EncoderBinary => {
            let mut enc = if c.opts.framing == Framing::EncoderSoe {
                wb().build_encoder::<AvroSoeFormat>().map_err(e)?
            } else {
                wb().build_encoder::<AvroBinaryFormat>().map_err(e)?
            };
            let mut bytes = Vec::new();
            let mut rows = Vec::new();
            for b in batches {
                enc.encode(b).map_err(e)?;
                // flush after every batch or keep buffering: both are legal
                if b.num_rows() % 2 == 0 {
                    let r = enc.flush();
                    for row in r.iter() {
                        rows.push((bytes.len(), bytes.len() + row.len()));
                        bytes.extend_from_slice(&row);
                    }
                }
            }
            let r = enc.flush();
            for row in r.iter() {
                rows.push((bytes.len(), bytes.len() + row.len()));
                bytes.extend_from_slice(&row);
            }
            Ok(AvroBytes { bytes, rows: Some(rows), schema_json })
        }
    }
}

/// Read the bytes back with arrow-avro (`None` for framings arrow-avro has no reader for).
pub fn read_avro(c: &AvroCase, w: &AvroBytes) -> Option<Result<Vec<RecordBatch>, String>> {
    read_avro_with(&c.opts, w)
}

/// `read_avro` for callers that only hold the options (e.g. on another thread).
pub fn read_avro_with(opts: &AvroOpts, w: &AvroBytes) -> Option<Result<Vec<RecordBatch>, String>> {
    let rb = || {
        ReaderBuilder::new()
            .with_batch_size(opts.batch_size)
            .with_utf8_view(opts.utf8_view)
            .with_strict_mode(opts.strict)
    };
    match opts.framing {
        Framing::Ocf(_) => Some((|| {
            let r = rb().build(Cursor::new(w.bytes.clone())).map_err(|e| e.to_string())?;
            let mut out = Vec::new();
            for b in r {
                out.push(b.map_err(|e| e.to_string())?);
            }
            Ok(out)
        })()),
        Framing::EncoderBinary => None,
        _ => Some((|| {
            let avro = AvroSchema::new(w.schema_json.clone());
            let store = match opts.framing {
                Framing::SoeId(i) => {
                    let mut s = SchemaStore::new_with_type(FingerprintAlgorithm::Id);
                    s.set(Fingerprint::Id(i), avro).map_err(|e| e.to_string())?;
                    s
                }
                Framing::SoeId64(i) => {
                    let mut s = SchemaStore::new_with_type(FingerprintAlgorithm::Id64);
                    s.set(Fingerprint::Id64(i), avro).map_err(|e| e.to_string())?;
                    s
                }
                _ => {
                    let mut s = SchemaStore::new();
                    s.register(avro).map_err(|e| e.to_string())?;
                    s
                }
            };
            let mut d = rb().with_writer_schema_store(store).build_decoder().map_err(|e| e.to_string())?;
            let mut out = Vec::new();
            let mut pos = 0;
            let data = &w.bytes;
            let mut stalls = 0;
            while pos < data.len() {
                let used = d.decode(&data[pos..]).map_err(|e| e.to_string())?;
                pos += used;
                if d.batch_is_full() || used == 0 {
                    match d.flush().map_err(|e| e.to_string())? {
                        Some(b) => out.push(b),
                        None => {
                            stalls += 1;
                            if stalls > 3 {
                                return Err(format!("decoder stalled at byte {pos} of {}", data.len()));
                            }
                        }
                    }
                }
            }
            // a trailing zero-length body is only completed by one more call
            let _ = d.decode(&[]).map_err(|e| e.to_string())?;
            if let Some(b) = d.flush().map_err(|e| e.to_string())? {
                out.push(b);
            }
            Ok(out)
        })()),
    }
}

// ------------------------------------------------------------------ expectation

/// The value a column value is expected to come back as (see "not asserted").
pub fn avro_norm(dt: &DataType, v: &Val) -> Val {
    use DataType::*;
    if v.is_null() {
        return Val::Null;
    }
    match (dt, v) {
        (Float16, Val::F16(b)) => Val::F32(half::f16::from_bits(*b).to_f32().to_bits()),
        (Time32(TimeUnit::Second), Val::Int(x)) => Val::Int(x * 1000),
        (Timestamp(TimeUnit::Second, _), Val::Int(x)) => Val::Int(x * 1000),
        (Time64(TimeUnit::Nanosecond), Val::Int(x)) => Val::Int(x / 1000),
        (Interval(IntervalUnit::YearMonth), Val::Int(m)) => Val::IntervalMDN(*m as i32, 0, 0),
        (Interval(IntervalUnit::DayTime), Val::IntervalDT(d, ms)) => Val::IntervalMDN(0, *d, *ms as i64 * 1_000_000),
        (Decimal256(p, _), Val::Big(b)) if *p <= 38 => Val::Int(b.to_i128().expect("model: decimal fits")),
        (List(f) | LargeList(f) | ListView(f) | LargeListView(f) | FixedSizeList(f, _), Val::List(xs)) => {
            Val::List(xs.iter().map(|x| avro_norm(f.data_type(), x)).collect())
        }
        (Map(e, _), Val::List(xs)) => {
            let Struct(kv) = e.data_type() else { panic!("model: map entries") };
            Val::List(
                xs.iter()
                    .map(|x| match x {
                        Val::Struct(p) => Val::Struct(vec![p[0].clone(), avro_norm(kv[1].data_type(), &p[1])]),
                        o => o.clone(),
                    })
                    .collect(),
            )
        }
        (Struct(fs), Val::Struct(xs)) => {
            Val::Struct(fs.iter().zip(xs).map(|(f, x)| avro_norm(f.data_type(), x)).collect())
        }
        (Union(ufs, _), Val::Union(t, x)) => {
            let pos = ufs.iter().position(|(id, _)| id == *t).expect("model: union id");
            let f = ufs.iter().nth(pos).unwrap().1;
            Val::Union(pos as i8, Box::new(avro_norm(f.data_type(), x)))
        }
        (Dictionary(_, vt), x) => avro_norm(vt, x),
        (RunEndEncoded(_, vf), x) => avro_norm(vf.data_type(), x),
        (_, x) => x.clone(),
    }
}

/// Expected logical columns after a round trip through arrow-avro.
pub fn expected(c: &AvroCase) -> Vec<Vec<Val>> {
    c.case
        .schema
        .fields()
        .iter()
        .zip(&c.case.cols)
        .map(|(f, col)| col.iter().map(|v| avro_norm(f.data_type(), v)).collect())
        .collect()
}

/// `logicalType: uuid` is read as FixedSizeBinary(16) or, with `utf8_view`, as its canonical
/// string: spell a 16-byte expectation the way the output column stores it.
pub fn adapt_uuid(dt: &DataType, v: &Val) -> Val {
    use DataType::*;
    if v.is_null() {
        return Val::Null;
    }
    match (dt, v) {
        (Utf8 | Utf8View | LargeUtf8, Val::Bytes(b)) if b.len() == 16 => {
            let h: String = b.iter().map(|x| format!("{x:02x}")).collect();
            Val::Str(format!("{}-{}-{}-{}-{}", &h[0..8], &h[8..12], &h[12..16], &h[16..20], &h[20..32]))
        }
        (List(f) | LargeList(f) | ListView(f) | LargeListView(f) | FixedSizeList(f, _), Val::List(xs)) => {
            Val::List(xs.iter().map(|x| adapt_uuid(f.data_type(), x)).collect())
        }
        (Map(e, _), Val::List(xs)) => Val::List(xs.iter().map(|x| adapt_uuid(e.data_type(), x)).collect()),
        (Struct(fs), Val::Struct(xs)) => Val::Struct(fs.iter().zip(xs).map(|(f, x)| adapt_uuid(f.data_type(), x)).collect()),
        (Union(ufs, _), Val::Union(t, x)) => match ufs.iter().nth(*t as usize) {
            Some((_, f)) => Val::Union(*t, Box::new(adapt_uuid(f.data_type(), x))),
            None => v.clone(),
        },
        (_, x) => x.clone(),
    }
}

/// Replace union type ids by branch positions (what the expectation uses); with `sort_maps`
/// also order map entries by key.
pub fn norm_read(dt: &DataType, v: &Val, sort_maps: bool) -> Val {
    use DataType::*;
    if v.is_null() {
        return Val::Null;
    }
    match (dt, v) {
        (List(f) | LargeList(f) | ListView(f) | LargeListView(f) | FixedSizeList(f, _), Val::List(xs)) => {
            Val::List(xs.iter().map(|x| norm_read(f.data_type(), x, sort_maps)).collect())
        }
        (Map(e, _), Val::List(xs)) => {
            let mut ys: Vec<Val> = xs.iter().map(|x| norm_read(e.data_type(), x, sort_maps)).collect();
            if sort_maps {
                ys.sort();
            }
            Val::List(ys)
        }
        (Struct(fs), Val::Struct(xs)) => {
            Val::Struct(fs.iter().zip(xs).map(|(f, x)| norm_read(f.data_type(), x, sort_maps)).collect())
        }
        (Union(ufs, _), Val::Union(t, x)) => match ufs.iter().position(|(id, _)| id == *t) {
            Some(pos) => {
                let f = ufs.iter().nth(pos).unwrap().1;
                Val::Union(pos as i8, Box::new(norm_read(f.data_type(), x, sort_maps)))
            }
            None => v.clone(),
        },
        (Dictionary(_, vt), x) => norm_read(vt, x, sort_maps),
        (_, x) => x.clone(),
    }
}

// ------------------------------------------------------------------ apache-avro as the independent decoder

fn big_from_i256(v: arrow_buffer::i256) -> BigInt {
    v.to_string().parse().expect("model: i256 digits")
}

fn f32_same(a: f32, b: f32) -> bool {
    (a.is_nan() && b.is_nan()) || a.to_bits() == b.to_bits()
}
fn f64_same(a: f64, b: f64) -> bool {
    (a.is_nan() && b.is_nan()) || a.to_bits() == b.to_bits()
}

/// Does the value apache-avro decoded equal the logical input value? `dt` is the Arrow input
/// type, `v` the *input* value (not normalised). Err((leaf class, message)).
pub fn apache_matches(dt: &DataType, v: &Val, av: &AV) -> Result<(), (String, String)> {
    use DataType::*;
    // nullable sites are two-branch unions
    let av = match (dt, av) {
        (Union(_, _), _) => av,
        (_, AV::Union(_, inner)) => inner.as_ref(),
        _ => av,
    };
    let bad = || Err((json::sig_class(dt), format!("{dt}: input {v:?} decoded by apache-avro as {av:?}")));
    // everything below an encoding is attributed to the encoding
    if let Dictionary(_, vt) = dt {
        return apache_matches(vt, v, av).map_err(|(_, m)| ("Dict".to_string(), m));
    }
    if let RunEndEncoded(_, vf) = dt {
        return apache_matches(vf.data_type(), v, av).map_err(|(_, m)| ("REE".to_string(), m));
    }
    if v.is_null() {
        return if matches!(av, AV::Null) { Ok(()) } else { bad() };
    }
    let ok = |c: bool| if c { Ok(()) } else { bad() };
    match (dt, v, av) {
        (Boolean, Val::Bool(a), AV::Boolean(b)) => ok(a == b),
        (Int8 | Int16 | Int32 | UInt8 | UInt16, Val::Int(a), AV::Int(b)) => ok(*a == *b as i128),
        (Int64 | UInt32 | UInt64 | Duration(_), Val::Int(a), AV::Long(b)) => ok(*a == *b as i128),
        (Float16, Val::F16(a), AV::Float(b)) => ok(f32_same(half::f16::from_bits(*a).to_f32(), *b)),
        (Float32, Val::F32(a), AV::Float(b)) => ok(f32_same(f32::from_bits(*a), *b)),
        (Float64, Val::F64(a), AV::Double(b)) => ok(f64_same(f64::from_bits(*a), *b)),
        (Utf8 | LargeUtf8 | Utf8View, Val::Str(a), AV::String(b)) => ok(a == b),
        (Utf8, Val::Str(a), AV::Enum(_, b)) => ok(a == b),
        (Binary | LargeBinary | BinaryView, Val::Bytes(a), AV::Bytes(b)) => ok(a == b),
        (FixedSizeBinary(n), Val::Bytes(a), AV::Fixed(m, b)) => ok(*n as usize == *m && a == b),
        (Date32, Val::Int(a), AV::Date(b)) => ok(*a == *b as i128),
        (Date64, Val::Int(a), AV::LocalTimestampMillis(b)) => ok(*a == *b as i128),
        (Time32(TimeUnit::Second), Val::Int(a), AV::TimeMillis(b)) => ok(*a * 1000 == *b as i128),
        (Time32(TimeUnit::Millisecond), Val::Int(a), AV::TimeMillis(b)) => ok(*a == *b as i128),
        (Time64(TimeUnit::Microsecond), Val::Int(a), AV::TimeMicros(b)) => ok(*a == *b as i128),
        (Time64(TimeUnit::Nanosecond), Val::Int(a), AV::TimeMicros(b)) => ok(*a / 1000 == *b as i128),
        (Timestamp(u, tz), Val::Int(a), _) => {
            let a = *a;
            match (u, tz.is_some(), av) {
                (TimeUnit::Second, true, AV::TimestampMillis(b)) => ok(a * 1000 == *b as i128),
                (TimeUnit::Second, false, AV::LocalTimestampMillis(b)) => ok(a * 1000 == *b as i128),
                (TimeUnit::Millisecond, true, AV::TimestampMillis(b)) => ok(a == *b as i128),
                (TimeUnit::Millisecond, false, AV::LocalTimestampMillis(b)) => ok(a == *b as i128),
                (TimeUnit::Microsecond, true, AV::TimestampMicros(b)) => ok(a == *b as i128),
                (TimeUnit::Microsecond, false, AV::LocalTimestampMicros(b)) => ok(a == *b as i128),
                (TimeUnit::Nanosecond, true, AV::TimestampNanos(b)) => ok(a == *b as i128),
                (TimeUnit::Nanosecond, false, AV::LocalTimestampNanos(b)) => ok(a == *b as i128),
                _ => bad(),
            }
        }
        (Interval(_), _, AV::Duration(d)) => {
            let exp = avro_norm(dt, v);
            let (m, dd, ms) = (u32::from(d.months()), u32::from(d.days()), u32::from(d.millis()));
            ok(exp == Val::IntervalMDN(m as i32, dd as i32, ms as i64 * 1_000_000) && m <= i32::MAX as u32 && dd <= i32::MAX as u32)
        }
        (Decimal128(_, _) | Decimal256(_, _), _, AV::Decimal(d)) => {
            let bytes: Vec<u8> = match Vec::<u8>::try_from(d) {
                Ok(b) => b,
                Err(_) => return bad(),
            };
            let got = BigInt::from_signed_bytes_be(&bytes);
            let exp = match v {
                Val::Int(a) => BigInt::from(*a),
                Val::Big(a) => big_from_i256(*a),
                _ => return bad(),
            };
            ok(got == exp)
        }
        (List(f) | LargeList(f) | ListView(f) | LargeListView(f) | FixedSizeList(f, _), Val::List(a), AV::Array(b)) => {
            if a.len() != b.len() {
                return bad();
            }
            for (x, y) in a.iter().zip(b) {
                apache_matches(f.data_type(), x, y)?;
            }
            Ok(())
        }
        (Struct(fs), Val::Struct(a), AV::Record(b)) => {
            if a.len() != b.len() {
                return bad();
            }
            for ((f, x), (name, y)) in fs.iter().zip(a).zip(b) {
                if name != f.name() {
                    return bad();
                }
                apache_matches(f.data_type(), x, y)?;
            }
            Ok(())
        }
        (Map(e, _), Val::List(a), AV::Map(b)) => {
            let Struct(kv) = e.data_type() else { return bad() };
            let mut last: HashMap<&str, &Val> = HashMap::new();
            for x in a {
                if let Val::Struct(p) = x {
                    if let Some(k) = p[0].as_str() {
                        last.insert(k, &p[1]);
                    }
                }
            }
            if last.len() != b.len() {
                return bad();
            }
            for (k, x) in last {
                match b.get(k) {
                    Some(y) => apache_matches(kv[1].data_type(), x, y)?,
                    None => return bad(),
                }
            }
            Ok(())
        }
        (Union(ufs, _), Val::Union(t, x), AV::Union(idx, inner)) => {
            let Some(pos) = ufs.iter().position(|(id, _)| id == *t) else { return bad() };
            if pos as u32 != *idx {
                return bad();
            }
            let f = ufs.iter().nth(pos).unwrap().1;
            apache_matches(f.data_type(), x, inner)
        }
        (Dictionary(_, vt), x, y) => apache_matches(vt, x, y),
        (RunEndEncoded(_, vf), x, y) => apache_matches(vf.data_type(), x, y),
        _ => bad(),
    }
}

/// Parsing Canonical Form of an Avro schema (Avro specification, "Transforming into Parsing
/// Canonical Form"): primitives in simple form, full names, only the attributes type, name,
/// fields, symbols, items, values, size in that order, no whitespace.
pub fn own_canonical_form(v: &serde_json::Value, ns: &str, out: &mut String) {
    use serde_json::Value as V;
    const PRIMS: [&str; 8] = ["null", "boolean", "int", "long", "float", "double", "bytes", "string"];
    let q = |s: &str| serde_json::to_string(s).unwrap();
    match v {
        V::String(s) => {
            if PRIMS.contains(&s.as_str()) || s.contains('.') || ns.is_empty() {
                out.push_str(&q(s));
            } else {
                out.push_str(&q(&format!("{ns}.{s}")));
            }
        }
        V::Array(xs) => {
            out.push('[');
            for (i, x) in xs.iter().enumerate() {
                if i > 0 {
                    out.push(',');
                }
                own_canonical_form(x, ns, out);
            }
            out.push(']');
        }
        V::Object(m) => {
            let t = m.get("type").cloned().unwrap_or(V::Null);
            let ts = match &t {
                V::String(s) => s.clone(),
                other => return own_canonical_form(other, ns, out),
            };
            if PRIMS.contains(&ts.as_str()) {
                out.push_str(&q(&ts));
                return;
            }
            match ts.as_str() {
                "array" => {
                    out.push_str("{\"type\":\"array\",\"items\":");
                    own_canonical_form(m.get("items").unwrap_or(&V::Null), ns, out);
                    out.push('}');
                }
                "map" => {
                    out.push_str("{\"type\":\"map\",\"values\":");
                    own_canonical_form(m.get("values").unwrap_or(&V::Null), ns, out);
                    out.push('}');
                }
                "record" | "error" | "enum" | "fixed" => {
                    let name = m.get("name").and_then(|x| x.as_str()).unwrap_or("");
                    let full = if name.contains('.') {
                        name.to_string()
                    } else {
                        match m.get("namespace").and_then(|x| x.as_str()) {
                            Some("") => name.to_string(),
                            Some(n) => format!("{n}.{name}"),
                            None if ns.is_empty() => name.to_string(),
                            None => format!("{ns}.{name}"),
                        }
                    };
                    let inner_ns = full.rsplit_once('.').map(|x| x.0.to_string()).unwrap_or_default();
                    out.push_str(&format!("{{\"name\":{},\"type\":{}", q(&full), q(&ts)));
                    match ts.as_str() {
                        "enum" => {
                            out.push_str(",\"symbols\":");
                            out.push_str(&m.get("symbols").map(|x| x.to_string()).unwrap_or_default());
                        }
                        "fixed" => {
                            out.push_str(",\"size\":");
                            out.push_str(&m.get("size").map(|x| x.to_string()).unwrap_or_default());
                        }
                        _ => {
                            out.push_str(",\"fields\":[");
                            if let Some(V::Array(fs)) = m.get("fields") {
                                for (i, f) in fs.iter().enumerate() {
                                    if i > 0 {
                                        out.push(',');
                                    }
                                    let fname = f.get("name").and_then(|x| x.as_str()).unwrap_or("");
                                    out.push_str(&format!("{{\"name\":{},\"type\":", q(fname)));
                                    own_canonical_form(f.get("type").unwrap_or(&V::Null), &inner_ns, out);
                                    out.push('}');
                                }
                            }
                            out.push(']');
                        }
                    }
                    out.push('}');
                }
                // a reference to a named type written as {"type": "Name"}
                other => out.push_str(&q(other)),
            }
        }
        other => out.push_str(&other.to_string()),
    }
}

/// CRC-64-AVRO (Rabin) fingerprint as defined in the Avro specification.
pub fn own_rabin(data: &[u8]) -> u64 {
    const EMPTY: u64 = 0xc15d213aa4d7a795;
    let mut table = [0u64; 256];
    for (i, t) in table.iter_mut().enumerate() {
        let mut fp = i as u64;
        for _ in 0..8 {
            fp = (fp >> 1) ^ (EMPTY & (fp & 1).wrapping_neg());
        }
        *t = fp;
    }
    let mut fp = EMPTY;
    for b in data {
        fp = (fp >> 8) ^ table[((fp ^ *b as u64) & 0xff) as usize];
    }
    fp
}

/// Decode the writer's bytes with apache-avro into one record value per row.
pub fn apache_decode(c: &AvroCase, w: &AvroBytes) -> Result<Vec<AV>, String> {
    match c.opts.framing {
        Framing::Ocf(_) => {
            let r = apache_avro::Reader::new(&w.bytes[..]).map_err(|e| format!("header: {e}"))?;
            let mut out = Vec::new();
            for v in r {
                out.push(v.map_err(|e| format!("block: {e}"))?);
            }
            Ok(out)
        }
        _ => {
            let schema = apache_avro::Schema::parse_str(&w.schema_json).map_err(|e| format!("schema: {e}"))?;
            let prefix: Vec<u8> = match c.opts.framing {
                Framing::SoeRabin | Framing::EncoderSoe => {
                    // apache-avro's canonical form keeps logicalType (not the specification's
                    // Parsing Canonical Form), so the fingerprint is computed independently here
                    let sj: serde_json::Value = serde_json::from_str(&w.schema_json).map_err(|e| format!("schema: {e}"))?;
                    let mut canon = String::new();
                    own_canonical_form(&sj, "", &mut canon);
                    let mut p = vec![0xC3, 0x01];
                    p.extend_from_slice(&own_rabin(canon.as_bytes()).to_le_bytes());
                    p
                }
                Framing::SoeId(i) => {
                    let mut p = vec![0u8];
                    p.extend_from_slice(&i.to_be_bytes());
                    p
                }
                Framing::SoeId64(i) => {
                    let mut p = vec![0u8];
                    p.extend_from_slice(&i.to_be_bytes());
                    p
                }
                _ => vec![],
            };
            let mut out = Vec::new();
            let mut read_one = |mut data: &[u8]| -> Result<usize, String> {
                let start = data.len();
                if !data.starts_with(&prefix) {
                    return Err(format!("prefix: single-object prefix differs from the specification's (expected {:02x?}, found {:02x?})", prefix, &data[..prefix.len().min(data.len())]));
                }
                data = &data[prefix.len()..];
                #[allow(deprecated)]
                let v = apache_avro::from_avro_datum(&schema, &mut data, None).map_err(|e| format!("datum: {e}"))?;
                out.push(v);
                Ok(start - data.len())
            };
            match &w.rows {
                Some(rows) => {
                    for (a, b) in rows {
                        let used = read_one(&w.bytes[*a..*b])?;
                        if used != b - a {
                            return Err(format!("row: {} bytes in a row of {}", used, b - a));
                        }
                    }
                }
                None => {
                    let mut pos = 0;
                    let n = c.case.rows();
                    for _ in 0..n {
                        pos += read_one(&w.bytes[pos..])?;
                    }
                    if pos != w.bytes.len() {
                        return Err(format!("stream: {} trailing bytes", w.bytes.len() - pos));
                    }
                }
            }
            Ok(out)
        }
    }
}

// ------------------------------------------------------------------ avro-rt

pub fn run_rt(ctx: &mut Ctx, k: u64) {
    let total = ctx.tier.pick(48, 12_000, 300_000);
    for i in chunk_cases(ctx, "avro-rt", total, k) {
        if ctx.out_of_time() {
            break;
        }
        let mut rng = ctx.begin("avro-rt", i);
        let c = match vcore::guard(|| gen_case(&mut rng)) {
            Ok(c) => c,
            Err(p) => {
                ctx.inconclusive(&format!("generator: {} @ {}", p.msg, p.loc));
                continue;
            }
        };
        rt_case(ctx, &c);
    }
}

fn col_classes(s: &Schema) -> String {
    s.fields().iter().map(|f| gens::type_class(f.data_type())).collect::<Vec<_>>().join(",")
}

fn hex_head(b: &[u8]) -> String {
    let mut s = String::new();
    for x in b.iter().take(400) {
        s.push_str(&format!("{x:02x}"));
    }
    if b.len() > 400 {
        s.push_str(&format!("..({} bytes)", b.len()));
    }
    s
}

fn rt_case(ctx: &mut Ctx, c: &AvroCase) {
    let o = &c.opts;
    let w = match run_op(|| write_avro(c)) {
        Outcome::Ok(w) => w,
        Outcome::Err(_) => {
            ctx.reject();
            ctx.count("avro.write_err", 1);
            return;
        }
        Outcome::Panic(p) => {
            ctx.reject();
            ctx.count("avro.write_panic", 1);
            if ctx.verbose {
                eprintln!("writer panic: {} @ {}", p.msg, p.loc);
            }
            return;
        }
    };
    let rows = c.case.rows();
    let detail = |extra: &str| {
        format!("opts {:?}\n{}avro schema {}\nbytes {}\n{extra}", c.opts, c.case.dump(), w.schema_json, hex_head(&w.bytes))
    };
    let has_ree = c.case.schema.fields().iter().any(|f| type_any(f.data_type(), &|t| matches!(t, DataType::RunEndEncoded(_, _))));
    let has_fsb0 = c.case.schema.fields().iter().any(|f| type_any(f.data_type(), &|t| matches!(t, DataType::FixedSizeBinary(0))));
    // layouts behind whole families of findings get one signature per stage
    let tag = if has_ree {
        Some("REE")
    } else if has_fsb0 {
        Some("FixedSizeBinary(0)")
    } else {
        None
    };
    if o.null_second && matches!(o.framing, Framing::Ocf(_)) {
        // WriterBuilder documents a supplied `avro.schema` as used verbatim
        let needle = w.schema_json.as_bytes();
        if !w.bytes.windows(needle.len()).any(|x| x == needle) {
            ctx.eval();
            ctx.violation(
                "C17|avro|write|supplied-schema-not-in-header",
                detail("the OCF header does not advertise the supplied avro.schema the rows were encoded with"),
            );
            return;
        }
    }

    if let Some(r) = &w.rows {
        if r.len() != rows {
            ctx.violation(
                "C17|avro|write|encoder-row-count",
                detail(&format!("Encoder produced {} rows for {rows} input rows", r.len())),
            );
            return;
        }
    }

    // ---- independent decoder
    // not asserted: apache-avro's reader stops at a zero-count block (an empty batch)
    let empty_block = matches!(o.framing, Framing::Ocf(_))
        && c.case.batches.iter().rev().skip_while(|b| b.num_rows() == 0).any(|b| b.num_rows() == 0);
    let dec = if empty_block {
        ctx.count("avro.apache_skipped_empty_block", 1);
        Ok(Ok(Vec::new()))
    } else {
        vcore::guard(|| apache_decode(c, &w))
    };
    let mut apache_checked = false;
    match dec {
        Err(p) => ctx.inconclusive(&format!("apache-avro panicked: {} @ {}", p.msg, p.loc)),
        Ok(Err(e)) => {
            ctx.eval();
            let why = e.split_once(": ").map(|x| x.1).unwrap_or("");
            ctx.violation(
                &match tag {
                    Some(t) => format!("C17|avro|decode|failed|{t}"),
                    None => format!("C17|avro|decode|independent-decoder-rejects|{}", err_family(why)),
                },
                detail(&format!("apache-avro cannot decode arrow-avro's output: {e}")),
            );
            return;
        }
        Ok(Ok(_)) if empty_block => {}
        Ok(Ok(vals)) => {
            if vals.len() != rows {
                ctx.eval();
                ctx.violation(
                    &match tag {
                        Some(t) => format!("C17|avro|decode|failed|{t}"),
                        None => "C17|avro|decode|row-count".to_string(),
                    },
                    detail(&format!("apache-avro decodes {} rows, input has {rows}", vals.len())),
                );
                return;
            }
            let row_dt = DataType::Struct(c.case.schema.fields().clone());
            let mut in_cols = c.case.cols.clone();
            selftest_mutate("avro-apache", &mut in_cols);
            for (r, av) in vals.iter().enumerate() {
                let rv = Val::Struct(in_cols.iter().map(|col| col[r].clone()).collect());
                if let Err((class, msg)) = apache_matches(&row_dt, &rv, av) {
                    ctx.eval();
                    ctx.violation(
                        &match tag {
                            Some(t) => format!("C17|avro|decode|failed|{t}"),
                            None => format!("C17|avro|decode|value|{class}"),
                        },
                        detail(&format!("row {r}: {msg}")),
                    );
                    return;
                }
            }
            apache_checked = true;
            ctx.count("avro.apache_rows", rows as u64);
        }
    }

    // ---- arrow-avro reader
    let mut exp = expected(c);
    selftest_mutate("avro-rt", &mut exp);
    // arrow-avro's OCF reader can spin forever on a block with bytes left after its last
    // record: the read runs under a watchdog (a timeout is inconclusive, never a verdict)
    let (o2, w2) = (c.opts.clone(), w.clone());
    let read = match with_watchdog(20, move || read_avro_with(&o2, &w2)) {
        Some(Ok(r)) => Ok(r),
        Some(Err(p)) => Err(p),
        None => {
            ctx.inconclusive("arrow-avro reader did not return within 20 s on arrow-avro's own output");
            ctx.count("avro.read_timeout", 1);
            return;
        }
    };
    let batches = match read {
        Err(p) => {
            if p.is_rejection() {
                ctx.reject();
                return;
            }
            ctx.eval();
            ctx.violation(
                &match tag {
                    Some(t) => format!("C17|avro|decode|failed|{t}"),
                    None => format!("C17|avro|read|panic|{}|{}", p.file(), err_family(&p.msg)),
                },
                detail(&format!("reader panic: {} @ {}", p.msg, p.loc)),
            );
            return;
        }
        Ok(None) => {
            if apache_checked {
                ctx.eval();
                if rows > 0 {
                    ctx.class(format!("avro-rt|{}|{}|apache-only", col_classes(&c.case.schema), o.class()));
                }
            }
            return;
        }
        Ok(Some(Err(e))) => {
            if is_rejection_msg(&e) {
                ctx.reject();
                ctx.count("avro.read_unsupported", 1);
                return;
            }
            ctx.eval();
            ctx.violation(
                &match tag {
                    Some(t) => format!("C17|avro|decode|failed|{t}"),
                    None => format!("C17|avro|read|err|{}", err_family(&e)),
                },
                detail(&format!("reader error: {e}")),
            );
            return;
        }
        Ok(Some(Ok(b))) => b,
    };
    ctx.eval();
    ctx.count("avro.bytes", w.bytes.len() as u64);
    for b in &batches {
        if b.num_rows() > o.batch_size {
            ctx.violation("C17|avro|read|batch-size", detail(&format!("batch of {} rows", b.num_rows())));
            return;
        }
        if b.num_columns() != exp.len() {
            ctx.violation("C17|avro|read|column-count", detail(&format!("{} columns", b.num_columns())));
            return;
        }
        if let Err(e) = check_batch(b) {
            ctx.violation(&format!("C17|avro|read|invalid-batch|{}", err_family(&e)), detail(&e));
            return;
        }
    }
    let got = extract_batches(&batches, exp.len());
    let out_schema = batches.first().map(|b| b.schema());
    for (ci, (e, g)) in exp.iter().zip(&got).enumerate() {
        let in_dt = c.case.schema.field(ci).data_type();
        let out_dt = out_schema.as_ref().map(|s| s.field(ci).data_type().clone()).unwrap_or(in_dt.clone());
        let g: Vec<Val> = g.iter().map(|v| norm_read(&out_dt, v, false)).collect();
        if let Some((row, leaf, kind)) = diff_col(&out_dt, e, &g) {
            ctx.violation(
                &match tag {
                    Some(t) => format!("C17|avro|decode|failed|{t}"),
                    None => format!("C17|avro|decode|{kind}|{leaf}"),
                },
                detail(&format!(
                    "column {ci} ({in_dt} read as {out_dt}) row {row}: expected {:?} got {:?}",
                    e.get(row),
                    g.get(row)
                )),
            );
            return;
        }
    }
    if rows > 0 {
        ctx.class(format!("avro-rt|{}|{}|ok", col_classes(&c.case.schema), o.class()));
        ctx.sample(|| format!("avro-rt {:?}\n{}{}", c.opts, c.case.dump(), w.schema_json));
    }
}

// ------------------------------------------------------------------ avro-ext: own Avro schemas, apache-avro writer

/// Avro types of the foreign-file generator.
#[derive(Clone, Debug)]
pub enum ATy {
    Null,
    Bool,
    Int,
    Long,
    Float,
    Double,
    Bytes,
    Str,
    Fixed(String, usize),
    Enum(String, Vec<String>),
    Array(Box<ATy>),
    Map(Box<ATy>),
    Record(String, Vec<(String, ATy)>),
    Union(Vec<ATy>),
    Date,
    TimeMillis,
    TimeMicros,
    TsMillis,
    TsMicros,
    TsNanos,
    LocalTsMillis,
    LocalTsMicros,
    LocalTsNanos,
    DecimalBytes(u8, u8),
    DecimalFixed(String, u8, u8, usize),
    Uuid,
    Duration(String),
}

struct Namer(u32);
impl Namer {
    fn next(&mut self, rng: &mut Rng, p: &str) -> String {
        self.0 += 1;
        let ns = *rng.pick(&["", "", "ns1.", "org.example."]);
        format!("{ns}{p}{}", self.0)
    }
}

fn union_kind(t: &ATy) -> String {
    match t {
        ATy::Fixed(n, _) | ATy::Enum(n, _) | ATy::Record(n, _) | ATy::DecimalFixed(n, _, _, _) | ATy::Duration(n) => {
            format!("N:{n}")
        }
        ATy::Array(_) => "array".into(),
        ATy::Map(_) => "map".into(),
        ATy::Int | ATy::Date | ATy::TimeMillis => "int".into(),
        ATy::Long | ATy::TimeMicros | ATy::TsMillis | ATy::TsMicros | ATy::TsNanos | ATy::LocalTsMillis | ATy::LocalTsMicros | ATy::LocalTsNanos => "long".into(),
        ATy::Bytes | ATy::DecimalBytes(_, _) => "bytes".into(),
        ATy::Str | ATy::Uuid => "string".into(),
        other => format!("{other:?}"),
    }
}

fn gen_aty(rng: &mut Rng, nm: &mut Namer, depth: u32, in_union: bool) -> ATy {
    if depth == 0 || rng.chance(1, 2) {
        let min_size = |p: u8| -> usize {
            // bytes needed for 10^p - 1 in two's complement
            let mut n = 1usize;
            let big = BigInt::from(10).pow(p as u32);
            while BigInt::from(1) << (8 * n - 1) < big {
                n += 1;
            }
            n
        };
        return match rng.below(26) {
            0 => ATy::Bool,
            1 | 2 => ATy::Int,
            3 | 4 => ATy::Long,
            5 => ATy::Float,
            6 => ATy::Double,
            7 => ATy::Bytes,
            8 | 9 | 10 => ATy::Str,
            11 => ATy::Fixed(nm.next(rng, "Fx"), *rng.pick(&[1usize, 2, 5, 16])),
            12 => {
                let k = 1 + rng.below(5);
                ATy::Enum(nm.next(rng, "En"), (0..k).map(|i| format!("S{i}")).collect())
            }
            13 => ATy::Date,
            14 => ATy::TimeMillis,
            15 => ATy::TimeMicros,
            16 => rng.pick(&[ATy::TsMillis, ATy::TsMicros, ATy::TsNanos]).clone(),
            17 => rng.pick(&[ATy::LocalTsMillis, ATy::LocalTsMicros, ATy::LocalTsNanos]).clone(),
            18 | 19 => {
                let p = if rng.chance(1, 4) { 39 + rng.below(38) } else { 1 + rng.below(38) } as u8;
                ATy::DecimalBytes(p, rng.below(p as usize + 1) as u8)
            }
            20 => {
                let p = if rng.chance(1, 4) { 39 + rng.below(38) } else { 1 + rng.below(38) } as u8;
                let size = (min_size(p) + rng.below(3)).min(32);
                ATy::DecimalFixed(nm.next(rng, "Dec"), p, rng.below(p as usize + 1) as u8, size)
            }
            21 => ATy::Uuid,
            22 => ATy::Duration(nm.next(rng, "Dur")),
            23 if !in_union => ATy::Null,
            _ => ATy::Long,
        };
    }
    match rng.below(8) {
        0 | 1 => ATy::Array(Box::new(gen_aty(rng, nm, depth - 1, false))),
        2 => ATy::Map(Box::new(gen_aty(rng, nm, depth - 1, false))),
        3 | 4 => {
            let n = 1 + rng.below(3);
            let name = nm.next(rng, "Rec");
            ATy::Record(name, (0..n).map(|i| (format!("f{i}"), gen_aty(rng, nm, depth - 1, false))).collect())
        }
        _ if !in_union => {
            // nullable in both orders, or a general union
            let general = rng.chance(1, 3);
            let n = if general { 2 + rng.below(2) } else { 1 };
            let mut bs: Vec<ATy> = Vec::new();
            let mut guard = 0;
            while bs.len() < n && guard < 40 {
                guard += 1;
                let t = gen_aty(rng, nm, depth - 1, true);
                if matches!(t, ATy::Union(_) | ATy::Null) {
                    continue;
                }
                if !bs.iter().any(|b| union_kind(b) == union_kind(&t)) {
                    bs.push(t);
                }
            }
            if !general || rng.bool() {
                let at = if general { rng.below(bs.len() + 1) } else { rng.below(2) * bs.len() };
                bs.insert(at.min(bs.len()), ATy::Null);
            }
            ATy::Union(bs)
        }
        _ => ATy::Array(Box::new(gen_aty(rng, nm, depth - 1, false))),
    }
}

fn named(kind: &str, full: &str) -> serde_json::Map<String, serde_json::Value> {
    let mut m = serde_json::Map::new();
    m.insert("type".into(), kind.into());
    match full.rsplit_once('.') {
        Some((ns, n)) => {
            m.insert("name".into(), n.into());
            m.insert("namespace".into(), ns.into());
        }
        None => {
            m.insert("name".into(), full.into());
            // an empty namespace stops inheritance of the enclosing one
            m.insert("namespace".into(), "".into());
        }
    }
    m
}

pub fn aty_json(t: &ATy) -> serde_json::Value {
    use serde_json::{Value as V, json};
    match t {
        ATy::Null => "null".into(),
        ATy::Bool => "boolean".into(),
        ATy::Int => "int".into(),
        ATy::Long => "long".into(),
        ATy::Float => "float".into(),
        ATy::Double => "double".into(),
        ATy::Bytes => "bytes".into(),
        ATy::Str => "string".into(),
        ATy::Fixed(n, s) => {
            let mut m = named("fixed", n);
            m.insert("size".into(), json!(s));
            V::Object(m)
        }
        ATy::Enum(n, syms) => {
            let mut m = named("enum", n);
            m.insert("symbols".into(), json!(syms));
            V::Object(m)
        }
        ATy::Array(i) => json!({"type": "array", "items": aty_json(i)}),
        ATy::Map(i) => json!({"type": "map", "values": aty_json(i)}),
        ATy::Record(n, fs) => {
            let mut m = named("record", n);
            let fields: Vec<V> = fs.iter().map(|(fname, ft)| json!({"name": fname, "type": aty_json(ft)})).collect();
            m.insert("fields".into(), V::Array(fields));
            V::Object(m)
        }
        ATy::Union(bs) => V::Array(bs.iter().map(aty_json).collect()),
        ATy::Date => json!({"type": "int", "logicalType": "date"}),
        ATy::TimeMillis => json!({"type": "int", "logicalType": "time-millis"}),
        ATy::TimeMicros => json!({"type": "long", "logicalType": "time-micros"}),
        ATy::TsMillis => json!({"type": "long", "logicalType": "timestamp-millis"}),
        ATy::TsMicros => json!({"type": "long", "logicalType": "timestamp-micros"}),
        ATy::TsNanos => json!({"type": "long", "logicalType": "timestamp-nanos"}),
        ATy::LocalTsMillis => json!({"type": "long", "logicalType": "local-timestamp-millis"}),
        ATy::LocalTsMicros => json!({"type": "long", "logicalType": "local-timestamp-micros"}),
        ATy::LocalTsNanos => json!({"type": "long", "logicalType": "local-timestamp-nanos"}),
        ATy::DecimalBytes(p, s) => json!({"type": "bytes", "logicalType": "decimal", "precision": p, "scale": s}),
        ATy::DecimalFixed(n, p, s, size) => {
            let mut m = named("fixed", n);
            m.insert("size".into(), json!(size));
            m.insert("logicalType".into(), "decimal".into());
            m.insert("precision".into(), json!(p));
            m.insert("scale".into(), json!(s));
            V::Object(m)
        }
        ATy::Uuid => json!({"type": "string", "logicalType": "uuid"}),
        ATy::Duration(n) => {
            let mut m = named("fixed", n);
            m.insert("size".into(), json!(12));
            m.insert("logicalType".into(), "duration".into());
            V::Object(m)
        }
    }
}

fn big_to_val(v: &BigInt, p: u8) -> Val {
    let s = v.to_string();
    if p <= 38 {
        Val::Int(s.parse::<i128>().expect("model: decimal i128"))
    } else {
        Val::Big(arrow_buffer::i256::from_string(&s).expect("model: decimal i256"))
    }
}

fn gen_unscaled(rng: &mut Rng, p: u8) -> BigInt {
    let bound: BigInt = BigInt::from(10).pow(p as u32) - BigInt::from(1);
    let v = match rng.below(6) {
        0 => bound.clone(),
        1 => -bound.clone(),
        2 => {
            let x = BigInt::from(rng.range(-300, 300));
            if x > bound || x < -bound.clone() { BigInt::from(rng.range(-9, 9)) } else { x }
        }
        _ => {
            let digits = 1 + rng.below(p as usize);
            let mut s = String::new();
            for i in 0..digits {
                s.push((b'0' + if i == 0 { 1 + rng.below(9) } else { rng.below(10) } as u8) as char);
            }
            let b: BigInt = s.parse().unwrap();
            if rng.bool() { b } else { -b }
        }
    };
    v
}

/// A value of an Avro type for apache-avro's writer, and what arrow-avro should decode it to.
fn gen_aval(rng: &mut Rng, t: &ATy) -> (AV, Val) {
    let i32v = |rng: &mut Rng| gens::gen_int(rng, i32::MIN as i128, i32::MAX as i128);
    let i64v = |rng: &mut Rng| gens::gen_int(rng, i64::MIN as i128, i64::MAX as i128);
    match t {
        ATy::Null => (AV::Null, Val::Null),
        ATy::Bool => {
            let b = rng.bool();
            (AV::Boolean(b), Val::Bool(b))
        }
        ATy::Int => {
            let v = i32v(rng);
            (AV::Int(v as i32), Val::Int(v))
        }
        ATy::Long => {
            let v = i64v(rng);
            (AV::Long(v as i64), Val::Int(v))
        }
        ATy::Float => {
            let b = gens::gen_f32_bits(rng);
            (AV::Float(f32::from_bits(b)), Val::F32(b))
        }
        ATy::Double => {
            let b = gens::gen_f64_bits(rng);
            (AV::Double(f64::from_bits(b)), Val::F64(b))
        }
        ATy::Bytes => {
            let b = gens::gen_bytes(rng);
            (AV::Bytes(b.clone()), Val::Bytes(b))
        }
        ATy::Str => {
            let s = gens::gen_string(rng);
            (AV::String(s.clone()), Val::Str(s))
        }
        ATy::Fixed(_, n) => {
            let b = rng.bytes(*n);
            (AV::Fixed(*n, b.clone()), Val::Bytes(b))
        }
        ATy::Enum(_, syms) => {
            let i = rng.below(syms.len());
            (AV::Enum(i as u32, syms[i].clone()), Val::Str(syms[i].clone()))
        }
        ATy::Array(it) => {
            let n = *rng.pick(&[0usize, 0, 1, 2, 3, 7]);
            let (a, b): (Vec<AV>, Vec<Val>) = (0..n).map(|_| gen_aval(rng, it)).unzip();
            (AV::Array(a), Val::List(b))
        }
        ATy::Map(it) => {
            let n = *rng.pick(&[0usize, 0, 1, 2, 4]);
            let mut m = HashMap::new();
            let mut es = Vec::new();
            for i in 0..n {
                let mut k = gens::gen_string(rng);
                if m.contains_key(&k) {
                    k = format!("{k}#{i}");
                }
                let (a, b) = gen_aval(rng, it);
                m.insert(k.clone(), a);
                es.push(Val::Struct(vec![Val::Str(k), b]));
            }
            es.sort();
            (AV::Map(m), Val::List(es))
        }
        ATy::Record(_, fs) => {
            let mut a = Vec::new();
            let mut b = Vec::new();
            for (n, ft) in fs {
                let (x, y) = gen_aval(rng, ft);
                a.push((n.clone(), x));
                b.push(y);
            }
            (AV::Record(a), Val::Struct(b))
        }
        ATy::Union(bs) => {
            let i = rng.below(bs.len());
            let (x, y) = gen_aval(rng, &bs[i]);
            let nullable_pair = bs.len() == 2 && bs.iter().any(|b| matches!(b, ATy::Null));
            let single = bs.len() == 1;
            let exp = if nullable_pair || single { y } else { Val::Union(i as i8, Box::new(y)) };
            (AV::Union(i as u32, Box::new(x)), exp)
        }
        ATy::Date => {
            let v = i32v(rng);
            (AV::Date(v as i32), Val::Int(v))
        }
        ATy::TimeMillis => {
            let v = gens::gen_int(rng, 0, 86_399_999);
            (AV::TimeMillis(v as i32), Val::Int(v))
        }
        ATy::TimeMicros => {
            let v = gens::gen_int(rng, 0, 86_399_999_999);
            (AV::TimeMicros(v as i64), Val::Int(v))
        }
        ATy::TsMillis => {
            let v = i64v(rng);
            (AV::TimestampMillis(v as i64), Val::Int(v))
        }
        ATy::TsMicros => {
            let v = i64v(rng);
            (AV::TimestampMicros(v as i64), Val::Int(v))
        }
        ATy::TsNanos => {
            let v = i64v(rng);
            (AV::TimestampNanos(v as i64), Val::Int(v))
        }
        ATy::LocalTsMillis => {
            let v = i64v(rng);
            (AV::LocalTimestampMillis(v as i64), Val::Int(v))
        }
        ATy::LocalTsMicros => {
            let v = i64v(rng);
            (AV::LocalTimestampMicros(v as i64), Val::Int(v))
        }
        ATy::LocalTsNanos => {
            let v = i64v(rng);
            (AV::LocalTimestampNanos(v as i64), Val::Int(v))
        }
        ATy::DecimalBytes(p, _) => {
            let v = gen_unscaled(rng, *p);
            let mut bytes = v.to_signed_bytes_be();
            // sign-extended encodings are legal too
            if rng.chance(1, 4) {
                let fill = if v.sign() == num_bigint::Sign::Minus { 0xFF } else { 0 };
                for _ in 0..rng.below(3) {
                    bytes.insert(0, fill);
                }
            }
            (AV::Decimal(apache_avro::Decimal::from(bytes)), big_to_val(&v, *p))
        }
        ATy::DecimalFixed(_, p, _, size) => {
            let v = gen_unscaled(rng, *p);
            let raw = v.to_signed_bytes_be();
            let fill = if v.sign() == num_bigint::Sign::Minus { 0xFF } else { 0 };
            let mut bytes = vec![fill; size.saturating_sub(raw.len())];
            bytes.extend_from_slice(&raw);
            (AV::Decimal(apache_avro::Decimal::from(bytes)), big_to_val(&v, *p))
        }
        ATy::Uuid => {
            let b = rng.bytes(16);
            let mut a = [0u8; 16];
            a.copy_from_slice(&b);
            (AV::Uuid(apache_avro::Uuid::from_bytes(a)), Val::Bytes(b))
        }
        ATy::Duration(_) => {
            let m = gens::gen_int(rng, 0, i32::MAX as i128) as u32;
            let d = gens::gen_int(rng, 0, i32::MAX as i128) as u32;
            let ms = gens::gen_int(rng, 0, u32::MAX as i128) as u32;
            (
                AV::Duration(apache_avro::Duration::new(
                    apache_avro::Months::new(m),
                    apache_avro::Days::new(d),
                    apache_avro::Millis::new(ms),
                )),
                Val::IntervalMDN(m as i32, d as i32, ms as i64 * 1_000_000),
            )
        }
    }
}

fn aty_class(t: &ATy) -> String {
    match t {
        ATy::Fixed(_, _) => "fixed".into(),
        ATy::Enum(_, _) => "enum".into(),
        ATy::Array(i) => format!("array<{}>", aty_class(i)),
        ATy::Map(i) => format!("map<{}>", aty_class(i)),
        ATy::Record(_, fs) => format!("rec<{}>", fs.iter().map(|f| aty_class(&f.1)).collect::<Vec<_>>().join(",")),
        ATy::Union(bs) => format!("union<{}>", bs.iter().map(aty_class).collect::<Vec<_>>().join(",")),
        ATy::DecimalBytes(p, _) => format!("decB{}", if *p > 38 { 256 } else { 128 }),
        ATy::DecimalFixed(_, p, _, _) => format!("decF{}", if *p > 38 { 256 } else { 128 }),
        ATy::Duration(_) => "duration".into(),
        other => format!("{other:?}"),
    }
}

/// A foreign OCF: top-level record schema, rows, apache-avro codec.
pub struct ExtCase {
    pub fields: Vec<(String, ATy)>,
    pub schema_json: String,
    pub rows: Vec<AV>,
    pub cols: Vec<Vec<Val>>,
    pub codec: u8,
    pub batch_size: usize,
    pub utf8_view: bool,
    pub strict: bool,
    pub flush_every: usize,
}

pub fn gen_ext(rng: &mut Rng) -> ExtCase {
    let mut nm = Namer(0);
    let ncols = 1 + rng.below(4);
    let fields: Vec<(String, ATy)> = (0..ncols)
        .map(|i| {
            let depth = *rng.pick(&[0u32, 1, 1, 2, 3]);
            (format!("c{i}"), gen_aty(rng, &mut nm, depth, false))
        })
        .collect();
    let top = ATy::Record(nm.next(rng, "Top"), fields.clone());
    let schema_json = aty_json(&top).to_string();
    let n = *rng.pick(&[0usize, 1, 2, 3, 7, 16, 33]);
    let mut rows = Vec::new();
    let mut cols: Vec<Vec<Val>> = vec![Vec::new(); ncols];
    for _ in 0..n {
        let mut rec = Vec::new();
        for (i, (name, t)) in fields.iter().enumerate() {
            let (a, b) = gen_aval(rng, t);
            rec.push((name.clone(), a));
            cols[i].push(b);
        }
        rows.push(AV::Record(rec));
    }
    ExtCase {
        fields,
        schema_json,
        rows,
        cols,
        codec: rng.below(6) as u8,
        batch_size: *rng.pick(&[1usize, 2, 5, 1024]),
        utf8_view: rng.chance(1, 4),
        strict: rng.chance(1, 4),
        flush_every: *rng.pick(&[1usize, 3, 1000]),
    }
}

/// Serialize with apache-avro's OCF writer.
pub fn write_ext(c: &ExtCase) -> Result<Vec<u8>, String> {
    let schema = apache_avro::Schema::parse_str(&c.schema_json).map_err(|e| format!("schema: {e}"))?;
    let codec = match c.codec {
        0 => apache_avro::Codec::Null,
        1 => apache_avro::Codec::Deflate(Default::default()),
        2 => apache_avro::Codec::Snappy,
        3 => apache_avro::Codec::Zstandard(Default::default()),
        4 => apache_avro::Codec::Bzip2(Default::default()),
        _ => apache_avro::Codec::Xz(Default::default()),
    };
    let mut w = apache_avro::Writer::with_codec(&schema, Vec::new(), codec).map_err(|e| format!("writer: {e}"))?;
    for (i, r) in c.rows.iter().enumerate() {
        w.append_value_ref(r).map_err(|e| format!("append: {e}"))?;
        if (i + 1) % c.flush_every == 0 {
            w.flush().map_err(|e| format!("flush: {e}"))?;
        }
    }
    w.into_inner().map_err(|e| format!("finish: {e}"))
}

pub fn run_ext(ctx: &mut Ctx, k: u64) {
    let total = ctx.tier.pick(48, 12_000, 300_000);
    for i in chunk_cases(ctx, "avro-ext", total, k) {
        if ctx.out_of_time() {
            break;
        }
        let mut rng = ctx.begin("avro-ext", i);
        let c = match vcore::guard(|| gen_ext(&mut rng)) {
            Ok(c) => c,
            Err(p) => {
                ctx.inconclusive(&format!("generator: {} @ {}", p.msg, p.loc));
                continue;
            }
        };
        let bytes = match vcore::guard(|| write_ext(&c)) {
            Ok(Ok(b)) => b,
            Ok(Err(e)) => {
                ctx.inconclusive(&format!("apache-avro refused the generated file: {}", norm_msg(&e)));
                if ctx.verbose {
                    eprintln!("apache-avro: {e}\nschema {}", c.schema_json);
                }
                continue;
            }
            Err(p) => {
                ctx.inconclusive(&format!("apache-avro panicked: {}", norm_msg(&p.msg)));
                continue;
            }
        };
        let detail = |extra: String| {
            let mut s = format!(
                "codec {} batch_size {} utf8_view {} strict {}\nschema {}\n",
                c.codec, c.batch_size, c.utf8_view, c.strict, c.schema_json
            );
            for ((n, _), col) in c.fields.iter().zip(&c.cols) {
                s.push_str(&format!("  {n}: {}\n", vcore::val::dump_vals(col)));
            }
            s.push_str(&format!("bytes {}\n{extra}", hex_head(&bytes)));
            s
        };
        let b2 = bytes.clone();
        let (bs, uv, st) = (c.batch_size, c.utf8_view, c.strict);
        let read = with_watchdog(20, move || -> Result<Vec<RecordBatch>, String> {
            let r = ReaderBuilder::new()
                .with_batch_size(bs)
                .with_utf8_view(uv)
                .with_strict_mode(st)
                .build(Cursor::new(b2))
                .map_err(|e| e.to_string())?;
            let mut out = Vec::new();
            for b in r {
                out.push(b.map_err(|e| e.to_string())?);
            }
            Ok(out)
        });
        let classes = c.fields.iter().map(|f| aty_class(&f.1)).collect::<Vec<_>>().join(",");
        let Some(read) = read else {
            ctx.inconclusive("arrow-avro reader did not return within 20 s on an apache-avro file");
            ctx.count("avro.read_timeout", 1);
            continue;
        };
        let batches = match read {
            Err(p) => {
                if p.is_rejection() {
                    ctx.reject();
                    continue;
                }
                ctx.eval();
                ctx.violation(
                    &format!("C17|avro|read|panic|{}|{}", p.file(), err_family(&p.msg)),
                    detail(format!("reader panic: {} @ {}", p.msg, p.loc)),
                );
                continue;
            }
            Ok(Err(e)) => {
                if is_rejection_msg(&e) || (c.strict && e.contains("strict")) {
                    ctx.reject();
                    ctx.count("avro.ext_unsupported", 1);
                    continue;
                }
                ctx.eval();
                ctx.violation(&format!("C17|avro|read|err|{}", err_family(&e)), detail(format!("reader error: {e}")));
                continue;
            }
            Ok(Ok(b)) => b,
        };
        ctx.eval();
        let mut bad = false;
        for b in &batches {
            if let Err(e) = check_batch(b) {
                ctx.violation(&format!("C17|avro|read|invalid-batch|{}", err_family(&e)), detail(e));
                bad = true;
                break;
            }
            if b.num_rows() > c.batch_size {
                ctx.violation("C17|avro|read|batch-size", detail(format!("batch of {} rows", b.num_rows())));
                bad = true;
                break;
            }
        }
        if bad {
            continue;
        }
        let got = extract_batches(&batches, c.cols.len());
        let out_schema = batches.first().map(|b| b.schema());
        let mut exp_cols = c.cols.clone();
        selftest_mutate("avro-ext", &mut exp_cols);
        for (ci, (e, g)) in exp_cols.iter().zip(&got).enumerate() {
            let Some(s) = &out_schema else {
                if !e.is_empty() {
                    ctx.violation("C17|avro|decode|row-count", detail(format!("no rows decoded, {} written", e.len())));
                    bad = true;
                }
                break;
            };
            let out_dt = s.field(ci).data_type().clone();
            let g: Vec<Val> = g.iter().map(|v| norm_read(&out_dt, v, true)).collect();
            let e: Vec<Val> = e.iter().map(|v| norm_read(&out_dt, &adapt_uuid(&out_dt, v), true)).collect();
            let e = &e;
            if let Some((row, leaf, kind)) = diff_col(&out_dt, e, &g) {
                ctx.violation(
                    &format!("C17|avro|decode|{kind}|{leaf}"),
                    detail(format!(
                        "column {ci} ({:?} read as {out_dt}) row {row}: written {:?}, arrow-avro returned {:?}",
                        c.fields[ci].1,
                        e.get(row),
                        g.get(row)
                    )),
                );
                bad = true;
                break;
            }
        }
        if !bad && !c.rows.is_empty() {
            ctx.class(format!("avro-ext|{classes}|codec{}", c.codec));
            ctx.count("avro.ext_rows", c.rows.len() as u64);
            ctx.sample(|| format!("avro-ext {}", c.schema_json));
        }
    }
}

