//! Deterministic PRNG (SplitMix64 seeding + xoshiro256**), no external crates so
//! that replays are stable across `rand` versions and the code runs under Miri.

#[derive(Clone, Debug)]
pub struct Rng {
    s: [u64; 4],
}

pub fn splitmix(x: &mut u64) -> u64 {
    *x = x.wrapping_add(0x9E37_79B9_7F4A_7C15);
    let mut z = *x;
    z = (z ^ (z >> 30)).wrapping_mul(0xBF58_476D_1CE4_E5B9);
    z = (z ^ (z >> 27)).wrapping_mul(0x94D0_49BB_1331_11EB);
    z ^ (z >> 31)
}

/// FNV-1a style string hash used to derive per-property / per-shard seeds.
pub fn hash_str(s: &str) -> u64 {
    let mut h: u64 = 0xcbf2_9ce4_8422_2325;
    for b in s.bytes() {
        h ^= b as u64;
        h = h.wrapping_mul(0x0000_0100_0000_01B3);
    }
    h
}

pub fn mix(a: u64, b: u64) -> u64 {
    let mut x = a ^ b.rotate_left(32) ^ 0xD6E8_FEB8_6659_FD93;
    splitmix(&mut x)
}

impl Rng {
    pub fn new(seed: u64) -> Self {
        let mut x = seed;
        let s = [
            splitmix(&mut x),
            splitmix(&mut x),
            splitmix(&mut x),
            splitmix(&mut x),
        ];
        Rng { s }
    }

    /// Independent child generator (does not disturb `self` more than one draw).
    pub fn fork(&mut self) -> Rng {
        Rng::new(self.u64())
    }

    #[inline]
    pub fn u64(&mut self) -> u64 {
        let r = self.s[1].wrapping_mul(5).rotate_left(7).wrapping_mul(9);
        let t = self.s[1] << 17;
        self.s[2] ^= self.s[0];
        self.s[3] ^= self.s[1];
        self.s[1] ^= self.s[2];
        self.s[0] ^= self.s[3];
        self.s[2] ^= t;
        self.s[3] = self.s[3].rotate_left(45);
        r
    }
    #[inline]
    pub fn u32(&mut self) -> u32 {
        (self.u64() >> 32) as u32
    }
    #[inline]
    pub fn u8(&mut self) -> u8 {
        (self.u64() >> 56) as u8
    }
    pub fn u128(&mut self) -> u128 {
        ((self.u64() as u128) << 64) | self.u64() as u128
    }
    /// Uniform in `[0, n)`; `n == 0` returns 0.
    #[inline]
    pub fn below(&mut self, n: usize) -> usize {
        if n == 0 {
            return 0;
        }
        (self.u64() % n as u64) as usize
    }
    /// Uniform in `[lo, hi]` (inclusive).
    #[inline]
    pub fn range(&mut self, lo: i64, hi: i64) -> i64 {
        debug_assert!(lo <= hi);
        let span = (hi as i128 - lo as i128 + 1) as u128;
        (lo as i128 + (self.u128() % span) as i128) as i64
    }
    #[inline]
    pub fn usize_in(&mut self, lo: usize, hi: usize) -> usize {
        lo + self.below(hi - lo + 1)
    }
    #[inline]
    pub fn bool(&mut self) -> bool {
        self.u64() & 1 == 1
    }
    /// true with probability `num/den`
    #[inline]
    pub fn chance(&mut self, num: u32, den: u32) -> bool {
        (self.u64() % den as u64) < num as u64
    }
    pub fn f64_unit(&mut self) -> f64 {
        (self.u64() >> 11) as f64 / (1u64 << 53) as f64
    }
    pub fn pick<'a, T>(&mut self, xs: &'a [T]) -> &'a T {
        &xs[self.below(xs.len())]
    }
    pub fn shuffle<T>(&mut self, xs: &mut [T]) {
        for i in (1..xs.len()).rev() {
            let j = self.below(i + 1);
            xs.swap(i, j);
        }
    }
    pub fn fill(&mut self, bytes: &mut [u8]) {
        for c in bytes.chunks_mut(8) {
            let v = self.u64().to_le_bytes();
            c.copy_from_slice(&v[..c.len()]);
        }
    }
    pub fn bytes(&mut self, n: usize) -> Vec<u8> {
        let mut v = vec![0u8; n];
        self.fill(&mut v);
        v
    }
    /// A length biased to the boundaries the code special-cases.
    pub fn len_biased(&mut self, max: usize) -> usize {
        const EDGES: [usize; 22] = [
            0, 1, 2, 3, 7, 8, 9, 15, 16, 17, 31, 32, 33, 63, 64, 65, 127, 128, 129, 255, 256, 257,
        ];
        let v = if self.chance(1, 2) {
            *self.pick(&EDGES)
        } else {
            self.below(max + 1)
        };
        v.min(max)
    }
}
