//! C16: shared buffers are immutable and their memory is released exactly once.
//!
//! Oracle = observation of real arrow-rs executions:
//!  * content snapshots of every live handle after every operation (seq:
//!    all handles; par: the handles of the executing thread, all at the join);
//!  * harness-owned custom regions (`Buffer::from_custom_allocation`,
//!    `bytes::Bytes::from_owner`) whose owner counts its releases and
//!    scribbles 0xDD; derivation of handles from regions is computed from the
//!    addresses visible through the handle (never from a model of arrow-rs);
//!  * wrapped C-Data-Interface release callbacks (array, schema, stream,
//!    children and dictionaries included);
//!  * a recording `MemoryPool`;
//!  * one global atomic sequence number per monitored event; the offline
//!    checker orders owner / FFI releases against handle births and deaths.
//!
//! Sections: `scen` (scripted canonical histories: make the set of findings
//! independent of the seed), `seq` (random single-thread histories, quiescent
//! after every step), `par` (1-4 threads on shared clones, handles moved
//! between threads), `parscen` (scripted multi-thread history).
//!
//! not asserted: whether an in-place operation succeeds or declines; whether
//! a successful one reuses the allocation or copies; which of len/capacity the
//! reservation of a *mutable* buffer tracks; the data type carried by the
//! result of `into_builder`/`unary_mut` (only values and validity are
//! compared); content of a *successful* `StringArray::into_builder` on an
//! array whose first offset is not 0 (unique arrays of that shape are never
//! generated; the declining path is, and must hand back a valid array);
//! validity of imported *empty* (sub)arrays (counted as an observation);
//! `ArrayData::slice` (+ `make_array`) on struct data (`Array::slice` is used);
//! promptness of a release (only "not before the last derived handle died"
//! and "exactly once by quiescence").
//!
//! Oracle self-tests: env `C16_SANITY=1..5` makes the *harness* misbehave
//! (write into shared memory, release an owner early, wrong import
//! expectation, forget a schema, wrong claim expectation).

use super::c16_h::*;
use super::c16_ops::*;
use super::c16_sup::*;
use crate::mon::Ctx;
use crate::rng::Rng;
use arrow_array::Array;
use std::collections::{BTreeMap, BTreeSet, HashSet};
use std::sync::{Arc, Barrier, mpsc};

pub struct CaseOut {
    pub faults: Vec<Fault>,
    /// outstanding pool reservations at quiescence (detail text)
    pub leak: Option<String>,
    pub classes: BTreeSet<String>,
    pub rejections: u64,
    pub ops: Vec<(&'static str, &'static str)>,
    pub inconclusive: Vec<String>,
    pub trace: Vec<String>,
    pub events: u64,
    pub handles: u64,
    pub regions: u64,
    pub ffi_structs: u64,
    pub reservations: u64,
    pub order: Vec<u8>,
    pub obs_invalid_empty: u64,
}

/// Offline checker over the event log at quiescence (no handle is alive).
fn offline(sh: &Arc<Shared>, par: bool) -> (Vec<Fault>, Option<String>) {
    let mut faults: Vec<Fault> = Vec::new();
    let ev = lock(&sh.ev);
    let mut birth: BTreeMap<u32, (u64, &'static str, &Vec<u32>, &Vec<u32>)> = BTreeMap::new();
    let mut death: BTreeMap<u32, u64> = BTreeMap::new();
    for e in ev.iter() {
        match e {
            Ev::Birth { h, seq, kind, roots, imports } => {
                birth.insert(*h, (*seq, *kind, roots, imports));
            }
            Ev::Death { h, seq } => {
                death.insert(*h, *seq);
            }
            _ => {}
        }
    }
    let alive_at = |h: u32, b: u64, s: u64| -> bool { b < s && death.get(&h).map_or(true, |d| s < *d) };
    // (ii) an owner is not released while a handle derived from its region is alive
    for e in ev.iter() {
        if let Ev::OwnerRel { rid, seq, oc } = e {
            for (h, (b, kind, roots, _)) in birth.iter() {
                if roots.contains(rid) && alive_at(*h, *b, *seq) {
                    let oc = if par { "par" } else { *oc };
                    let holders: Vec<String> = birth
                        .iter()
                        .filter(|(_, (_, _, r, _))| r.contains(rid))
                        .map(|(h, (b, k, _, _))| format!("#{h} {k} [{b}..{:?}]", death.get(h)))
                        .collect();
                    faults.push(Fault {
                        sig: format!("C16|owner|premature-release|{oc}"),
                        detail: format!(
                            "owner of region #{rid} was released (event {seq}) while handle #{h} ({kind}, born {b}, died {:?}) derived from it was alive\nall handles derived from the region: {}",
                            death.get(h),
                            holders.join(", ")
                        ),
                    });
                    break;
                }
            }
        }
    }
    // (ii) exactly once
    {
        let regs = lock(&sh.regions);
        for (i, r) in regs.iter().enumerate() {
            if r.releases == 0 {
                faults.push(Fault {
                    sig: format!("C16|owner|{}|never-released", r.kind),
                    detail: format!("owner of {} region #{i} ({} bytes) was never released although no handle is alive", r.kind, r.len),
                });
            } else if r.releases > 1 {
                faults.push(Fault {
                    sig: format!("C16|owner|{}|released-more-than-once", r.kind),
                    detail: format!("owner of {} region #{i} was released {} times", r.kind, r.releases),
                });
            }
        }
    }
    // (iii) FFI release callbacks
    {
        let recs = lock(&sh.ffi);
        for (sid, r) in recs.iter().enumerate() {
            if r.releases == 0 {
                faults.push(Fault {
                    sig: format!("C16|ffi|{}|{}|never-released", r.kind, r.role),
                    detail: format!("release callback of exported {} struct #{sid} ({}) never ran", r.kind, r.role),
                });
            } else if r.releases > 1 {
                faults.push(Fault {
                    sig: format!("C16|ffi|{}|{}|released-more-than-once", r.kind, r.role),
                    detail: format!("release callback of exported {} struct #{sid} ({}) ran {} times", r.kind, r.role, r.releases),
                });
            }
            if r.unmarked {
                faults.push(Fault {
                    sig: format!("C16|ffi|{}|{}|release-did-not-mark-released", r.kind, r.role),
                    detail: format!("release callback of {} struct #{sid} returned with release != NULL", r.kind),
                });
            }
            if r.kind == "array" && r.role == "top" && r.releases > 0 {
                for (h, (b, kind, _, imports)) in birth.iter() {
                    if imports.contains(&(sid as u32)) && alive_at(*h, *b, r.rel_seq) {
                        faults.push(Fault {
                            sig: "C16|ffi|array|premature-release".to_string(),
                            detail: format!(
                                "exported array struct #{sid} was released (event {}) while imported handle #{h} ({kind}) was alive",
                                r.rel_seq
                            ),
                        });
                        break;
                    }
                }
            }
        }
    }
    // (iv) pool at quiescence
    let mut leak = None;
    {
        let res = sh.pool.snapshot();
        let out: Vec<(usize, usize)> = res.iter().enumerate().filter(|(_, r)| r.dropped == 0).map(|(i, r)| (i, r.size)).collect();
        for (i, r) in res.iter().enumerate() {
            if r.dropped > 1 {
                faults.push(Fault {
                    sig: "C16|pool|reservation-dropped-more-than-once".to_string(),
                    detail: format!("reservation #{i} dropped {} times", r.dropped),
                });
            }
        }
        let used = arrow_buffer::MemoryPool::used(&sh.pool);
        if !out.is_empty() || used != 0 {
            leak = Some(format!(
                "no handle is alive but pool.used() = {used}; reservations never dropped (id, bytes): {:?} of {} created",
                out,
                res.len()
            ));
        }
    }
    (faults, leak)
}

fn finish_case(sh: &Arc<Shared>, worlds: Vec<&World>, par: bool, ops: Vec<(&'static str, &'static str)>) -> CaseOut {
    let early: Vec<Owner> = std::mem::take(&mut *lock(&sh.stash));
    drop(early);
    let mut faults: Vec<Fault> = std::mem::take(&mut *lock(&sh.faults));
    let inconclusive = std::mem::take(&mut *lock(&sh.inconclusive));
    let (f2, leak) = if inconclusive.is_empty() { offline(sh, par) } else { (Vec::new(), None) };
    faults.extend(f2);
    let mut classes = BTreeSet::new();
    let mut rejections = 0;
    let mut trace = Vec::new();
    for w in worlds {
        classes.extend(w.classes.iter().cloned());
        rejections += w.rejections;
        trace.extend(w.trace.iter().cloned());
    }
    let mut order: Vec<(u64, u8)> = Vec::new();
    let (mut nev, mut nh) = (0u64, 0u64);
    for e in lock(&sh.ev).iter() {
        nev += 1;
        match e {
            Ev::Op { t, seq } => order.push((*seq, *t)),
            Ev::Birth { .. } => nh += 1,
            _ => {}
        }
    }
    order.sort_unstable();
    let out = CaseOut {
        faults,
        leak,
        classes,
        rejections,
        ops,
        inconclusive,
        trace,
        events: nev + sh.pool.events(),
        handles: nh,
        regions: lock(&sh.regions).len() as u64,
        ffi_structs: lock(&sh.ffi).len() as u64,
        reservations: sh.pool.count() as u64,
        order: order.into_iter().map(|(_, t)| t).collect(),
        obs_invalid_empty: *lock(&sh.obs_invalid_empty),
    };
    sh.free_regions();
    out
}

fn region_check(w: &World, class: &'static str) {
    if let Some(msg) = w.sh.check_regions() {
        w.fault(format!("C16|immutable|{class}|custom-region|bytes-changed"), msg);
    }
}

/// One single-thread history: `script` or `nops` random operations, cut after
/// `limit` steps, then every remaining handle is dropped in random order.
/// Pure function of its arguments (this is what makes bisecting possible).
pub fn run_history(seed: u64, script: Option<&[Op]>, nops: usize, limit: usize, small: bool) -> CaseOut {
    let sh = Shared::new();
    let mut w = World::new(sh.clone(), 0, Rng::new(seed), false, small);
    let total = script.map(|s| s.len()).unwrap_or(nops);
    let mut ops = Vec::new();
    for step in 0..total.min(limit) {
        let op = match script {
            Some(s) => s[step].clone(),
            None => w.choose(1),
        };
        ops.push((op.name(), op.class()));
        let class = op.class();
        w.exec(op);
        region_check(&w, class);
    }
    let mut dr = Rng::new(seed ^ 0x0D50_B0D5);
    while !w.slots.is_empty() {
        let i = dr.below(w.slots.len());
        w.exec(Op::Drop(i));
        region_check(&w, "drop");
    }
    set_cur(0, "idle", 0);
    finish_case(&sh, vec![&w], false, ops)
}

/// Attribute a pool leak to the first operation whose prefix leaks.
fn bisect_leak(seed: u64, script: Option<&[Op]>, nops: usize, small: bool, full: &CaseOut) -> (String, String) {
    let n = full.ops.len();
    let (mut lo, mut hi) = (0usize, n); // prefix(lo) clean, prefix(hi) leaks
    while hi - lo > 1 {
        let mid = (lo + hi) / 2;
        if run_history(seed, script, nops, mid, small).leak.is_some() {
            hi = mid;
        } else {
            lo = mid;
        }
    }
    let (name, class) = full.ops.get(hi.saturating_sub(1)).copied().unwrap_or(("?", "?"));
    (
        format!("C16|pool|reservation-leak|{class}"),
        format!(
            "{}\nfirst leaking prefix ends with step {} = `{name}` (the history cut before it is clean)",
            full.leak.clone().unwrap_or_default(),
            hi
        ),
    )
}

fn report(ctx: &mut Ctx, out: CaseOut, extra: Vec<Fault>, label: &str) {
    if !out.inconclusive.is_empty() {
        ctx.inconclusive(&out.inconclusive.join("; "));
        return;
    }
    ctx.eval();
    for c in &out.classes {
        ctx.class(c.clone());
    }
    for _ in 0..out.rejections {
        ctx.reject();
    }
    ctx.count("events", out.events);
    ctx.count("handles", out.handles);
    ctx.count("custom_regions", out.regions);
    ctx.count("ffi_structs_wrapped", out.ffi_structs);
    ctx.count("pool_reservations", out.reservations);
    ctx.count("ops", out.ops.len() as u64);
    ctx.count("obs_empty_import_fails_validate_full", out.obs_invalid_empty);
    let tr = out.trace.join("\n  ");
    ctx.sample(|| format!("{label}:\n  {tr}"));
    let mut seen = BTreeSet::new();
    for f in out.faults.into_iter().chain(extra) {
        if seen.insert(f.sig.clone()) {
            ctx.violation(&f.sig, format!("{label}\n{}\nfull history:\n  {tr}", f.detail));
        }
    }
}

// ---------------------------------------------------------------------------
// scripted scenarios
// ---------------------------------------------------------------------------

/// first seed >= 1 for which `create(kind, seed)` yields a handle accepted by `pred`
fn find_seed(kind: u8, pred: &dyn Fn(&H) -> bool) -> u64 {
    for seed in 1..4000u64 {
        let sh = Shared::new();
        let hs = create(&sh, kind, seed, false);
        let ok = hs.len() == 1 && pred(&hs[0]);
        drop(hs);
        sh.free_regions();
        if ok {
            return seed;
        }
    }
    panic!("model: no seed found for create kind {kind}");
}

fn nonempty(h: &H) -> bool {
    views(h).first().map_or(false, |(_, l)| *l >= 8)
}

pub fn scenarios() -> Vec<(&'static str, Vec<Op>)> {
    use Op::*;
    let i32arr = |h: &H| matches!(h, H::Prim(P::I32(a)) if a.len() >= 3);
    let s_vec = find_seed(2, &nonempty);
    let s_prim = find_seed(18, &i32arr);
    let s_prim2 = (s_prim + 1..4000).find(|s| {
        let sh = Shared::new();
        let hs = create(&sh, 18, *s, false);
        i32arr(&hs[0])
    });
    let s_prim2 = s_prim2.unwrap_or(s_prim);
    let s_str = find_seed(14, &|h| matches!(h, H::Str(a) if a.len() >= 3));
    let s_str1 = find_seed(14, &|h| matches!(h, H::Str(a) if a.len() >= 3 && a.value_offsets()[1] > 0 && a.value_offsets()[2] > a.value_offsets()[1]));
    let s_std = find_seed(0, &nonempty);
    let s_custom = find_seed(5, &|h| matches!(h, H::Buf(b) if b.len() >= 16 && b.as_ptr() as usize % 8 == 0));
    let s_data = find_seed(17, &|h| matches!(h, H::Data(d) if d.len() >= 3));
    let s_bits = find_seed(19, &|h| matches!(h, H::Bits(b) if b.len() >= 9));
    let s_bits2 = find_seed(19, &|h| matches!(h, H::Bits(b) if b.len() >= 20));
    let s_mut = find_seed(9, &nonempty);
    let s_v8 = find_seed(1, &nonempty);
    let s_bool = find_seed(12, &|h| matches!(h, H::Bool(a) if a.len() >= 9));
    vec![
        ("custom;wrap;export;import", vec![Create(5, s_custom), WrapPrim(0, 2, None), Export(1, false), Drop(0), Drop(0), Import(0), Claim(0), Slice(0, 1, 2), Drop(0), Drop(0)]),
        ("claim;unary_mut", vec![Create(18, s_prim), Claim(0), UnaryMut(0, 0), Drop(0)]),
        ("claim;try_unary_mut", vec![Create(18, s_prim), Claim(0), UnaryMut(0, 1), Drop(0)]),
        ("claim;try_unary_mut(err)", vec![Create(18, s_prim), Claim(0), UnaryMut(0, 2)]),
        ("claim;binary_mut", vec![Create(18, s_prim), Create(18, s_prim2), Claim(0), BinaryMut(0, 1), Drop(0), Drop(0)]),
        ("claim;into_builder;finish", vec![Create(18, s_prim), Claim(0), IntoBuilder(0), BldWrite(0, 7), BldAppend(0, 5), Finish(0), Drop(0)]),
        ("str claim;into_builder;finish", vec![Create(14, s_str), Claim(0), IntoBuilder(0), BldAppend(0, 3), Finish(0), Drop(0)]),
        ("claim;into_mutable;freeze", vec![Create(0, s_std), Claim(0), IntoMutable(0), MutWrite(0, 3), Freeze(0), Drop(0)]),
        ("clone;claim;drop;into_mutable", vec![Create(0, s_std), Clone(0), Claim(0), IntoMutable(1), Drop(0), IntoMutable(0), MutWrite(0, 9), Drop(0)]),
        ("claim;into_vec", vec![Create(2, s_vec), Claim(0), IntoVec(0, 1), Drop(0)]),
        ("data-custom;export(move);import", vec![Create(17, s_data), Export(0, true), Drop(0), Import(0), Slice(0, 1, 2), Drop(0), Drop(0)]),
        ("bits claim;&=", vec![Create(19, s_bits), Create(19, s_bits2), Claim(0), BitAssign(0, 1, 0), Claim(1), BitAssign(1, 0, 2), Drop(0), Drop(0)]),
        ("mutable claim;grow;truncate;shrink;freeze;shrink", vec![Create(9, s_mut), Claim(0), MutGrow(0, 100), MutTrunc(0, 3), Shrink(0), Freeze(0), Claim(0), Shrink(0), Drop(0)]),
        ("claim;into bytes::Bytes;back;into_vec", vec![Create(1, s_v8), Claim(0), ToExt(0), ExtToBuf(0), IntoVec(0, 0), Drop(0)]),
        ("vec;wrap;drop buffer;claim;unary_mut", vec![Create(2, s_vec), WrapPrim(0, 0, None), Drop(0), Claim(0), UnaryMut(0, 0), Drop(0)]),
        ("bool claim;bitwise_unary_mut", vec![Create(12, s_bool), Claim(0), BoolUnary(0, false), TakeN(0, 2), Drop(0)]),
        ("stream export;open;next*", vec![Create(17, s_data), StreamExport(0, 1), Drop(0), StreamOpen(0), ReaderNext(0), ReaderNext(0), ReaderNext(0)]),
        ("claim;shrink_to_fit", vec![Create(0, s_std), Slice(0, 0, 5), Drop(0), Claim(0), Shrink(0), Drop(0)]),
        ("str slice;drop;into_builder(declines);shrink;export;import", vec![Create(14, s_str1), Slice(0, 1, 1), Drop(0), IntoBuilder(0), Shrink(0), Export(0, false), Import(1), Drop(0), Drop(0)]),
        ("mutable truncate(0);claim;shrink_to_fit", vec![Create(9, s_mut), MutTrunc(0, 0), Claim(0), Shrink(0), Drop(0)]),
    ]
}

fn run_scen(ctx: &mut Ctx) {
    let sc = scenarios();
    for i in ctx.cases("scen", sc.len() as u64) {
        if ctx.out_of_time() {
            break;
        }
        let _ = ctx.begin("scen", i);
        let (label, script) = &sc[i as usize % sc.len()];
        let seed = 0xC16_0000 + i;
        let out = run_history(seed, Some(script), 0, usize::MAX, false);
        let mut extra = Vec::new();
        if out.leak.is_some() && out.inconclusive.is_empty() {
            let (sig, detail) = bisect_leak(seed, Some(script), 0, false, &out);
            extra.push(Fault { sig, detail });
        }
        report(ctx, out, extra, &format!("scenario `{label}`"));
    }
}

fn run_seq(ctx: &mut Ctx) {
    let total = ctx.tier.pick(32, 24_000, 800_000);
    let small = ctx.tier.pick(true, false, false);
    for i in ctx.cases("seq", total) {
        if ctx.out_of_time() {
            break;
        }
        let mut rng = ctx.begin("seq", i);
        let seed = rng.u64();
        let nops = if small { rng.usize_in(5, 14) } else { rng.usize_in(5, 60) };
        let out = run_history(seed, None, nops, usize::MAX, small);
        let mut extra = Vec::new();
        if out.leak.is_some() && out.inconclusive.is_empty() {
            let (sig, detail) = bisect_leak(seed, None, nops, small, &out);
            extra.push(Fault { sig, detail });
        }
        report(ctx, out, extra, &format!("seq history seed={seed:#x} nops={nops}"));
    }
}

// ---------------------------------------------------------------------------
// multi-thread histories
// ---------------------------------------------------------------------------

fn jitter(rng: &mut Rng) {
    match rng.below(8) {
        0 | 1 => std::thread::yield_now(),
        2 => {
            for _ in 0..rng.below(200) {
                std::hint::spin_loop();
            }
        }
        _ => {}
    }
}

pub fn run_par_case(seed: u64, small: bool, scripts: Option<&Vec<Vec<Op>>>) -> CaseOut {
    let sh = Shared::new();
    let mut rng = Rng::new(seed);
    let nthreads: usize = match scripts {
        Some(s) => s.len(),
        None => {
            if small { 2 } else { rng.usize_in(1, 4) }
        }
    };
    let main_tid = nthreads as u8;
    let mut main = World::new(sh.clone(), main_tid, rng.fork(), true, small);
    set_cur(main_tid, "create", 0);
    let mut txs = Vec::new();
    let mut rxs = Vec::new();
    for _ in 0..nthreads {
        let (tx, rx) = mpsc::channel::<Slot>();
        txs.push(tx);
        rxs.push(rx);
    }
    let mut worlds: Vec<World> = Vec::new();
    for (t, rx) in rxs.into_iter().enumerate() {
        let mut w = World::new(sh.clone(), t as u8, rng.fork(), true, small);
        w.peers = txs.clone();
        w.inbox = Some(rx);
        worlds.push(w);
    }
    drop(txs);
    let mut ops_log: Vec<(&'static str, &'static str)> = Vec::new();
    if scripts.is_none() {
        // prelude: shared base handles, clones of them go to several threads
        let k = if small { 2 } else { rng.usize_in(2, 5) };
        for _ in 0..k {
            main.exec(Op::Create(rng.below(N_CREATE as usize) as u8, rng.u64()));
        }
        let base = main.slots.len();
        for i in 0..base {
            for _ in 0..nthreads {
                if rng.chance(1, 2) {
                    main.exec(Op::Clone(i));
                }
            }
        }
        while let Some(s) = main.slots.pop() {
            let t = rng.below(nthreads);
            worlds[t].slots.push(s);
        }
    }
    let nops: Vec<usize> = (0..nthreads)
        .map(|t| match scripts {
            Some(s) => s[t].len(),
            None => {
                if small { rng.usize_in(4, 8) } else { rng.usize_in(5, 25) }
            }
        })
        .collect();
    let barrier = Barrier::new(nthreads);
    let joined: Vec<Result<World, ()>> = std::thread::scope(|sc| {
        let hs: Vec<_> = worlds
            .into_iter()
            .enumerate()
            .map(|(t, mut w)| {
                let barrier = &barrier;
                let n = nops[t];
                let script: Option<Vec<Op>> = scripts.map(|s| s[t].clone());
                sc.spawn(move || {
                    set_cur(w.tid, "idle", 0);
                    barrier.wait();
                    let mut jr = w.rng.fork();
                    for step in 0..n {
                        jitter(&mut jr);
                        if let Some(rx) = &w.inbox {
                            while let Ok(s) = rx.try_recv() {
                                w.slots.push(s);
                            }
                        }
                        let op = match &script {
                            Some(s) => s[step].clone(),
                            None => w.choose(nthreads as u8),
                        };
                        w.exec(op);
                    }
                    // some threads drop what they hold themselves, in random order
                    if script.is_none() && jr.chance(1, 2) {
                        while !w.slots.is_empty() {
                            let i = jr.below(w.slots.len());
                            jitter(&mut jr);
                            w.exec(Op::Drop(i));
                        }
                    }
                    set_cur(w.tid, "idle", 0);
                    w
                })
            })
            .collect();
        hs.into_iter().map(|h| h.join().map_err(|_| ())).collect()
    });
    let mut done: Vec<World> = Vec::new();
    for j in joined {
        match j {
            Ok(w) => done.push(w),
            Err(()) => sh.inconclusive("model: worker thread panicked outside an operation".to_string()),
        }
    }
    // quiescent point: collect every surviving handle (also those in flight)
    set_cur(main_tid, "check", 0);
    for w in done.iter_mut() {
        ops_log.extend(std::iter::repeat_n(("par-op", "par"), w.ops_done as usize));
        while let Some(s) = w.slots.pop() {
            main.slots.push(s);
        }
        if let Some(rx) = w.inbox.take() {
            // all senders of finished worlds still exist inside `done`; drain without blocking
            while let Ok(s) = rx.try_recv() {
                main.slots.push(s);
            }
        }
    }
    main.check_snapshots("join", "par");
    region_check(&main, "par");
    let mut dr = rng.fork();
    while !main.slots.is_empty() {
        let i = dr.below(main.slots.len());
        main.exec(Op::Drop(i));
        region_check(&main, "par");
    }
    set_cur(0, "idle", 0);
    let mut ws: Vec<&World> = done.iter().collect();
    ws.push(&main);
    finish_case(&sh, ws, true, ops_log)
}

#[derive(Default)]
struct Orders {
    global: HashSet<u64>,
    multi: u64,
    cases: u64,
    threads: [u64; 5],
}

fn order_hash(o: &[u8]) -> u64 {
    let mut h: u64 = 0xcbf2_9ce4_8422_2325;
    for b in o {
        h ^= *b as u64 + 1;
        h = h.wrapping_mul(0x0000_0100_0000_01B3);
    }
    h ^ (o.len() as u64) << 48
}

fn par_leak_fault(out: &CaseOut) -> Vec<Fault> {
    match (&out.leak, out.inconclusive.is_empty()) {
        (Some(l), true) => vec![Fault {
            sig: "C16|pool|reservation-leak|par".to_string(),
            detail: format!("{l}\n(multi-thread history: not bisected)"),
        }],
        _ => Vec::new(),
    }
}

fn run_par(ctx: &mut Ctx, orders: &mut Orders) {
    let total = ctx.tier.pick(16, 5_000, 200_000);
    let small = ctx.tier.pick(true, false, false);
    for i in ctx.cases("par", total) {
        if ctx.out_of_time() {
            break;
        }
        let mut rng = ctx.begin("par", i);
        let seed = rng.u64();
        let reps = 2;
        let mut hashes = Vec::new();
        for rep in 0..reps {
            let out = run_par_case(seed, small, None);
            let threads = out.order.iter().copied().collect::<BTreeSet<u8>>().len().saturating_sub(1);
            if rep == 0 {
                orders.threads[threads.min(4)] += 1;
            }
            let h = order_hash(&out.order);
            orders.global.insert(h);
            hashes.push(h);
            let extra = par_leak_fault(&out);
            report(ctx, out, extra, &format!("par history seed={seed:#x} rep={rep}"));
        }
        orders.cases += 1;
        if hashes.iter().any(|h| *h != hashes[0]) {
            orders.multi += 1;
        }
    }
}

fn run_parscen(ctx: &mut Ctx, orders: &mut Orders) {
    use Op::*;
    let s_vec = find_seed(2, &nonempty);
    let s_std = find_seed(0, &nonempty);
    let scripts: Vec<Vec<Vec<Op>>> = vec![
        vec![
            vec![Create(0, s_std), Clone(0), Send(1, 1), Claim(0), IntoMutable(0), Drop(0)],
            vec![Create(0, s_std), Claim(0), Slice(0, 1, 3), Drop(0), Drop(0), Drop(0)],
        ],
        vec![
            vec![Create(2, s_vec), Claim(0), IntoVec(0, 1), VecWrite(0, 5), Drop(0)],
            vec![Create(0, s_std), Clone(0), Claim(0), Drop(0), IntoMutable(0), Drop(0)],
        ],
    ];
    for i in ctx.cases("parscen", scripts.len() as u64) {
        let _ = ctx.begin("parscen", i);
        let out = run_par_case(0xC16_1000 + i, false, Some(&scripts[i as usize % scripts.len()]));
        orders.global.insert(order_hash(&out.order));
        let extra = par_leak_fault(&out);
        report(ctx, out, extra, &format!("scripted multi-thread history {i}"));
    }
}

pub fn run(ctx: &mut Ctx) {
    if let Ok(v) = std::env::var("C16_SANITY") {
        SANITY.store(v.parse().unwrap_or(0), std::sync::atomic::Ordering::Relaxed);
    }
    let mut orders = Orders::default();
    run_scen(ctx);
    run_parscen(ctx, &mut orders);
    run_seq(ctx);
    run_par(ctx, &mut orders);
    ctx.count("par_cases", orders.cases);
    ctx.count("par_distinct_cross_thread_orders", orders.global.len() as u64);
    ctx.count("par_cases_with_different_order_on_rerun", orders.multi);
    for (n, c) in orders.threads.iter().enumerate() {
        if *c > 0 {
            ctx.count(&format!("par_cases_{n}_threads"), *c);
        }
    }
}
