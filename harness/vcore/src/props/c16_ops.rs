//! C16 engine part 1: the world of live handles, the operation alphabet and
//! the random chooser. `c16_exec.rs` executes operations.

use super::c16_h::*;
use super::c16_sup::*;
use crate::rng::Rng;
use std::collections::BTreeSet;
use std::sync::mpsc;
use std::sync::Arc;

#[derive(Clone, Debug)]
pub enum Op {
    Create(u8, u64),
    Clone(usize),
    Slice(usize, u32, u32),
    Advance(usize, u32),
    WrapBits(usize, u32, u32),
    WrapPrim(usize, u8, Option<usize>),
    WrapBool(usize, Option<usize>),
    IntoMutable(usize),
    IntoVec(usize, u8),
    Shrink(usize),
    Claim(usize),
    ToExt(usize),
    ExtToBuf(usize),
    BitAssign(usize, usize, u8),
    BitsInner(usize),
    /// 0 = unary_mut, 1 = try_unary_mut (op never fails), 2 = try_unary_mut (op fails on one value)
    UnaryMut(usize, u8),
    BinaryMut(usize, usize),
    IntoBuilder(usize),
    IntoParts(usize),
    ToData(usize),
    BoolUnary(usize, bool),
    BoolBin(usize, usize, bool),
    TakeN(usize, u32),
    MutWrite(usize, u64),
    MutGrow(usize, u32),
    MutTrunc(usize, u32),
    Freeze(usize),
    VecWrite(usize, u64),
    VecToBuf(usize),
    BldWrite(usize, u64),
    BldAppend(usize, u32),
    Finish(usize),
    Export(usize, bool),
    Import(usize),
    StreamExport(usize, u8),
    StreamOpen(usize),
    ReaderNext(usize),
    Drop(usize),
    Send(usize, u8),
}

impl Op {
    pub fn name(&self) -> &'static str {
        use Op::*;
        match self {
            Create(..) => "create",
            Clone(..) => "clone",
            Slice(..) => "slice",
            Advance(..) => "advance",
            WrapBits(..) => "wrap_bits",
            WrapPrim(..) => "wrap_prim",
            WrapBool(..) => "wrap_bool",
            IntoMutable(..) => "into_mutable",
            IntoVec(..) => "into_vec",
            Shrink(..) => "shrink_to_fit",
            Claim(..) => "claim",
            ToExt(..) => "into_bytes",
            ExtToBuf(..) => "from_bytes",
            BitAssign(..) => "bit_assign",
            BitsInner(..) => "into_inner",
            UnaryMut(_, 0) => "unary_mut",
            UnaryMut(..) => "try_unary_mut",
            BinaryMut(..) => "binary_mut",
            IntoBuilder(..) => "into_builder",
            IntoParts(..) => "into_parts",
            ToData(..) => "to_data",
            BoolUnary(_, false) => "bitwise_unary_mut",
            BoolUnary(_, true) => "bitwise_unary_mut_or_clone",
            BoolBin(_, _, false) => "bitwise_bin_op_mut",
            BoolBin(_, _, true) => "bitwise_bin_op_mut_or_clone",
            TakeN(..) => "take_n_true",
            MutWrite(..) => "mut_write",
            MutGrow(..) => "mut_grow",
            MutTrunc(..) => "mut_truncate",
            Freeze(..) => "freeze",
            VecWrite(..) => "vec_write",
            VecToBuf(..) => "from_vec",
            BldWrite(..) => "builder_write",
            BldAppend(..) => "builder_append",
            Finish(..) => "finish",
            Export(_, false) => "to_ffi",
            Export(_, true) => "to_ffi+from_raw",
            Import(..) => "from_ffi",
            StreamExport(..) => "stream_export",
            StreamOpen(..) => "stream_open",
            ReaderNext(..) => "stream_next",
            Drop(..) => "drop",
            Send(..) => "send",
        }
    }
    /// slot indices the operation reads
    pub fn indices(&self) -> (Option<usize>, Option<usize>) {
        use Op::*;
        match *self {
            Create(..) => (None, None),
            WrapPrim(i, _, j) | WrapBool(i, j) => (Some(i), j),
            BitAssign(i, j, _) | BinaryMut(i, j) | BoolBin(i, j, _) => (Some(i), Some(j)),
            Clone(i) | Slice(i, ..) | Advance(i, _) | WrapBits(i, ..) | IntoMutable(i) | IntoVec(i, _) | Shrink(i) | Claim(i)
            | ToExt(i) | ExtToBuf(i) | BitsInner(i) | UnaryMut(i, _) | IntoBuilder(i) | IntoParts(i) | ToData(i)
            | BoolUnary(i, _) | TakeN(i, _) | MutWrite(i, _) | MutGrow(i, _) | MutTrunc(i, _) | Freeze(i) | VecWrite(i, _)
            | VecToBuf(i) | BldWrite(i, _) | BldAppend(i, _) | Finish(i) | Export(i, _) | Import(i) | StreamExport(i, _)
            | StreamOpen(i) | ReaderNext(i) | Drop(i) | Send(i, _) => (Some(i), None),
        }
    }
    /// operation class, following the list in the property statement
    pub fn class(&self) -> &'static str {
        use Op::*;
        match self {
            Create(..) => "create",
            Clone(..) | Slice(..) | Advance(..) | WrapBits(..) | WrapPrim(..) | WrapBool(..) | IntoParts(..)
            | ToData(..) | BitsInner(..) | ToExt(..) | ExtToBuf(..) => "share",
            IntoMutable(..) | IntoVec(..) => "to-mutable-or-vec",
            UnaryMut(..) | BinaryMut(..) | BoolUnary(..) | BoolBin(..) | TakeN(..) => "in-place-kernel",
            IntoBuilder(..) => "into-builder",
            BitAssign(..) => "bitmask-assign",
            Shrink(..) => "shrink",
            Claim(..) => "claim",
            MutWrite(..) | MutGrow(..) | MutTrunc(..) | Freeze(..) | VecWrite(..) | VecToBuf(..) | BldWrite(..)
            | BldAppend(..) | Finish(..) => "mutable-op",
            Export(..) | Import(..) | StreamExport(..) | StreamOpen(..) | ReaderNext(..) => "ffi",
            Drop(..) => "drop",
            Send(..) => "send",
        }
    }
}

pub struct World {
    pub sh: Arc<Shared>,
    pub slots: Vec<Slot>,
    pub tid: u8,
    pub rng: Rng,
    pub par: bool,
    pub small: bool,
    pub serial: u32,
    /// name of the operation being executed
    pub cur_op: &'static str,
    /// evidence classes `op|kind|src|outcome`
    pub classes: BTreeSet<String>,
    pub rejections: u64,
    pub ops_done: u64,
    pub peers: Vec<mpsc::Sender<Slot>>,
    pub inbox: Option<mpsc::Receiver<Slot>>,
    /// human readable trace of the history (bounded)
    pub trace: Vec<String>,
}

impl World {
    pub fn new(sh: Arc<Shared>, tid: u8, rng: Rng, par: bool, small: bool) -> World {
        World {
            sh,
            slots: Vec::new(),
            tid,
            rng,
            par,
            small,
            serial: 0,
            cur_op: "setup",
            classes: BTreeSet::new(),
            rejections: 0,
            ops_done: 0,
            peers: Vec::new(),
            inbox: None,
            trace: Vec::new(),
        }
    }

    pub fn mode(&self) -> &'static str {
        if self.par { "par" } else { "seq" }
    }

    pub fn note(&mut self, op: &str, kind: &str, src: &str, outcome: &str) {
        self.classes.insert(format!("{op}|{kind}|{src}|{outcome}|{}", self.mode()));
        if self.trace.len() < 200 {
            self.trace.push(format!("t{} {op}({kind}:{src}) -> {outcome}", self.tid));
        }
    }

    pub fn fault(&self, sig: String, detail: String) {
        let tr = self.trace.iter().rev().take(40).rev().cloned().collect::<Vec<_>>().join("\n  ");
        self.sh.fault(sig, format!("{detail}\nhistory (thread {}):\n  {tr}", self.tid));
    }

    /// Register a new handle: snapshot, derive roots / imports from the
    /// addresses visible through it, log the birth.
    pub fn put(&mut self, h: H, origin: &'static str, parents: &[&Meta]) -> usize {
        let vs = addrs(&h);
        let opaque = h.opaque();
        let mut roots: Vec<u32> = Vec::new();
        for (p, _) in &vs {
            if let Some(r) = self.sh.region_of(*p) {
                if !roots.contains(&r) {
                    roots.push(r);
                }
            }
        }
        let mut imports: Vec<u32> = Vec::new();
        let mut xcaps: Vec<usize> = Vec::new();
        let mut src: &'static str = "";
        {
            let ex = lock(&self.sh.exports);
            for m in parents {
                if src.is_empty() {
                    src = m.src;
                }
                for e in &m.imports {
                    let keep = ex.get(e).map_or(false, |ranges| {
                        vs.iter().any(|(p, _)| ranges.iter().any(|(b, n)| *p >= *b && *p < *b + *n))
                    });
                    if keep && !imports.contains(e) {
                        imports.push(*e);
                    }
                }
            }
        }
        if opaque || !imports.is_empty() {
            for m in parents {
                xcaps.extend_from_slice(&m.xcaps);
            }
            xcaps.sort_unstable();
            xcaps.dedup();
        }
        if src.is_empty() {
            src = origin;
        }
        // an array handed back by any operation (also a declined one) must still be a valid array
        let mut tainted = parents.iter().any(|m| m.tainted);
        if !tainted && matches!(h, H::Prim(_) | H::Bool(_) | H::Str(_)) {
            if let Some(d) = to_data(&h) {
                if let Err(e) = d.validate_full() {
                    tainted = true;
                    self.fault(
                        format!("C16|{}|{}|invalid-array", self.cur_op, h.kind()),
                        format!("`{}` returned a {} that fails validate_full: {e}", self.cur_op, h.kind()),
                    );
                }
            }
        }
        let snap = snapshot(&h);
        let id = self.sh.next_h.fetch_add(1, std::sync::atomic::Ordering::SeqCst);
        self.sh.push(Ev::Birth {
            h: id,
            seq: tick(),
            kind: h.kind(),
            roots: roots.clone(),
            imports: imports.clone(),
        });
        self.slots.push(Slot {
            id,
            h,
            snap,
            meta: Meta { imports, roots, xcaps, src, tainted },
            origin,
            claimed: Vec::new(),
        });
        self.slots.len() - 1
    }

    /// Remove slot `i` and log the death of the handle (the caller consumes it).
    pub fn take(&mut self, i: usize) -> Slot {
        let s = self.slots.remove(i);
        self.sh.push(Ev::Death { h: s.id, seq: tick() });
        s
    }

    /// meta to hand to handles that keep `s` alive opaquely (exports)
    pub fn holder_meta(s: &Slot) -> Meta {
        let mut m = s.meta.clone();
        m.xcaps.extend(caps(&s.h));
        m
    }

    /// Check the bytes visible through every own handle against its snapshot.
    pub fn check_snapshots(&self, after: &'static str, after_class: &'static str) {
        for s in &self.slots {
            let now = snapshot(&s.h);
            if now != s.snap {
                let (bi, at) = first_diff(&now, &s.snap);
                let opc = if self.par { "par" } else { after_class };
                self.fault(
                    format!("C16|immutable|{opc}|{}|bytes-changed", s.h.kind()),
                    format!(
                        "bytes visible through live handle #{} ({}, created by {}, memory from {}) changed after `{after}`: view {bi} byte {at}\n  before: {}\n  after:  {}",
                        s.id,
                        s.h.kind(),
                        s.origin,
                        s.meta.src,
                        hex(s.snap.get(bi).map(|v| v.as_slice()).unwrap_or(&[])),
                        hex(now.get(bi).map(|v| v.as_slice()).unwrap_or(&[])),
                    ),
                );
            }
        }
    }

    /// Pick the next random operation from the current state.
    pub fn choose(&mut self, nthreads: u8) -> Op {
        let n = self.slots.len();
        let max_live = if self.small { 6 } else { 10 };
        if n == 0 || (n < max_live && self.rng.chance(1, 7)) {
            return Op::Create(self.rng.below(N_CREATE as usize) as u8, self.rng.u64());
        }
        if n >= max_live && self.rng.chance(1, 2) {
            return Op::Drop(self.rng.below(n));
        }
        let i = self.rng.below(n);
        if self.par && nthreads > 1 && self.rng.chance(1, 12) {
            return Op::Send(i, self.rng.below(nthreads as usize) as u8);
        }
        let a = self.rng.u32() % 1000;
        let b = self.rng.u32() % 1000;
        let r = self.rng.below(100);
        let other = |w: &mut World, pred: &dyn Fn(&H) -> bool| -> Option<usize> {
            let c: Vec<usize> = (0..w.slots.len()).filter(|j| *j != i && pred(&w.slots[*j].h)).collect();
            if c.is_empty() { None } else { Some(c[w.rng.below(c.len())]) }
        };
        let kind = self.slots[i].h.kind();
        match kind {
            "Buffer" => match r {
                0..=9 => Op::Clone(i),
                10..=19 => Op::Slice(i, a, b),
                20..=24 => Op::Advance(i, a),
                25..=31 => Op::WrapBits(i, a, b),
                32..=41 => {
                    let j = other(self, &|h| matches!(h, H::Bits(_)));
                    Op::WrapPrim(i, (a % 3) as u8, j)
                }
                42..=53 => Op::IntoMutable(i),
                54..=65 => Op::IntoVec(i, (a % 3) as u8),
                66..=71 => Op::Shrink(i),
                72..=81 => Op::Claim(i),
                82..=86 => Op::ToExt(i),
                _ => Op::Drop(i),
            },
            "BooleanBuffer" => match r {
                0..=9 => Op::Clone(i),
                10..=19 => Op::Slice(i, a, b),
                20..=44 => match other(self, &|h| matches!(h, H::Bits(_))) {
                    Some(j) => Op::BitAssign(i, j, (a % 3) as u8),
                    None => Op::Clone(i),
                },
                45..=54 => {
                    let j = other(self, &|h| matches!(h, H::Bits(_)));
                    Op::WrapBool(i, j)
                }
                55..=62 => Op::BitsInner(i),
                63..=70 => Op::Claim(i),
                71..=76 => Op::Shrink(i),
                _ => Op::Drop(i),
            },
            "PrimitiveArray" => match r {
                0..=7 => Op::Clone(i),
                8..=15 => Op::Slice(i, a, b),
                16..=29 => Op::UnaryMut(i, (a % 3) as u8),
                30..=39 => match other(self, &|h| matches!(h, H::Prim(_))) {
                    Some(j) => Op::BinaryMut(i, j),
                    None => Op::UnaryMut(i, 0),
                },
                40..=49 => Op::IntoBuilder(i),
                50..=55 => Op::IntoParts(i),
                56..=60 => Op::ToData(i),
                61..=68 => Op::Claim(i),
                69..=78 => Op::Export(i, a % 2 == 0),
                79..=83 => Op::StreamExport(i, (a % 3) as u8),
                84..=87 => Op::Shrink(i),
                _ => Op::Drop(i),
            },
            "BooleanArray" => match r {
                0..=7 => Op::Clone(i),
                8..=15 => Op::Slice(i, a, b),
                16..=27 => Op::BoolUnary(i, a % 2 == 0),
                28..=41 => match other(self, &|h| matches!(h, H::Bool(_))) {
                    Some(j) => Op::BoolBin(i, j, a % 2 == 0),
                    None => Op::BoolUnary(i, false),
                },
                42..=49 => Op::TakeN(i, a % 8),
                50..=55 => Op::IntoParts(i),
                56..=60 => Op::ToData(i),
                61..=67 => Op::Claim(i),
                68..=77 => Op::Export(i, a % 2 == 0),
                78..=82 => Op::StreamExport(i, (a % 3) as u8),
                83..=86 => Op::Shrink(i),
                _ => Op::Drop(i),
            },
            "StringArray" => match r {
                0..=9 => Op::Clone(i),
                10..=19 => Op::Slice(i, a, b),
                20..=39 => Op::IntoBuilder(i),
                40..=47 => Op::IntoParts(i),
                48..=53 => Op::ToData(i),
                54..=62 => Op::Claim(i),
                63..=74 => Op::Export(i, a % 2 == 0),
                75..=80 => Op::StreamExport(i, (a % 3) as u8),
                81..=85 => Op::Shrink(i),
                _ => Op::Drop(i),
            },
            "ArrayData" => match r {
                0..=11 => Op::Clone(i),
                12..=25 => Op::Slice(i, a, b),
                26..=37 => Op::Claim(i),
                38..=64 => Op::Export(i, a % 2 == 0),
                65..=78 => Op::StreamExport(i, (a % 3) as u8),
                _ => Op::Drop(i),
            },
            "MutableBuffer" => match r {
                0..=29 => Op::MutWrite(i, self.rng.u64()),
                30..=44 => Op::MutGrow(i, a % 300),
                45..=54 => Op::MutTrunc(i, a),
                55..=62 => Op::Shrink(i),
                63..=72 => Op::Claim(i),
                73..=92 => Op::Freeze(i),
                _ => Op::Drop(i),
            },
            "Vec" => match r {
                0..=39 => Op::VecWrite(i, self.rng.u64()),
                40..=74 => Op::VecToBuf(i),
                _ => Op::Drop(i),
            },
            "PrimitiveBuilder" | "StringBuilder" => match r {
                0..=29 => Op::BldWrite(i, self.rng.u64()),
                30..=49 => Op::BldAppend(i, a % 20),
                50..=89 => Op::Finish(i),
                _ => Op::Drop(i),
            },
            "FFI_ArrowArray" => match r {
                0..=74 => Op::Import(i),
                _ => Op::Drop(i),
            },
            "FFI_ArrowArrayStream" => match r {
                0..=79 => Op::StreamOpen(i),
                _ => Op::Drop(i),
            },
            "ArrowArrayStreamReader" => match r {
                0..=74 => Op::ReaderNext(i),
                _ => Op::Drop(i),
            },
            _ => match r {
                0..=19 => Op::Clone(i),
                20..=39 => Op::Slice(i, a, b),
                40..=74 => Op::ExtToBuf(i),
                _ => Op::Drop(i),
            },
        }
    }
}

pub fn first_diff(a: &[Vec<u8>], b: &[Vec<u8>]) -> (usize, usize) {
    for i in 0..a.len().max(b.len()) {
        match (a.get(i), b.get(i)) {
            (Some(x), Some(y)) => {
                if x != y {
                    let at = x.iter().zip(y.iter()).position(|(p, q)| p != q).unwrap_or(x.len().min(y.len()));
                    return (i, at);
                }
            }
            _ => return (i, 0),
        }
    }
    (0, 0)
}

pub fn hex(b: &[u8]) -> String {
    let mut s = String::new();
    for x in b.iter().take(48) {
        s.push_str(&format!("{x:02x}"));
    }
    if b.len() > 48 {
        s.push_str("..");
    }
    s
}
