//! Property workloads that need only the pure-Rust arrow crates.

use crate::mon::Ctx;

pub mod c19;
pub mod selftest;

pub fn run(id: &str, ctx: &mut Ctx) -> bool {
    match id {
        "SELF" => selftest::run(ctx),
        "C19" => c19::run(ctx),
        _ => return false,
    }
    true
}
