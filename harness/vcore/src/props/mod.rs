//! Property workloads that need only the pure-Rust arrow crates.

use crate::mon::Ctx;

pub mod c01;
pub mod c02;
pub mod c03;
pub mod c09;
pub mod c10;
pub mod c11;
pub mod c12;
pub mod c13;
pub mod c13_grid;
pub mod c13_model;
pub mod c16;
pub mod c16_exec;
pub mod c16_exec2;
pub mod c16_h;
pub mod c16_ops;
pub mod c16_sup;
pub mod c19;
pub mod c20;
pub mod opreg;
pub mod selftest;

pub fn run(id: &str, ctx: &mut Ctx) -> bool {
    match id {
        "SELF" => selftest::run(ctx),
        "C01CORE" => c01::run(ctx),
        "C02" => c02::run(ctx),
        "C03" => c03::run(ctx),
        "C03REPRO" => c03::repro(ctx),
        "C09" => c09::run(ctx),
        "C10" => c10::run(ctx),
        "C11" => c11::run(ctx),
        "C10REPRO" => c10::repro(ctx),
        "C11REPRO" => c11::repro(ctx),
        "C12" => c12::run(ctx),
        "C13" => c13::run(ctx),
        "C16" => c16::run(ctx),
        "C19" => c19::run(ctx),
        "C20" => c20::run(ctx),
        _ => return false,
    }
    true
}
