//! Property workloads that need only the pure-Rust arrow crates.

use crate::mon::Ctx;

pub mod selftest;

pub fn run(id: &str, ctx: &mut Ctx) -> bool {
    match id {
        "SELF" => selftest::run(ctx),
        _ => return false,
    }
    true
}
