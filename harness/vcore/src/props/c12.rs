//! C12: arithmetic, aggregation and boolean kernels are exact or report overflow.
//!
//! Events: results / errors of arrow-arith numeric kernels (array x array,
//! array x scalar, scalar x array, scalar x scalar), aggregates, boolean and
//! bitwise kernels, arity helpers, `i256` and `ArrowNativeTypeOp` methods.
//! Oracle: exact arithmetic (`num-bigint` / widened integers), IEEE operations by
//! widened computation, documented decimal precision/scale rules, an independent
//! proleptic-Gregorian calendar, Kleene truth tables, folds over valid values.
//!
//! Sections (each case replayable by `--section S --case N`):
//!   sweep8   exhaustive i8/u8 operand pairs x 8 operators x AA/AS/SA shapes, neg
//!   native8  exhaustive i8/u8 ArrowNativeTypeOp methods
//!   sweep16x exhaustive i16/u16 array x scalar sweeps (thorough: every scalar)
//!   sweep16  i16/u16 sweeps with random layouts / null patterns for selected scalars
//!   kernel   all type families, boundary-dense operands, null bait
//!   agg      sum/min/max/product/bit_*/bool_* (+checked, dictionary, run-end)
//!   boolk    and/or/not/and_not/kleene/is_null
//!   bitw     bitwise kernels (exhaustive for 8-bit)
//!   big      i256 methods against BigInt
//!   native   ArrowNativeTypeOp for every native type
//!   dectab   decimal precision tables and validators at every boundary
//!   arity    unary/binary/try_unary/try_binary (+_mut)
//!   fixedp   multiply_fixed_point*
//!
//! not asserted (see the per-site comments):
//!  * the error variant / message;
//!  * decimals: an error when only a rescaled *operand* or the rescale factor
//!    10^k exceeds the physical type although the final result fits (an Ok value
//!    must still be exact); operands beyond their declared precision (invalid
//!    data: only "no wrong value"); the result precision when the documented
//!    formula yields < 1; that results fit the result precision;
//!  * temporal: rounding direction when an interval's sub-day part is not a whole
//!    unit of the timestamp / a whole day for dates (both neighbours accepted);
//!    results or intermediates outside +-200000 years (chrono's range: error or
//!    exact); named time zones (only none / fixed offsets are generated);
//!    Date64 values that are not whole days;
//!  * interval x f64 for non-integral factors (and non-integral reciprocals);
//!  * floats: NaN payload/sign (any NaN equals any NaN); association order of
//!    sums/products (inputs are exactly summable / multipliable in every order);
//!    the sign of a zero sum; min/max with negative-sign NaNs; whether the
//!    checked float trait methods report a zero divisor;
//!  * checked sums: an error when the total fits but some *contiguous* partial
//!    sum does not (accumulation order, run products); checked products when a
//!    prefix product overflows;
//!  * `mod_checked` / `checked_rem` of MIN % -1 (std's convention: overflow);
//!    the kernel-level integer `rem` is asserted to return 0 as documented;
//!  * bitwise shifts by amounts outside 0..bits; i256::to_f64 precision;
//!  * `_mut` arity forms on sliced (offset) arrays.
//!
//! Self-test of the oracle: `C12_BREAK_MODEL=<int-add|dec-mul|ts-month-clamp|
//! float-round|small-rem|kleene|bit-xor|i256-mul|agg-minmax>` breaks one model
//! rule; the corresponding section must then report violations.

use crate::build::{self, R};
use crate::extract::extract;
use crate::gens::{self, type_class};
use crate::mon::{Ctx, Outcome, run_op, strip_digits};
use crate::rng::Rng;
use crate::val::{Val, dump_vals};
use arrow_array::{Array, ArrayRef, Datum, Scalar, make_array};
use arrow_buffer::{NullBuffer, i256};
use arrow_schema::{DataType, IntervalUnit, TimeUnit};
use num_bigint::BigInt;
use num_traits::{Signed, ToPrimitive, Zero};
use std::sync::Arc;

pub mod agg;
pub mod arity;
pub mod big;
pub mod boolk;
pub mod civil;
pub mod model;
pub mod sweep;

use model::{ALL_OPS, Base, Cell, Op, Phys};

pub fn run(ctx: &mut Ctx) {
    // the model checks itself first: a wrong model must never become a violation
    if let Err(e) = model::self_check() {
        ctx.inconclusive(&format!("model self-check failed: {e}"));
        return;
    }
    let mut complete = true;
    let timed = |ctx: &mut Ctx, name: &str, f: &mut dyn FnMut(&mut Ctx) -> bool| -> bool {
        let t0 = std::time::Instant::now();
        let r = f(ctx);
        ctx.count(&format!("ms_{name}"), t0.elapsed().as_millis() as u64);
        r
    };
    complete &= timed(ctx, "sweep8", &mut |c| sweep::run_sweep8(c));
    complete &= timed(ctx, "native8", &mut |c| sweep::run_native8(c));
    complete &= timed(ctx, "bitw", &mut |c| boolk::run_bitwise(c));
    let full16 = timed(ctx, "sweep16x", &mut |c| sweep::run_sweep16x(c));
    if ctx.tier == crate::mon::Tier::Thorough {
        complete &= full16;
    }
    timed(ctx, "sweep16", &mut |c| {
        sweep::run_sweep16(c);
        true
    });
    run_kernel(ctx);
    agg::run(ctx);
    timed(ctx, "boolk", &mut |c| {
        boolk::run_bool(c);
        true
    });
    timed(ctx, "big", &mut |c| {
        big::run_dectab(c);
        big::run_i256(c);
        big::run_native(c);
        true
    });
    timed(ctx, "arity", &mut |c| {
        arity::run(c);
        arity::run_fixed_point(c);
        true
    });
    // exhaustive: every 8-bit section of this shard ran to completion
    ctx.exhaustive = complete && ctx.only_case.is_none() && ctx.tier != crate::mon::Tier::Tiny;
}

/// Wall-clock share of one section (only bounds exploration, like the global
/// deadline): seconds at the quick tier, x15 at thorough, unlimited at tiny / replay.
pub struct Cap {
    start: std::time::Instant,
    limit: std::time::Duration,
}

impl Cap {
    pub fn new(ctx: &Ctx, quick_secs: u64) -> Cap {
        let secs = if ctx.only_case.is_some() {
            u64::MAX / 4
        } else {
            match ctx.tier {
                crate::mon::Tier::Tiny => 3600,
                crate::mon::Tier::Quick => quick_secs,
                crate::mon::Tier::Thorough => quick_secs * 15,
            }
        };
        Cap { start: std::time::Instant::now(), limit: std::time::Duration::from_secs(secs) }
    }
    pub fn over(&self) -> bool {
        self.start.elapsed() > self.limit
    }
}

/// Run one case; a panic that escapes the monitored calls is a harness problem
/// (inconclusive), never a verdict.
pub fn guarded(ctx: &mut Ctx, what: &str, f: impl FnOnce(&mut Ctx)) {
    if let Err(p) = crate::mon::guard(|| f(ctx)) {
        ctx.inconclusive(&format!("harness panic in {what}: {} @ {}", p.msg, p.loc));
    }
}

// ---------------------------------------------------------------- arrays

/// Build an array whose null slots carry the given payload ("bait"), at a
/// random slice offset, with a random validity-bitmap bit offset.
pub fn bait_array(rng: &mut Rng, dt: &DataType, payload: &[Val], valid: &[bool]) -> ArrayRef {
    assert_eq!(payload.len(), valid.len(), "model: payload/valid length");
    let n = payload.len();
    let (pre, post) = if rng.chance(1, 2) {
        (
            *rng.pick(&[0usize, 1, 1, 2, 3, 7, 8, 9, 63, 64, 65]),
            *rng.pick(&[0usize, 0, 1, 2, 7]),
        )
    } else {
        (0, 0)
    };
    let cfg = build::garbage_cfg();
    let mut vals: Vec<Val> = Vec::with_capacity(pre + n + post);
    let mut bits: Vec<bool> = Vec::with_capacity(pre + n + post);
    for _ in 0..pre {
        vals.push(gens::gen_value(rng, dt, &cfg));
        bits.push(rng.bool());
    }
    vals.extend_from_slice(payload);
    bits.extend_from_slice(valid);
    for _ in 0..post {
        vals.push(gens::gen_value(rng, dt, &cfg));
        bits.push(rng.bool());
    }
    let base = build::build(dt, &vals);
    let nulls = if bits.iter().all(|b| *b) && !rng.chance(1, 3) {
        None
    } else {
        let mut r = R { rng, chaos: true, depth: 0 };
        Some(NullBuffer::new(build::mk_bits(&mut r, bits.into_iter())))
    };
    let data = base
        .to_data()
        .into_builder()
        .nulls(nulls)
        .build()
        .expect("model: bait array build");
    let arr = make_array(data);
    if pre + post > 0 { arr.slice(pre, n) } else { arr }
}

// ---------------------------------------------------------------- judge

pub struct Expect {
    /// per output row: None = null expected
    pub rows: Vec<Option<Cell>>,
    /// None: the kernel is expected to reject the combination
    pub out: Option<DataType>,
    pub prec_asserted: bool,
    pub op_may_err: bool,
}

pub enum Verdict {
    /// outcome class
    Held(&'static str),
    Reject,
    Viol { kind: String, detail: String },
    Incon(String),
}

fn types_match(want: &DataType, got: &DataType, prec_asserted: bool) -> bool {
    if want == got {
        return true;
    }
    if !prec_asserted {
        if let (Some(a), Some(b)) = (model::dec_of(want), model::dec_of(got)) {
            return a.bits == b.bits && a.s == b.s;
        }
    }
    false
}

pub fn judge(exp: &Expect, out: &Outcome<ArrayRef>) -> Verdict {
    let any_valid = exp.rows.iter().any(|r| r.is_some());
    if let Outcome::Panic(p) = out {
        if p.is_model() {
            return Verdict::Incon(format!("model panic {} @ {}", p.msg, p.loc));
        }
        return Verdict::Viol {
            kind: format!("panic|{}|{}", p.file(), strip_digits(&p.msg)),
            detail: format!("panic: {} @ {}", p.msg, p.loc),
        };
    }
    let Some(want_dt) = &exp.out else {
        return match out {
            Outcome::Err(_) => Verdict::Reject,
            Outcome::Ok(_) if !any_valid => Verdict::Reject,
            Outcome::Ok(a) => Verdict::Incon(format!(
                "model expected a rejection, kernel returned {} rows of {}",
                a.len(),
                a.data_type()
            )),
            Outcome::Panic(_) => unreachable!(),
        };
    };
    let must_err = exp.rows.iter().flatten().position(|c| c.must_err());
    match out {
        Outcome::Panic(_) => unreachable!(),
        Outcome::Err(msg) => {
            if msg.contains("Invalid arithmetic operation")
                || msg.contains("arithmetic operation:")
                || msg.contains("Invalid timezone")
            {
                return Verdict::Incon(format!("model accepted, kernel rejected: {msg}"));
            }
            let allowed = exp.op_may_err || exp.rows.iter().flatten().any(|c| c.err_ok);
            if allowed {
                Verdict::Held(if must_err.is_some() { "err" } else { "err-allowed" })
            } else {
                Verdict::Viol {
                    kind: "spurious-err".into(),
                    detail: format!("no row may fail, got Err({msg})"),
                }
            }
        }
        Outcome::Ok(arr) => {
            if !types_match(want_dt, arr.data_type(), exp.prec_asserted) {
                return Verdict::Viol {
                    kind: "wrong-type".into(),
                    detail: format!("result type {} expected {}", arr.data_type(), want_dt),
                };
            }
            if arr.len() != exp.rows.len() {
                return Verdict::Viol {
                    kind: "wrong-len".into(),
                    detail: format!("result length {} expected {}", arr.len(), exp.rows.len()),
                };
            }
            let got = extract(arr.as_ref());
            if let Some(_) = must_err {
                // find the offending row for the witness
                for (i, c) in exp.rows.iter().enumerate() {
                    if let Some(c) = c {
                        if c.must_err() {
                            let wrapped = c.wrapped.as_ref().map(|w| model::val_eq(w, &got[i])).unwrap_or(false);
                            return Verdict::Viol {
                                kind: if wrapped { "missing-err-wrapped".into() } else { "missing-err".into() },
                                detail: format!("row {i} must fail (overflow / division by zero) but the call returned Ok with {:?}", got[i]),
                            };
                        }
                    }
                }
            }
            for (i, c) in exp.rows.iter().enumerate() {
                match c {
                    None => {
                        if !got[i].is_null() {
                            return Verdict::Viol {
                                kind: "wrong-null".into(),
                                detail: format!("row {i}: an input is null but the output is {:?}", got[i]),
                            };
                        }
                    }
                    Some(c) => {
                        if got[i].is_null() {
                            return Verdict::Viol {
                                kind: "wrong-null".into(),
                                detail: format!("row {i}: inputs valid but output null; expected {:?}", c.ok),
                            };
                        }
                        if c.free {
                            continue;
                        }
                        if !c.ok.iter().any(|w| model::val_eq(w, &got[i])) {
                            return Verdict::Viol {
                                kind: "wrong-value".into(),
                                detail: format!("row {i}: got {:?} expected {:?}", got[i], c.ok),
                            };
                        }
                    }
                }
            }
            // structural validation only: kernels do not promise that decimal results fit the result precision
            if let Err(e) = crate::validate::spec_validate(&arr.to_data()) {
                return Verdict::Viol {
                    kind: "invalid-output".into(),
                    detail: format!("output array fails independent validation: {e}"),
                };
            }
            Verdict::Held("ok")
        }
    }
}

// ---------------------------------------------------------------- value generators

fn rand_big(rng: &mut Rng, bits: u32) -> BigInt {
    // random magnitude with a random bit length
    let len = rng.below(bits as usize + 1) as u32;
    if len == 0 {
        return BigInt::zero();
    }
    let nbytes = (len as usize + 7) / 8;
    let bytes = rng.bytes(nbytes);
    let mut v = BigInt::from_bytes_le(num_bigint::Sign::Plus, &bytes);
    v %= model::pow2(len);
    v
}

/// boundary-dense integer of the physical layout
pub fn gen_phys(rng: &mut Rng, ph: Phys) -> BigInt {
    let (min, max) = (ph.min(), ph.max());
    let v: BigInt = match rng.below(18) {
        0 => BigInt::zero(),
        1 => BigInt::from(1),
        2 => BigInt::from(-1),
        3 => min.clone(),
        4 => max.clone(),
        5 => &min + rng.below(3) as i64 + 1,
        6 => &max - (rng.below(3) as i64 + 1),
        7 | 8 => {
            let k = rng.below(ph.bits as usize + 1) as u32;
            let v = model::pow2(k) + rng.range(-1, 1);
            if rng.bool() { v } else { -v }
        }
        9 => {
            let maxk = (ph.bits as f64 * 0.30103) as usize + 1;
            let v = model::pow10(rng.below(maxk + 1) as u32) + rng.range(-1, 1);
            if rng.bool() { v } else { -v }
        }
        10 | 11 => BigInt::from(rng.range(-130, 130)),
        12 => {
            // around the square root of the range (multiplication boundary)
            let v = model::pow2(ph.bits / 2) + rng.range(-3, 3);
            if rng.bool() { v } else { -v }
        }
        13 => &max / BigInt::from(rng.range(2, 11)) + rng.range(-1, 1),
        14 => &min / BigInt::from(rng.range(2, 11)) + rng.range(-1, 1),
        _ => {
            let v = rand_big(rng, ph.bits);
            if rng.bool() { v } else { -v }
        }
    };
    clamp_phys(ph, v)
}

pub fn clamp_phys(ph: Phys, v: BigInt) -> BigInt {
    if ph.fits(&v) { v } else { ph.wrap(&v) }
}

/// partner operand that puts the exact result next to a range boundary
fn gen_partner(rng: &mut Rng, base: Base, ph: Phys, a: &BigInt) -> BigInt {
    let bound = if rng.bool() { ph.max() } else { ph.min() };
    let d = rng.range(-2, 2);
    let v = match base {
        Base::Add => &bound - a + d,
        Base::Sub => a - &bound + d,
        Base::Mul => {
            if a.is_zero() {
                bound
            } else {
                &bound / a + d
            }
        }
        Base::Div | Base::Rem => match rng.below(8) {
            0 => BigInt::zero(),
            1 => BigInt::from(1),
            2 => BigInt::from(-1),
            3 => a.clone(),
            4 => -a.clone(),
            5 => a + 1,
            6 => BigInt::from(rng.range(-12, 12)),
            _ => a / BigInt::from(rng.range(2, 9)),
        },
    };
    clamp_phys(ph, v)
}

fn gen_f64_factor(rng: &mut Rng) -> f64 {
    match rng.below(14) {
        0 => 0.0,
        1 => -0.0,
        2 => 1.0,
        3 => -1.0,
        4 => 2.0,
        5 => 0.5,
        6 => -0.25,
        7 => rng.range(-1000, 1000) as f64,
        8 => *rng.pick(&[9007199254740992.0, 4611686018427387904.0, 9223372036854775808.0, -9223372036854775808.0, 1e300]),
        9 => *rng.pick(&[1.5, -2.5, 0.1, 1e-9, 3.3333]),
        10 => *rng.pick(&[f64::NAN, f64::INFINITY, f64::NEG_INFINITY]),
        11 => 1.0 / (1u64 << rng.below(40)) as f64,
        12 => (1u64 << rng.below(63)) as f64,
        _ => f64::from_bits(gens::gen_f64_bits(rng)),
    }
}

const TZ_POOL: [Option<&str>; 6] = [None, None, Some("+00:00"), Some("+05:30"), Some("-08:00"), Some("+14:00")];

/// a calendar-aware instant in seconds since the epoch
fn gen_epoch_secs(rng: &mut Rng) -> i128 {
    let year: i128 = match rng.below(12) {
        0..=5 => rng.range(1, 9999) as i128,
        6 => *rng.pick(&[1600, 1900, 2000, 2024, 2100, 1970, 1969, 1677, 2262, 1, 0, -1]),
        7 => rng.range(-4000, 12000) as i128,
        8 => model::YEAR_WINDOW * if rng.bool() { 1 } else { -1 } + rng.range(-3, 3) as i128,
        9 => rng.range(-262_200, 262_200) as i128,
        _ => rng.range(1900, 2100) as i128,
    };
    let month = match rng.below(4) {
        0 => *rng.pick(&[1, 2, 3, 12]),
        _ => rng.range(1, 12),
    } as i128;
    let dim = civil::days_in_month(year, month);
    let day = match rng.below(3) {
        0 => dim - rng.below(4) as i128,
        1 => 1 + rng.below(2) as i128,
        _ => 1 + rng.below(dim as usize) as i128,
    }
    .max(1);
    let tod = match rng.below(4) {
        0 => 0,
        1 => 86_399,
        _ => rng.below(86_400) as i128,
    };
    civil::days_from_civil(year, month, day) * 86_400 + tod
}

fn gen_months(rng: &mut Rng) -> i128 {
    match rng.below(10) {
        0 => 0,
        1 | 2 => *rng.pick(&[1, -1, 2, -2, 11, -11, 12, -12, 13, -13, 24, -24, 48, 1200, -1200]),
        3 | 4 => rng.range(-40, 40) as i128,
        5 => rng.range(-120_000, 120_000) as i128,
        6 => *rng.pick(&[i32::MIN as i128, i32::MAX as i128, i32::MIN as i128 + 1]),
        7 => rng.range(-3_200_000, 3_200_000) as i128,
        _ => rng.range(-14, 14) as i128,
    }
}

fn gen_days(rng: &mut Rng) -> i128 {
    match rng.below(10) {
        0 | 1 => 0,
        2 | 3 => *rng.pick(&[1, -1, 28, 29, 30, 31, -28, -31, 365, 366, -365, 7]),
        4 => rng.range(-400, 400) as i128,
        5 => rng.range(-4_000_000, 4_000_000) as i128,
        6 => *rng.pick(&[i32::MIN as i128, i32::MAX as i128]),
        _ => rng.range(-40, 40) as i128,
    }
}

fn gen_ms(rng: &mut Rng) -> i128 {
    match rng.below(8) {
        0 | 1 => 0,
        2 => *rng.pick(&[1, -1, 999, -999, 1000, -1000, 1001, 86_399_999, 86_400_000, 86_400_001, -86_400_000, -86_400_001, 172_800_000]),
        3 => rng.range(-10, 10) as i128 * 86_400_000,
        4 => rng.range(-3_600_000, 3_600_000) as i128,
        5 => *rng.pick(&[i32::MIN as i128, i32::MAX as i128]),
        6 => rng.range(-100, 100) as i128 * 1000,
        _ => rng.range(i32::MIN as i64, i32::MAX as i64) as i128,
    }
}

fn gen_nanos(rng: &mut Rng) -> i128 {
    const D: i128 = 86_400_000_000_000;
    match rng.below(10) {
        0 | 1 => 0,
        2 => *rng.pick(&[1, -1, 999, 1000, -1000, 999_999, 1_000_000, -1_000_000, 1_000_000_000, -1_000_000_000, 1_000_000_001]),
        3 => rng.range(-10, 10) as i128 * D,
        4 => rng.range(-10, 10) as i128 * D + *rng.pick(&[1i128, -1, 500_000_000]),
        5 => rng.range(-3600, 3600) as i128 * 1_000_000_000,
        6 => *rng.pick(&[i64::MIN as i128, i64::MAX as i128]),
        7 => rng.range(-1_000_000, 1_000_000) as i128 * 1_000_000,
        8 => rng.range(-1_000_000, 1_000_000) as i128 * 1_000,
        _ => rng.range(i64::MIN, i64::MAX) as i128,
    }
}

fn i64_clamp(v: i128, rng: &mut Rng) -> i128 {
    if v < i64::MIN as i128 || v > i64::MAX as i128 {
        *rng.pick(&[i64::MIN as i128, i64::MAX as i128, 0, i64::MAX as i128 - 1])
    } else {
        v
    }
}

/// one non-null value of `dt`, dense at the boundaries that matter for arithmetic
pub fn gen_operand(rng: &mut Rng, dt: &DataType) -> Val {
    use DataType::*;
    match dt {
        Int8 | Int16 | Int32 | Int64 | UInt8 | UInt16 | UInt32 | UInt64 => {
            let ph = model::phys_of(dt).unwrap();
            model::big_val(dt, &gen_phys(rng, ph))
        }
        Float16 | Float32 | Float64 => gens::gen_value(rng, dt, &gens::TypeCfg::all()),
        Decimal32(p, _) | Decimal64(p, _) | Decimal128(p, _) | Decimal256(p, _) => {
            let ph = model::phys_of(dt).unwrap();
            let bound: BigInt = model::pow10(*p as u32) - 1;
            let v = match rng.below(12) {
                0 => bound.clone(),
                1 => -bound.clone(),
                2 => {
                    let k = rng.below(*p as usize + 1) as u32;
                    let v = model::pow10(k) * rng.range(1, 9) + rng.range(-1, 1);
                    if rng.bool() { v } else { -v }
                }
                // beyond the declared precision (invalid data, physical range)
                3 if rng.chance(1, 2) => gen_phys(rng, ph),
                _ => {
                    let v = gen_phys(rng, ph);
                    if v.abs() > bound { &v % (&bound + 1) } else { v }
                }
            };
            model::big_val(dt, &clamp_phys(ph, v))
        }
        Timestamp(u, _) => {
            let ups = model::unit_per_sec(u);
            let v = match rng.below(10) {
                0 => *rng.pick(&[i64::MIN as i128, i64::MAX as i128, 0, -1, 1]),
                1 => rng.range(i64::MIN, i64::MAX) as i128,
                _ => gen_epoch_secs(rng) * ups + if ups > 1 && rng.bool() { rng.below(ups as usize) as i128 } else { 0 },
            };
            Val::Int(i64_clamp(v, rng))
        }
        Date32 => {
            let v = match rng.below(10) {
                0 => *rng.pick(&[i32::MIN as i128, i32::MAX as i128, 0, -1]),
                1 => rng.range(i32::MIN as i64, i32::MAX as i64) as i128,
                _ => civil::fdiv(gen_epoch_secs(rng), 86_400),
            };
            Val::Int(v.clamp(i32::MIN as i128, i32::MAX as i128))
        }
        Date64 => {
            let v = match rng.below(12) {
                0 => *rng.pick(&[i64::MIN as i128, i64::MAX as i128, 1, -1, 86_399_999]),
                _ => civil::fdiv(gen_epoch_secs(rng), 86_400) * 86_400_000,
            };
            Val::Int(i64_clamp(v, rng))
        }
        Duration(u) => {
            let ups = model::unit_per_sec(u);
            let v = match rng.below(6) {
                0 => gen_phys(rng, Phys { bits: 64, signed: true }).to_i128().unwrap(),
                1 => rng.range(-100_000, 100_000) as i128 * ups,
                2 => rng.range(-400, 400) as i128 * 86_400 * ups,
                3 => *rng.pick(&[i64::MIN as i128, i64::MAX as i128, 0, 1, -1]),
                _ => rng.range(-1_000_000_000, 1_000_000_000) as i128,
            };
            Val::Int(i64_clamp(v, rng))
        }
        Interval(IntervalUnit::YearMonth) => Val::Int(gen_months(rng)),
        Interval(IntervalUnit::DayTime) => Val::IntervalDT(gen_days(rng) as i32, gen_ms(rng) as i32),
        Interval(IntervalUnit::MonthDayNano) => {
            Val::IntervalMDN(gen_months(rng) as i32, gen_days(rng) as i32, gen_nanos(rng) as i64)
        }
        other => gens::gen_value(rng, other, &gens::TypeCfg::all()),
    }
}

/// second operand, often steered to the overflow boundary given the first
fn gen_right(rng: &mut Rng, op: Op, lt: &DataType, rt: &DataType, l: &Val) -> Val {
    use DataType::*;
    if !rng.chance(2, 5) {
        return gen_operand(rng, rt);
    }
    match (lt, rt) {
        (Int8 | Int16 | Int32 | Int64 | UInt8 | UInt16 | UInt32 | UInt64, _) if lt == rt => {
            let ph = model::phys_of(lt).unwrap();
            model::big_val(rt, &gen_partner(rng, op.base(), ph, &model::val_big(l)))
        }
        (Decimal32(_, _) | Decimal64(_, _) | Decimal128(_, _) | Decimal256(_, _), _) => {
            let (Some(ld), Some(rd)) = (model::dec_of(lt), model::dec_of(rt)) else {
                return gen_operand(rng, rt);
            };
            if ld.bits != rd.bits {
                return gen_operand(rng, rt);
            }
            let ph = Phys { bits: ld.bits, signed: true };
            let dp = model::dec_plan(op.base(), ld, rd);
            let a = model::val_big(l) * model::pow10(dp.la);
            let v = gen_partner(rng, op.base(), ph, &clamp_phys(ph, a));
            // undo the rhs rescale, keep within the declared precision most of the time
            let mut v = &v / model::pow10(dp.rb) + rng.range(-1, 1);
            let bound = model::pow10(rd.p as u32) - 1;
            if v.abs() > bound && rng.chance(4, 5) {
                v = if v.is_negative() { -bound } else { bound };
            }
            model::big_val(rt, &clamp_phys(ph, v))
        }
        (Timestamp(_, _) | Duration(_) | Date64, Timestamp(_, _) | Duration(_) | Date64) => {
            let ph = Phys { bits: 64, signed: true };
            model::big_val(rt, &gen_partner(rng, op.base(), ph, &model::val_big(l)))
        }
        (Interval(IntervalUnit::YearMonth), Interval(IntervalUnit::YearMonth)) => {
            let ph = Phys { bits: 32, signed: true };
            model::big_val(rt, &gen_partner(rng, op.base(), ph, &model::val_big(l)))
        }
        (Interval(IntervalUnit::DayTime), Interval(IntervalUnit::DayTime)) => {
            let Val::IntervalDT(d, m) = l else { return gen_operand(rng, rt) };
            let ph = Phys { bits: 32, signed: true };
            let d2 = gen_partner(rng, op.base(), ph, &BigInt::from(*d)).to_i32().unwrap();
            let m2 = if rng.bool() { gen_partner(rng, op.base(), ph, &BigInt::from(*m)).to_i32().unwrap() } else { gen_ms(rng) as i32 };
            Val::IntervalDT(if rng.bool() { d2 } else { gen_days(rng) as i32 }, m2)
        }
        (Interval(IntervalUnit::MonthDayNano), Interval(IntervalUnit::MonthDayNano)) => {
            let Val::IntervalMDN(a, d, n) = l else { return gen_operand(rng, rt) };
            let p32 = Phys { bits: 32, signed: true };
            let p64 = Phys { bits: 64, signed: true };
            let which = rng.below(3);
            Val::IntervalMDN(
                if which == 0 { gen_partner(rng, op.base(), p32, &BigInt::from(*a)).to_i32().unwrap() } else { gen_months(rng) as i32 },
                if which == 1 { gen_partner(rng, op.base(), p32, &BigInt::from(*d)).to_i32().unwrap() } else { gen_days(rng) as i32 },
                if which == 2 { gen_partner(rng, op.base(), p64, &BigInt::from(*n)).to_i64().unwrap() } else { gen_nanos(rng) as i64 },
            )
        }
        (Interval(_), Int64) => {
            // factor that lands a field on its boundary
            let (field, ph) = match l {
                Val::Int(m) => (*m, Phys { bits: 32, signed: true }),
                Val::IntervalDT(d, m) => (if rng.bool() { *d as i128 } else { *m as i128 }, Phys { bits: 32, signed: true }),
                Val::IntervalMDN(a, d, n) => match rng.below(3) {
                    0 => (*a as i128, Phys { bits: 32, signed: true }),
                    1 => (*d as i128, Phys { bits: 32, signed: true }),
                    _ => (*n as i128, Phys { bits: 64, signed: true }),
                },
                _ => return gen_operand(rng, rt),
            };
            let k = gen_partner(rng, Base::Mul, ph, &BigInt::from(field));
            Val::Int(k.to_i128().unwrap().clamp(i64::MIN as i128, i64::MAX as i128))
        }
        (Interval(IntervalUnit::MonthDayNano), Float64) => Val::F64(gen_f64_factor(rng).to_bits()),
        _ => gen_operand(rng, rt),
    }
}

// ---------------------------------------------------------------- scenarios

fn gen_dec_type(rng: &mut Rng, bits: u32) -> DataType {
    let maxp = model::dec_max_precision(bits) as usize;
    let p = match rng.below(4) {
        0 => maxp,
        1 => 1 + rng.below(3),
        _ => 1 + rng.below(maxp),
    } as u8;
    let s: i8 = match rng.below(8) {
        0 => -(rng.below(6) as i8 + 1),
        1 => -(rng.below(50) as i8 + 1),
        2 => 0,
        3 => p as i8,
        _ => rng.below(p as usize + 1) as i8,
    };
    model::dec_type(bits, p, s)
}

const INT_TYPES: [DataType; 8] = [
    DataType::Int8,
    DataType::Int16,
    DataType::Int32,
    DataType::Int64,
    DataType::UInt8,
    DataType::UInt16,
    DataType::UInt32,
    DataType::UInt64,
];

fn interval_type(rng: &mut Rng) -> DataType {
    DataType::Interval(*rng.pick(&[IntervalUnit::YearMonth, IntervalUnit::DayTime, IntervalUnit::MonthDayNano]))
}

fn ts_type(rng: &mut Rng) -> DataType {
    DataType::Timestamp(*rng.pick(&gens::TIME_UNITS), rng.pick(&TZ_POOL).map(Arc::from))
}

/// (lhs type, rhs type, ops that the dispatch supports for the pair)
fn gen_pair(rng: &mut Rng) -> (DataType, DataType, Vec<Op>) {
    use DataType::*;
    let addsub = vec![Op::Add, Op::AddW, Op::Sub, Op::SubW];
    let sub = vec![Op::Sub, Op::SubW];
    let add = vec![Op::Add, Op::AddW];
    match rng.below(100) {
        0..=19 => {
            let t = rng.pick(&INT_TYPES).clone();
            (t.clone(), t, ALL_OPS.to_vec())
        }
        20..=29 => {
            let t = rng.pick(&[Float16, Float32, Float64]).clone();
            (t.clone(), t, ALL_OPS.to_vec())
        }
        30..=54 => {
            let bits = *rng.pick(&[32u32, 32, 64, 128, 128, 256]);
            let l = gen_dec_type(rng, bits);
            let r = match rng.below(10) {
                0 | 1 => l.clone(),
                2..=5 => gen_dec_type(rng, bits),
                _ => {
                    // scale gap around the point where the rescale factor 10^gap stops
                    // fitting the physical type (and, for narrow types, where it wraps to 0)
                    let d = model::dec_of(&l).unwrap();
                    let maxp = model::dec_max_precision(bits);
                    let gap = *rng.pick(&[maxp - 1, maxp, maxp + 1, maxp + 2, bits as i32 / 2, bits as i32, bits as i32 + 1, 1, 4, 5]);
                    let s2 = d.s as i32 + if rng.bool() { gap } else { -gap };
                    let s2 = s2.clamp(-50, maxp);
                    let p2 = (s2.max(1) + rng.below(4) as i32).clamp(1, maxp);
                    model::dec_type(bits, p2 as u8, s2 as i8)
                }
            };
            if rng.bool() { (l, r, ALL_OPS.to_vec()) } else { (r, l, ALL_OPS.to_vec()) }
        }
        55..=57 => {
            let l = ts_type(rng);
            let Timestamp(u, _) = &l else { unreachable!() };
            let r = Timestamp(*u, rng.pick(&TZ_POOL).map(Arc::from));
            (l, r, sub)
        }
        58..=60 => {
            let l = ts_type(rng);
            let Timestamp(u, _) = &l else { unreachable!() };
            let r = Duration(*u);
            if rng.chance(1, 4) { (r, l, add) } else { (l, r, addsub) }
        }
        61..=72 => {
            let l = ts_type(rng);
            let r = interval_type(rng);
            if rng.chance(1, 5) { (r, l, add) } else { (l, r, addsub) }
        }
        73..=75 => {
            let t = Duration(*rng.pick(&gens::TIME_UNITS));
            (t.clone(), t, addsub)
        }
        76..=79 => {
            let t = interval_type(rng);
            (t.clone(), t, addsub)
        }
        80..=83 => {
            let t = interval_type(rng);
            if rng.chance(1, 3) { (Int64, t, vec![Op::Mul]) } else { (t, Int64, vec![Op::Mul]) }
        }
        84..=87 => {
            let t = Interval(IntervalUnit::MonthDayNano);
            if rng.chance(1, 4) { (Float64, t, vec![Op::Mul]) } else { (t, Float64, vec![Op::Mul, Op::Div]) }
        }
        88..=89 => {
            let t = rng.pick(&[Date32, Date64]).clone();
            (t.clone(), t, sub)
        }
        90..=97 => {
            let l = rng.pick(&[Date32, Date32, Date64]).clone();
            let r = interval_type(rng);
            if rng.chance(1, 5) { (r, l, add) } else { (l, r, addsub) }
        }
        _ => {
            // arbitrary pair: mostly unsupported
            let pool = [Int32, Int64, UInt8, Float64, Float32, Date32, Date64, Duration(TimeUnit::Second),
                Duration(TimeUnit::Millisecond), Timestamp(TimeUnit::Second, None), Timestamp(TimeUnit::Nanosecond, None),
                Interval(IntervalUnit::YearMonth), Interval(IntervalUnit::DayTime), Decimal128(10, 2), Decimal256(10, 2), Decimal32(5, 1), Boolean, Utf8];
            (rng.pick(&pool).clone(), rng.pick(&pool).clone(), vec![])
        }
    }
}

#[derive(Clone, Copy, PartialEq, Eq, Debug)]
pub enum Shape {
    AA,
    AS,
    SA,
    SS,
}

impl Shape {
    pub fn name(&self) -> &'static str {
        match self {
            Shape::AA => "array-array",
            Shape::AS => "array-scalar",
            Shape::SA => "scalar-array",
            Shape::SS => "scalar-scalar",
        }
    }
}

fn gen_validity(rng: &mut Rng, n: usize) -> (Vec<bool>, &'static str) {
    match rng.below(7) {
        0 | 1 => (vec![true; n], "nonull"),
        2 => ((0..n).map(|_| !rng.chance(1, 10)).collect(), "sparse-null"),
        3 => ((0..n).map(|_| rng.bool()).collect(), "half-null"),
        4 => ((0..n).map(|_| rng.chance(1, 10)).collect(), "mostly-null"),
        5 => (vec![false; n], "all-null"),
        _ => ((0..n).map(|i| i % 2 == 0).collect(), "alternating"),
    }
}

pub fn call_binary(op: Op, l: &dyn Datum, r: &dyn Datum) -> Outcome<ArrayRef> {
    use arrow_arith::numeric as k;
    run_op(|| match op {
        Op::Add => k::add(l, r),
        Op::AddW => k::add_wrapping(l, r),
        Op::Sub => k::sub(l, r),
        Op::SubW => k::sub_wrapping(l, r),
        Op::Mul => k::mul(l, r),
        Op::MulW => k::mul_wrapping(l, r),
        Op::Div => k::div(l, r),
        Op::Rem => k::rem(l, r),
    })
}

pub fn call_shaped(op: Op, shape: Shape, la: &ArrayRef, ra: &ArrayRef) -> Outcome<ArrayRef> {
    match shape {
        Shape::AA => call_binary(op, la, ra),
        Shape::AS => call_binary(op, la, &Scalar::new(ra.clone())),
        Shape::SA => call_binary(op, &Scalar::new(la.clone()), ra),
        Shape::SS => call_binary(op, &Scalar::new(la.clone()), &Scalar::new(ra.clone())),
    }
}

fn sig(section: &str, op: &str, lt: &DataType, rt: &DataType, tag: &str, kind: &str) -> String {
    let fam = if model::fam_name(lt) == model::fam_name(rt) {
        model::fam_name(lt).to_string()
    } else {
        format!("{}x{}", model::fam_name(lt), model::fam_name(rt))
    };
    if tag.is_empty() {
        format!("C12|{section}|{op}|{fam}|{kind}")
    } else {
        format!("C12|{section}|{op}|{fam}|{tag}|{kind}")
    }
}

fn run_kernel(ctx: &mut Ctx) {
    let total = ctx.tier.pick(300, 2_400_000, 20_000_000);
    let t0 = std::time::Instant::now();
    let cap = Cap::new(ctx, 20);
    for i in ctx.cases("kernel", total) {
        if ctx.out_of_time() || cap.over() {
            break;
        }
        let mut rng = ctx.begin("kernel", i);
        guarded(ctx, "kernel", |ctx| {
            if rng.chance(1, 12) {
                kernel_neg_case(ctx, &mut rng);
            } else {
                kernel_binary_case(ctx, &mut rng);
            }
        });
    }
    ctx.count("ms_kernel", t0.elapsed().as_millis() as u64);
}

fn kernel_binary_case(ctx: &mut Ctx, rng: &mut Rng) {
    let (lt, rt, supported) = gen_pair(rng);
    let op = if !supported.is_empty() && rng.chance(9, 10) {
        *rng.pick(&supported)
    } else {
        *rng.pick(&ALL_OPS)
    };
    let shape = *rng.pick(&[Shape::AA, Shape::AA, Shape::AA, Shape::AS, Shape::AS, Shape::SA, Shape::SA, Shape::SS]);
    let n = if rng.chance(1, 40) { 1000 + rng.below(3000) } else { rng.len_biased(130) };
    let (ln, rn) = match shape {
        Shape::AA => (n, n),
        Shape::AS => (n, 1),
        Shape::SA => (1, n),
        Shape::SS => (1, 1),
    };
    // occasionally mismatched lengths
    let mismatch = shape == Shape::AA && rng.chance(1, 60);
    let rn = if mismatch { rn + 1 + rng.below(3) } else { rn };
    let pl = model::plan(op, &lt, &rt);
    let accepted = pl.out.is_some();
    // payloads
    let can_gen = |dt: &DataType| !matches!(model::fam_of(dt), model::Fam::Other);
    // when a decimal rescale factor overflows, only tiny operands keep the call from failing trivially
    let tiny = !pl.tag.is_empty() && rng.chance(3, 5);
    let tiny_val = |rng: &mut Rng, dt: &DataType| model::big_val(dt, &BigInt::from(rng.range(-3, 3)));
    let lpay: Vec<Val> = (0..ln).map(|_| if tiny { tiny_val(rng, &lt) } else { gen_operand(rng, &lt) }).collect();
    let rpay: Vec<Val> = (0..rn)
        .map(|j| {
            if tiny && rng.chance(2, 3) {
                tiny_val(rng, &rt)
            } else if accepted && can_gen(&lt) && ln > 0 {
                let l = &lpay[if ln == 1 { 0 } else { j.min(ln - 1) }];
                gen_right(rng, op, &lt, &rt, l)
            } else {
                gen_operand(rng, &rt)
            }
        })
        .collect();
    let (mut lvalid, lnc) = gen_validity(rng, ln);
    let (mut rvalid, rnc) = gen_validity(rng, rn);
    if ln == 1 && shape != Shape::AA {
        lvalid[0] = !rng.chance(1, 8);
    }
    if rn == 1 && shape != Shape::AA {
        rvalid[0] = !rng.chance(1, 8);
    }
    let out_n = match shape {
        Shape::SS => 1,
        _ => n,
    };
    let lat = |j: usize| if ln == 1 { 0 } else { j };
    let rat = |j: usize| if rn == 1 { 0 } else { j };
    // expectation
    let mut rows: Vec<Option<Cell>> = Vec::with_capacity(out_n);
    let mut masked = 0u64;
    if accepted && !mismatch {
        let mask = rng.chance(1, 2) && pl.tag.is_empty();
        for j in 0..out_n {
            if !(lvalid[lat(j)] && rvalid[rat(j)]) {
                rows.push(None);
                continue;
            }
            let c = model::cell(op, &lt, &rt, &lpay[lat(j)], &rpay[rat(j)], &pl);
            if mask && (c.must_err() || (c.err_ok && !c.free)) {
                // hide the failing pair under a null: the payload stays as bait
                let can_l = ln > 1;
                let can_r = rn > 1;
                if can_l && (!can_r || rng.bool()) {
                    lvalid[j] = false;
                    masked += 1;
                    rows.push(None);
                    continue;
                } else if can_r {
                    rvalid[j] = false;
                    masked += 1;
                    rows.push(None);
                    continue;
                }
            }
            rows.push(Some(c));
        }
    } else {
        for j in 0..out_n.min(ln.max(rn)) {
            let v = lvalid.get(lat(j)).copied().unwrap_or(false) && rvalid.get(rat(j)).copied().unwrap_or(false);
            rows.push(if v { Some(Cell::free()) } else { None });
        }
    }
    let la = bait_array(rng, &lt, &lpay, &lvalid);
    let ra = bait_array(rng, &rt, &rpay, &rvalid);
    let out = call_shaped(op, shape, &la, &ra);
    ctx.count("kernel_calls", 1);
    ctx.count("kernel_rows", out_n as u64);
    ctx.count("bait_rows_masked", masked);
    let exp = if mismatch {
        // different lengths must be reported as an error, never truncated
        match &out {
            Outcome::Err(_) => {
                ctx.eval();
                ctx.class(format!("kernel|{}|{}x{}|length-mismatch|err", op.name(), type_class(&lt), type_class(&rt)));
                return;
            }
            Outcome::Ok(a) if accepted => {
                ctx.eval();
                ctx.violation(
                    &sig("kernel", op.name(), &lt, &rt, "", "length-mismatch-accepted"),
                    format!("{} on arrays of length {} and {} returned Ok({} rows)", op.name(), ln, rn, a.len()),
                );
                return;
            }
            _ => Expect { rows, out: None, prec_asserted: false, op_may_err: true },
        }
    } else {
        Expect { rows, out: pl.out.clone(), prec_asserted: pl.prec_asserted, op_may_err: pl.op_may_err }
    };
    let verdict = judge(&exp, &out);
    let witness = |extra: &str| {
        format!(
            "{}({}, {}) shape={} lhs={} {} valid={:?}\nrhs={} {} valid={:?}\nexpected type {:?}\n{extra}",
            op.name(),
            lt,
            rt,
            shape.name(),
            lt,
            dump_vals(&lpay),
            short_bits(&lvalid),
            rt,
            dump_vals(&rpay),
            short_bits(&rvalid),
            pl.out
        )
    };
    match verdict {
        Verdict::Held(outcome) => {
            ctx.eval();
            if out_n > 0 {
                let nulls = if lnc == "all-null" || rnc == "all-null" {
                    "all-null"
                } else if lnc == "nonull" && rnc == "nonull" {
                    "nonull"
                } else {
                    "some-null"
                };
                ctx.class(format!(
                    "kernel|{}|{}x{}|{}|{}|{}{}",
                    op.name(),
                    type_class(&lt),
                    type_class(&rt),
                    shape.name(),
                    nulls,
                    outcome,
                    if pl.tag.is_empty() { "" } else { "|fo" }
                ));
            }
            ctx.sample(|| witness(&format!("outcome {outcome}")));
        }
        Verdict::Reject => ctx.reject(),
        Verdict::Incon(why) => ctx.inconclusive(&format!("{} {lt} {rt}: {why}", op.name())),
        Verdict::Viol { kind, detail } => {
            ctx.eval();
            ctx.violation(&sig("kernel", op.name(), &lt, &rt, pl.tag, &kind), witness(&detail));
        }
    }
}

pub fn short_bits(v: &[bool]) -> String {
    let s: String = v.iter().take(200).map(|b| if *b { '1' } else { '0' }).collect();
    if v.len() > 200 { format!("{s}..({})", v.len()) } else { s }
}

fn kernel_neg_case(ctx: &mut Ctx, rng: &mut Rng) {
    use DataType::*;
    let wrapping = rng.bool();
    let dt: DataType = match rng.below(12) {
        0..=3 => rng.pick(&INT_TYPES).clone(),
        4 | 5 => rng.pick(&[Float16, Float32, Float64]).clone(),
        6 | 7 => {
            let bits = *rng.pick(&[32u32, 64, 128, 256]);
            gen_dec_type(rng, bits)
        }
        8 => Duration(*rng.pick(&gens::TIME_UNITS)),
        9 | 10 => interval_type(rng),
        _ => rng.pick(&[Date32, Timestamp(TimeUnit::Second, None), Boolean, Date64]).clone(),
    };
    let n = rng.len_biased(130);
    let pay: Vec<Val> = (0..n)
        .map(|_| gen_neg_operand(rng, &dt))
        .collect();
    let (mut valid, nc) = gen_validity(rng, n);
    let opname = if wrapping { "neg_wrapping" } else { "neg" };
    let mut rows: Vec<Option<Cell>> = Vec::with_capacity(n);
    let mut accepted = true;
    let mask = rng.bool();
    for j in 0..n {
        if !valid[j] {
            rows.push(None);
            continue;
        }
        match model::neg_cell(wrapping, &dt, &pay[j]) {
            None => {
                accepted = false;
                rows.push(Some(Cell::free()));
            }
            Some(c) => {
                if mask && c.must_err() {
                    valid[j] = false;
                    rows.push(None);
                } else {
                    rows.push(Some(c));
                }
            }
        }
    }
    if model::neg_cell(wrapping, &dt, &gen_neg_operand(rng, &dt)).is_none() {
        accepted = false;
    }
    let arr = bait_array(rng, &dt, &pay, &valid);
    let out = run_op(|| {
        if wrapping {
            arrow_arith::numeric::neg_wrapping(arr.as_ref())
        } else {
            arrow_arith::numeric::neg(arr.as_ref())
        }
    });
    ctx.count("kernel_calls", 1);
    let exp = Expect { rows, out: if accepted { Some(dt.clone()) } else { None }, prec_asserted: true, op_may_err: false };
    match judge(&exp, &out) {
        Verdict::Held(outcome) => {
            ctx.eval();
            if n > 0 {
                ctx.class(format!("kernel|{opname}|{}|{nc}|{outcome}", type_class(&dt)));
            }
        }
        Verdict::Reject => ctx.reject(),
        Verdict::Incon(why) => ctx.inconclusive(&format!("{opname} {dt}: {why}")),
        Verdict::Viol { kind, detail } => {
            ctx.eval();
            ctx.violation(
                &sig("kernel", opname, &dt, &dt, "", &kind),
                format!("{opname}({dt}) input={} valid={}\n{detail}", dump_vals(&pay), short_bits(&valid)),
            );
        }
    }
}

fn gen_neg_operand(rng: &mut Rng, dt: &DataType) -> Val {
    if rng.chance(1, 6) {
        // the minimum of the physical type (the only operand whose negation overflows)
        match dt {
            DataType::Interval(IntervalUnit::DayTime) => {
                return if rng.bool() { Val::IntervalDT(i32::MIN, gen_ms(rng) as i32) } else { Val::IntervalDT(gen_days(rng) as i32, i32::MIN) };
            }
            DataType::Interval(IntervalUnit::MonthDayNano) => {
                return match rng.below(3) {
                    0 => Val::IntervalMDN(i32::MIN, 1, 1),
                    1 => Val::IntervalMDN(1, i32::MIN, 1),
                    _ => Val::IntervalMDN(1, 1, i64::MIN),
                };
            }
            _ => {
                if let Some(ph) = model::phys_of(dt) {
                    return model::big_val(dt, &ph.min());
                }
            }
        }
    }
    gen_operand(rng, dt)
}

/// i256 -> Val helper shared by the sections
pub fn v256(v: i256) -> Val {
    Val::Big(v)
}
