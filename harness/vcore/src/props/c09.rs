//! C09: checked constructors never accept a malformed array layout.
//!
//! Events: Ok/Err/panic of the validating entry points on near-valid layouts
//! (exactly one mutation of a valid array's `ArrayData` tree).
//! Oracle: accepted => the independent validator (`spec_validate`) accepts and
//! the accessor exercise completes (under ASan/Miri an out-of-bounds access of
//! an accepted layout becomes a report).
//!
//! not asserted: *which* error; rejection of layouts the validator would accept
//! (over-strictness is not part of the property); a panic inside a validating
//! entry point counts as rejection.

use crate::build::realise;
use crate::gens::{TypeCfg, gen_column, gen_type, type_class};
use crate::mon::{Ctx, guard};
use crate::rng::Rng;
use crate::val::dump_vals;
use crate::validate::{exercise, spec_validate};
use arrow_array::{Array, ArrayRef, make_array};
use arrow_buffer::{Buffer, MutableBuffer, NullBuffer, OffsetBuffer, RunEndBuffer, ScalarBuffer};
use arrow_data::{ArrayData, ArrayDataBuilder};
use arrow_schema::{DataType, Field, IntervalUnit, Schema, UnionMode};
use std::sync::Arc;

/// element width in bytes of buffer `b` of `dt` (0 = variable / bitmap / n.a.)
fn width(dt: &DataType, b: usize) -> usize {
    use DataType::*;
    match (dt, b) {
        (Int8 | UInt8, 0) => 1,
        (Int16 | UInt16 | Float16, 0) => 2,
        (Int32 | UInt32 | Float32 | Date32 | Time32(_) | Decimal32(_, _), 0) => 4,
        (Interval(IntervalUnit::YearMonth), 0) => 4,
        (Int64 | UInt64 | Float64 | Date64 | Time64(_) | Timestamp(_, _) | Duration(_), 0) => 8,
        (Decimal64(_, _) | Interval(IntervalUnit::DayTime), 0) => 8,
        (Decimal128(_, _) | Interval(IntervalUnit::MonthDayNano), 0) => 16,
        (Decimal256(_, _), 0) => 32,
        (Utf8 | Binary | List(_) | Map(_, _), 0) => 4,
        (LargeUtf8 | LargeBinary | LargeList(_), 0) => 8,
        (ListView(_), 0 | 1) => 4,
        (LargeListView(_), 0 | 1) => 8,
        (Utf8View | BinaryView, 0) => 16,
        (Union(_, _), 0) => 1,
        (Union(_, UnionMode::Dense), 1) => 4,
        (Dictionary(k, _), 0) => width(k, 0),
        _ => 0,
    }
}

/// Decomposed, freely mutable description of one ArrayData node.
#[derive(Clone)]
struct Parts {
    dt: DataType,
    len: usize,
    offset: usize,
    /// validity as an unsliced bitmap buffer (bit i <-> slot offset+i), None = no nulls
    validity: Option<Buffer>,
    buffers: Vec<Buffer>,
    children: Vec<ArrayData>,
}

fn parts_of(d: &ArrayData) -> Parts {
    // re-base validity so that it is addressed with the data offset (the form
    // `ArrayData::try_new` takes)
    let validity = d.nulls().map(|n| {
        let mut bits = vec![true; d.offset()];
        bits.extend((0..d.len()).map(|i| n.is_valid(i)));
        arrow_buffer::BooleanBuffer::from(bits).into_inner()
    });
    Parts {
        dt: d.data_type().clone(),
        len: d.len(),
        offset: d.offset(),
        validity,
        buffers: d.buffers().to_vec(),
        children: d.child_data().to_vec(),
    }
}

fn copy_bytes(b: &Buffer) -> Vec<u8> {
    b.as_slice().to_vec()
}

/// aligned buffer from bytes
fn abuf(bytes: &[u8]) -> Buffer {
    let mut mb = MutableBuffer::new(bytes.len());
    mb.extend_from_slice(bytes);
    mb.into()
}

fn read_int(bytes: &[u8], idx: usize, w: usize) -> Option<i128> {
    let s = idx.checked_mul(w)?;
    let e = s.checked_add(w)?;
    if e > bytes.len() {
        return None;
    }
    let mut raw = [0u8; 16];
    raw[..w.min(16)].copy_from_slice(&bytes[s..s + w.min(16)]);
    let v = i128::from_le_bytes(raw);
    // sign extend
    let shift = 128 - 8 * w.min(16) as u32;
    Some(if shift == 0 { v } else { (v << shift) >> shift })
}

fn write_int(bytes: &mut [u8], idx: usize, w: usize, v: i128) {
    let raw = v.to_le_bytes();
    let s = idx * w;
    bytes[s..s + w.min(16)].copy_from_slice(&raw[..w.min(16)]);
}

/// Apply exactly one layout mutation; returns a description, or None if not applicable.
fn mutate(rng: &mut Rng, p: &mut Parts) -> Option<String> {
    let nb = p.buffers.len();
    let end = p.offset + p.len;
    for _attempt in 0..8 {
        let k = rng.below(16);
        match k {
            // ---- element rewrite in a fixed-width buffer
            0..=5 if nb > 0 => {
                let b = rng.below(nb);
                let w = width(&p.dt, b);
                if w == 0 || w > 16 {
                    continue;
                }
                let mut bytes = copy_bytes(&p.buffers[b]);
                let n_el = bytes.len() / w;
                if n_el == 0 {
                    continue;
                }
                let extra = if matches!(p.dt, DataType::Utf8 | DataType::LargeUtf8 | DataType::Binary | DataType::LargeBinary | DataType::List(_) | DataType::LargeList(_) | DataType::Map(_, _)) { 1 } else { 0 };
                let hi = (end + extra).min(n_el);
                if hi <= p.offset {
                    continue;
                }
                let idx = match rng.below(4) {
                    0 => p.offset,
                    1 => hi - 1,
                    _ => p.offset + rng.below(hi - p.offset),
                };
                if w == 16 && matches!(p.dt, DataType::Utf8View | DataType::BinaryView) {
                    // rewrite one field of a view
                    let base = idx * 16;
                    let len = u32::from_le_bytes(bytes[base..base + 4].try_into().unwrap());
                    let nbufs = (nb - 1) as u32;
                    let which = rng.below(6);
                    let desc;
                    match which {
                        0 => {
                            let nl = *rng.pick(&[len.wrapping_add(1), len.wrapping_sub(1), 13, 12, u32::MAX, i32::MAX as u32, i32::MAX as u32 + 1, 0, 1 << 20]);
                            bytes[base..base + 4].copy_from_slice(&nl.to_le_bytes());
                            desc = format!("view[{idx}].length {len} -> {nl}");
                        }
                        1 => {
                            let i = 4 + rng.below(4);
                            bytes[base + i] ^= 1 << rng.below(8);
                            desc = format!("view[{idx}] prefix/inline byte {i} flipped (len {len})");
                        }
                        2 => {
                            let v = *rng.pick(&[nbufs, nbufs + 1, u32::MAX, 0, 1]);
                            bytes[base + 8..base + 12].copy_from_slice(&v.to_le_bytes());
                            desc = format!("view[{idx}].buffer_index -> {v} ({nbufs} data buffers, len {len})");
                        }
                        3 => {
                            let cur = u32::from_le_bytes(bytes[base + 12..base + 16].try_into().unwrap());
                            let v = *rng.pick(&[cur.wrapping_add(1), cur.wrapping_sub(1), u32::MAX, u32::MAX - len, 1 << 20]);
                            bytes[base + 12..base + 16].copy_from_slice(&v.to_le_bytes());
                            desc = format!("view[{idx}].offset {cur} -> {v} (len {len})");
                        }
                        _ => {
                            let i = 4 + rng.below(12);
                            let v = *rng.pick(&[0xFFu8, 0x80, 1, 0xC0]);
                            bytes[base + i] = v;
                            desc = format!("view[{idx}] byte {i} -> {v:#x} (len {len})");
                        }
                    }
                    p.buffers[b] = abuf(&bytes);
                    return Some(desc);
                }
                let cur = read_int(&bytes, idx, w)?;
                let prev = if idx > 0 { read_int(&bytes, idx - 1, w) } else { None };
                let next = read_int(&bytes, idx + 1, w);
                let child_len = p
                    .children
                    .first()
                    .map(|c| c.len() as i128)
                    .or_else(|| p.buffers.get(1).map(|b| b.len() as i128))
                    .unwrap_or(0);
                let bits = 8 * w as u32;
                let maxv: i128 = if bits >= 127 { i128::MAX } else { (1i128 << (bits - 1)) - 1 };
                let minv: i128 = if bits >= 127 { i128::MIN } else { -(1i128 << (bits - 1)) };
                let mut cands = vec![-1, 0, cur + 1, cur - 1, child_len, child_len + 1, child_len - 1, maxv, minv, cur + 1000];
                if let Some(pv) = prev {
                    cands.push(pv - 1);
                    cands.push(pv);
                }
                if let Some(nx) = next {
                    cands.push(nx + 1);
                    cands.push(nx);
                }
                let nv = *rng.pick(&cands);
                if nv == cur {
                    continue;
                }
                write_int(&mut bytes, idx, w, nv);
                p.buffers[b] = abuf(&bytes);
                return Some(format!("buffer {b} element {idx} ({w} bytes): {cur} -> {nv} (child/data len {child_len})"));
            }
            // ---- buffer shortened
            6 if nb > 0 => {
                let b = rng.below(nb);
                let w = width(&p.dt, b).max(1);
                let l = p.buffers[b].len();
                if l == 0 {
                    continue;
                }
                let cut = *rng.pick(&[1usize, w, l]);
                let cut = cut.min(l);
                p.buffers[b] = abuf(&p.buffers[b].as_slice()[..l - cut]);
                return Some(format!("buffer {b} shortened by {cut} bytes to {}", l - cut));
            }
            // ---- buffer misaligned
            7 if nb > 0 => {
                let b = rng.below(nb);
                let w = width(&p.dt, b);
                if w < 2 {
                    continue;
                }
                let shift = 1 + rng.below(w.min(8) - 1);
                let bytes = copy_bytes(&p.buffers[b]);
                let mut mb = MutableBuffer::new(bytes.len() + shift);
                mb.extend_from_slice(&vec![0u8; shift]);
                mb.extend_from_slice(&bytes);
                let bb: Buffer = mb.into();
                p.buffers[b] = bb.slice_with_length(shift, bytes.len());
                return Some(format!("buffer {b} base pointer misaligned by {shift} bytes"));
            }
            // ---- missing / extra buffer
            8 => {
                if nb > 0 && rng.bool() {
                    let b = rng.below(nb);
                    p.buffers.remove(b);
                    return Some(format!("buffer {b} removed"));
                } else if !matches!(p.dt, DataType::Utf8View | DataType::BinaryView) {
                    p.buffers.push(abuf(&[0u8; 64]));
                    return Some("extra buffer appended".to_string());
                }
            }
            // ---- len / offset moved
            9 => {
                let c = rng.below(6);
                let (nl, no, d) = match c {
                    0 => (p.len + 1, p.offset, "len + 1"),
                    1 => (p.len, p.offset + 1, "offset + 1"),
                    2 => (p.len + 64, p.offset, "len + 64"),
                    3 => (p.len, (usize::MAX - p.len).wrapping_add(1), "offset so that len + offset overflows"),
                    4 => (usize::MAX - p.offset, p.offset, "len = usize::MAX - offset"),
                    _ => (p.len + 8, p.offset.saturating_sub(1), "len + 8, offset - 1"),
                };
                if nl == p.len && no == p.offset {
                    continue;
                }
                p.len = nl;
                p.offset = no;
                // validity bitmap is left as is (now too short or misaddressed)
                return Some(format!("{d} (len {nl} offset {no})"));
            }
            // ---- validity shortened / replaced
            10 => {
                if let Some(v) = &p.validity {
                    let l = v.len();
                    if l > 0 {
                        p.validity = Some(abuf(&v.as_slice()[..l - 1]));
                        return Some(format!("validity bitmap shortened to {} bytes", l - 1));
                    }
                }
            }
            // ---- nulls under a non-nullable child / parent-less types
            11 => {
                if matches!(p.dt, DataType::Null | DataType::Union(_, _) | DataType::RunEndEncoded(_, _)) && p.len > 0 {
                    p.validity = Some(abuf(&vec![0u8; end.div_ceil(8)]));
                    return Some("validity bitmap added to a type without validity".to_string());
                }
            }
            // ---- children: remove / duplicate / wrong type / shortened
            12..=15 if !p.children.is_empty() => {
                let c = rng.below(p.children.len());
                match k {
                    12 => {
                        p.children.remove(c);
                        return Some(format!("child {c} removed"));
                    }
                    13 => {
                        let x = p.children[c].clone();
                        p.children.push(x);
                        return Some(format!("child {c} duplicated at the end"));
                    }
                    14 => {
                        let l = p.children[c].len();
                        let wrong = if p.children[c].data_type() == &DataType::Int32 { DataType::Int64 } else { DataType::Int32 };
                        p.children[c] = ArrayData::new_null(&wrong, l);
                        return Some(format!("child {c} replaced by an all-null {wrong} array of the same length"));
                    }
                    _ => {
                        let l = p.children[c].len();
                        if l == 0 {
                            continue;
                        }
                        let nl = if rng.bool() { l - 1 } else { l / 2 };
                        p.children[c] = p.children[c].slice(0, nl);
                        return Some(format!("child {c} shortened from {l} to {nl}"));
                    }
                }
            }
            _ => {}
        }
    }
    None
}

#[derive(Debug)]
enum Verdict {
    Rejected,
    Accepted(ArrayData),
}

/// The validating entry points on a decomposed layout.
fn entry_points(p: &Parts) -> Vec<(&'static str, Verdict)> {
    let mut out = Vec::new();
    let q = p.clone();
    let r = guard(move || ArrayData::try_new(q.dt, q.len, q.validity, q.offset, q.buffers, q.children));
    out.push((
        "ArrayData::try_new",
        match r {
            Ok(Ok(d)) => Verdict::Accepted(d),
            _ => Verdict::Rejected,
        },
    ));
    let q = p.clone();
    let r = guard(move || {
        ArrayDataBuilder::new(q.dt)
            .len(q.len)
            .offset(q.offset)
            .null_bit_buffer(q.validity)
            .buffers(q.buffers)
            .child_data(q.children)
            .build()
    });
    out.push((
        "ArrayDataBuilder::build",
        match r {
            Ok(Ok(d)) => Verdict::Accepted(d),
            _ => Verdict::Rejected,
        },
    ));
    let q = p.clone();
    let r = guard(move || {
        ArrayDataBuilder::new(q.dt)
            .len(q.len)
            .offset(q.offset)
            .null_bit_buffer(q.validity)
            .buffers(q.buffers)
            .child_data(q.children)
            .align_buffers(true)
            .build()
    });
    out.push((
        "ArrayDataBuilder::build(align_buffers)",
        match r {
            Ok(Ok(d)) => Verdict::Accepted(d),
            _ => Verdict::Rejected,
        },
    ));
    // unchecked construction followed by the safe validator
    let q = p.clone();
    let r = guard(move || {
        // SAFETY: deliberately unvalidated; only `validate_full` (safe) is called on it
        // before anything else. Construction itself may panic on short validity.
        let d = unsafe {
            ArrayDataBuilder::new(q.dt)
                .len(q.len)
                .offset(q.offset)
                .null_bit_buffer(q.validity)
                .buffers(q.buffers)
                .child_data(q.children)
                .build_unchecked()
        };
        d.validate_full().map(|_| d)
    });
    out.push((
        "validate_full",
        match r {
            Ok(Ok(d)) => Verdict::Accepted(d),
            _ => Verdict::Rejected,
        },
    ));
    out
}

/// Re-assemble the root after replacing the node at `path` (unchecked), then
/// ask the safe validator about the whole tree.
fn rebuild(root: &ArrayData, path: &[usize], newnode: ArrayData) -> ArrayData {
    if path.is_empty() {
        return newnode;
    }
    let mut children = root.child_data().to_vec();
    children[path[0]] = rebuild(&children[path[0]], &path[1..], newnode);
    // SAFETY: unvalidated on purpose, only handed to validate_full
    unsafe {
        root.clone()
            .into_builder()
            .child_data(children)
            .build_unchecked()
    }
}

fn node_at<'a>(root: &'a ArrayData, path: &[usize]) -> &'a ArrayData {
    let mut n = root;
    for i in path {
        n = &n.child_data()[*i];
    }
    n
}

fn check_accepted(ctx: &mut Ctx, entry: &str, d: &ArrayData, tclass: &str, mutation: &str, detail: &dyn Fn() -> String) {
    match guard(|| spec_validate(d)) {
        Ok(Ok(())) => {}
        Ok(Err(e)) => {
            // key = first clause of the innermost validator message (type prefixes
            // stripped first, then digits)
            let rule = crate::mon::strip_digits(&rule_key(&e));
            ctx.violation(
                &format!("C09|{entry}|accepted-malformed|{rule}"),
                format!("{entry} accepted a layout the format validator rejects\nmutation: {mutation}\nvalidator: {e}\n{}", detail()),
            );
            return;
        }
        Err(p) => {
            ctx.inconclusive(&format!("spec_validate panicked: {} @ {}", p.msg, p.loc));
            return;
        }
    }
    // accessor exercise on the accepted layout (a Null / zero-width array of
    // astronomically large length is well-formed but cannot be materialised
    // by the model: skip, counted)
    fn max_len(d: &ArrayData) -> usize {
        d.child_data().iter().map(max_len).max().unwrap_or(0).max(d.len())
    }
    if max_len(d) > (1 << 22) {
        ctx.count("accepted_huge_len_not_exercised", 1);
        return;
    }
    let d2 = d.clone();
    match guard(move || {
        let a: ArrayRef = make_array(d2);
        exercise(&a)
    }) {
        Ok(Ok(())) => {}
        Ok(Err(e)) => ctx.violation(
            &format!("C09|{entry}|accepted-but-accessors-disagree|{}", crate::mon::strip_digits(&e)),
            format!("{entry} accepted a layout on which accessors disagree\nmutation: {mutation}\n{e}\n{}", detail()),
        ),
        Err(p) => ctx.violation(
            &format!("C09|{entry}|accepted-but-accessor-panics|{}|{}", p.file(), crate::mon::strip_digits(&p.msg)),
            format!("{entry} accepted a layout on which a safe accessor panics\nmutation: {mutation}\npanic: {} @ {}\n{}", p.msg, p.loc, detail()),
        ),
    }
    let _ = tclass;
}

/// first clause of a validator message (stable key)
fn rule_key(msg: &str) -> String {
    // strip the "[type] " prefix chain
    let m = msg.rsplit("] ").next().unwrap_or(msg);
    m.split(&[':', '('][..]).next().unwrap_or(m).trim().chars().take(60).collect()
}

fn typed_constructors(ctx: &mut Ctx, p: &Parts, mutation: &str, detail: &dyn Fn() -> String) {
    use arrow_array::types::*;
    use arrow_array::*;
    // Build typed arrays from the (possibly malformed) parts through the safe typed
    // constructors. A panic or Err anywhere is a rejection.
    let q = p.clone();
    let res: Result<Option<ArrayRef>, _> = guard(move || -> Option<ArrayRef> {
        let nulls = q.validity.as_ref().map(|v| NullBuffer::new(arrow_buffer::BooleanBuffer::new(v.clone(), q.offset, q.len)));
        match &q.dt {
            DataType::Utf8 => {
                let o = OffsetBuffer::new(ScalarBuffer::<i32>::new(q.buffers.first()?.clone(), q.offset, q.len + 1));
                StringArray::try_new(o, q.buffers.get(1)?.clone(), nulls).ok().map(|a| Arc::new(a) as ArrayRef)
            }
            DataType::LargeBinary => {
                let o = OffsetBuffer::new(ScalarBuffer::<i64>::new(q.buffers.first()?.clone(), q.offset, q.len + 1));
                LargeBinaryArray::try_new(o, q.buffers.get(1)?.clone(), nulls).ok().map(|a| Arc::new(a) as ArrayRef)
            }
            DataType::Utf8View => {
                let v = ScalarBuffer::<u128>::new(q.buffers.first()?.clone(), q.offset, q.len);
                StringViewArray::try_new(v, q.buffers[1..].to_vec(), nulls).ok().map(|a| Arc::new(a) as ArrayRef)
            }
            DataType::BinaryView => {
                let v = ScalarBuffer::<u128>::new(q.buffers.first()?.clone(), q.offset, q.len);
                BinaryViewArray::try_new(v, q.buffers[1..].to_vec(), nulls).ok().map(|a| Arc::new(a) as ArrayRef)
            }
            DataType::List(f) => {
                let o = OffsetBuffer::new(ScalarBuffer::<i32>::new(q.buffers.first()?.clone(), q.offset, q.len + 1));
                ListArray::try_new(f.clone(), o, make_array(q.children.first()?.clone()), nulls).ok().map(|a| Arc::new(a) as ArrayRef)
            }
            DataType::LargeList(f) => {
                let o = OffsetBuffer::new(ScalarBuffer::<i64>::new(q.buffers.first()?.clone(), q.offset, q.len + 1));
                LargeListArray::try_new(f.clone(), o, make_array(q.children.first()?.clone()), nulls).ok().map(|a| Arc::new(a) as ArrayRef)
            }
            DataType::ListView(f) => {
                let o = ScalarBuffer::<i32>::new(q.buffers.first()?.clone(), q.offset, q.len);
                let s = ScalarBuffer::<i32>::new(q.buffers.get(1)?.clone(), q.offset, q.len);
                ListViewArray::try_new(f.clone(), o, s, make_array(q.children.first()?.clone()), nulls).ok().map(|a| Arc::new(a) as ArrayRef)
            }
            DataType::FixedSizeList(f, n) => {
                let c = make_array(q.children.first()?.clone());
                let c = if q.offset > 0 { c.slice((q.offset * *n as usize).min(c.len()), c.len().saturating_sub(q.offset * *n as usize)) } else { c };
                FixedSizeListArray::try_new_with_length(f.clone(), *n, c, nulls, q.len).ok().map(|a| Arc::new(a) as ArrayRef)
            }
            DataType::FixedSizeBinary(w) => {
                let b = q.buffers.first()?.clone();
                let start = q.offset.checked_mul(*w as usize)?;
                if start > b.len() {
                    return None;
                }
                let b = b.slice(start);
                FixedSizeBinaryArray::try_new_with_len(*w, b, nulls, q.len).ok().map(|a| Arc::new(a) as ArrayRef)
            }
            DataType::Struct(fs) => {
                let cols: Vec<ArrayRef> = q.children.iter().map(|c| {
                    let a = make_array(c.clone());
                    if q.offset > 0 && q.offset <= a.len() { a.slice(q.offset, a.len() - q.offset) } else { a }
                }).collect();
                StructArray::try_new_with_length(fs.clone(), cols, nulls, q.len).ok().map(|a| Arc::new(a) as ArrayRef)
            }
            DataType::Dictionary(k, _) if **k == DataType::Int16 => {
                let keys = PrimitiveArray::<Int16Type>::try_new(ScalarBuffer::new(q.buffers.first()?.clone(), q.offset, q.len), nulls).ok()?;
                DictionaryArray::<Int16Type>::try_new(keys, make_array(q.children.first()?.clone())).ok().map(|a| Arc::new(a) as ArrayRef)
            }
            DataType::Dictionary(k, _) if **k == DataType::UInt8 => {
                let keys = PrimitiveArray::<UInt8Type>::try_new(ScalarBuffer::new(q.buffers.first()?.clone(), q.offset, q.len), nulls).ok()?;
                DictionaryArray::<UInt8Type>::try_new(keys, make_array(q.children.first()?.clone())).ok().map(|a| Arc::new(a) as ArrayRef)
            }
            DataType::Dictionary(k, _) if **k == DataType::UInt64 => {
                let keys = PrimitiveArray::<UInt64Type>::try_new(ScalarBuffer::new(q.buffers.first()?.clone(), q.offset, q.len), nulls).ok()?;
                DictionaryArray::<UInt64Type>::try_new(keys, make_array(q.children.first()?.clone())).ok().map(|a| Arc::new(a) as ArrayRef)
            }
            DataType::Union(ufs, mode) => {
                let t = ScalarBuffer::<i8>::new(q.buffers.first()?.clone(), q.offset, q.len);
                let o = match mode {
                    UnionMode::Dense => Some(ScalarBuffer::<i32>::new(q.buffers.get(1)?.clone(), q.offset, q.len)),
                    UnionMode::Sparse => None,
                };
                let children: Vec<ArrayRef> = q.children.iter().map(|c| {
                    let a = make_array(c.clone());
                    if *mode == UnionMode::Sparse && q.offset > 0 && q.offset <= a.len() { a.slice(q.offset, a.len() - q.offset) } else { a }
                }).collect();
                UnionArray::try_new(ufs.clone(), t, o, children).ok().map(|a| Arc::new(a) as ArrayRef)
            }
            DataType::RunEndEncoded(rf, _) => {
                let re = q.children.first()?.clone();
                let va = make_array(q.children.get(1)?.clone());
                match rf.data_type() {
                    DataType::Int16 => {
                        let r = PrimitiveArray::<Int16Type>::from(re);
                        RunArray::<Int16Type>::try_new(&r, va.as_ref()).ok().map(|a| Arc::new(a) as ArrayRef)
                    }
                    DataType::Int32 => {
                        let r = PrimitiveArray::<Int32Type>::from(re);
                        RunArray::<Int32Type>::try_new(&r, va.as_ref()).ok().map(|a| Arc::new(a) as ArrayRef)
                    }
                    _ => {
                        let r = PrimitiveArray::<Int64Type>::from(re);
                        // also the buffer-level constructor (panics on invalid input = rejection)
                        let _ = RunEndBuffer::new(r.values().clone(), 0, q.len);
                        RunArray::<Int64Type>::try_new(&r, va.as_ref()).ok().map(|a| Arc::new(a) as ArrayRef)
                    }
                }
            }
            DataType::Int32 => PrimitiveArray::<Int32Type>::try_new(ScalarBuffer::new(q.buffers.first()?.clone(), q.offset, q.len), nulls).ok().map(|a| Arc::new(a) as ArrayRef),
            DataType::Decimal128(_, _) => PrimitiveArray::<Decimal128Type>::try_new(ScalarBuffer::new(q.buffers.first()?.clone(), q.offset, q.len), nulls).ok().map(|a| Arc::new(a.with_data_type(q.dt.clone())) as ArrayRef),
            _ => None,
        }
    });
    if let Ok(Some(a)) = res {
        ctx.count("typed_accepted", 1);
        let d = a.to_data();
        check_accepted(ctx, "typed try_new", &d, "", mutation, detail);
        // RecordBatch construction around it
        let schema = Arc::new(Schema::new(vec![Field::new("c", a.data_type().clone(), true)]));
        let n = a.len();
        if let Ok(Ok(b)) = guard(|| RecordBatch::try_new(schema.clone(), vec![a.clone()])) {
            if let Err(e) = crate::validate::check_batch(&b) {
                ctx.violation(&format!("C09|RecordBatch::try_new|accepted-malformed|{}", crate::mon::strip_digits(&rule_key(&e))), format!("{e}\nmutation: {mutation}\n{}", detail()));
            }
        }
        // wrong row count must be rejected
        let opts = RecordBatchOptions::new().with_row_count(Some(n.wrapping_add(1)));
        if let Ok(Ok(b)) = guard(|| RecordBatch::try_new_with_options(schema.clone(), vec![a.clone()], &opts)) {
            ctx.violation("C09|RecordBatch::try_new_with_options|row-count-mismatch-accepted", format!("batch with {} rows accepted for a column of {n} rows\n{}", b.num_rows(), detail()));
        }
    } else {
        ctx.count("typed_rejected_or_na", 1);
    }
}

/// Buffer-level checked constructors: `BooleanBuffer::new`, `NullBuffer::new`,
/// `ScalarBuffer::new`, `OffsetBuffer::new`, `RunEndBuffer::new` on exactly sized,
/// slightly short and boundary-sized buffers. Oracle: accepted => the addressed
/// element/bit range lies inside the buffer and the content rule of the type holds
/// (monotone non-negative offsets; strictly increasing positive run ends covering the range).
fn buffers_case(ctx: &mut Ctx, rng: &mut Rng) {
    use arrow_buffer::BooleanBuffer;
    // ---- bit range
    let nbytes = rng.below(12);
    let buf = abuf(&rng.bytes(nbytes));
    let total_bits = nbytes * 8;
    // offsets/lengths around the end of the buffer
    let off = rng.below(total_bits + 10);
    let len = match rng.below(3) {
        0 => total_bits.saturating_sub(off) + rng.below(10),
        1 => total_bits.saturating_sub(off).saturating_sub(rng.below(3)),
        _ => rng.below(total_bits + 12),
    };
    let r = guard(|| BooleanBuffer::new(buf.clone(), off, len));
    ctx.eval();
    let fits = off.checked_add(len).map(|e| e <= total_bits).unwrap_or(false);
    match r {
        Ok(b) => {
            if !fits {
                ctx.violation(
                    "C09|BooleanBuffer::new|accepted-range-outside-buffer",
                    format!("BooleanBuffer::new(buffer of {nbytes} bytes, bit offset {off}, bit len {len}) was accepted although offset + len = {} bits > {total_bits}", off + len),
                );
            } else {
                // accepted and inside: NullBuffer::new must count nulls exactly
                let n = NullBuffer::new(b.clone());
                let zeros = (0..len).filter(|i| buf.as_slice()[(off + i) / 8] & (1 << ((off + i) % 8)) == 0).count();
                if n.null_count() != zeros {
                    ctx.violation("C09|NullBuffer::new|wrong-null-count", format!("offset {off} len {len}: null_count {} but {zeros} unset bits", n.null_count()));
                }
                ctx.class(format!("buffers|bool|fits|off%8={}|len%8={}", off % 8, len % 8));
            }
        }
        Err(_) => {
            ctx.class(format!("buffers|bool|rejected|{}", if fits { "over-strict" } else { "outside" }));
        }
    }
    // ---- scalar range
    let w = *rng.pick(&[2usize, 4, 8, 16]);
    let nb = rng.below(10) * w + *rng.pick(&[0usize, 0, 1, w - 1]);
    let sbuf = abuf(&rng.bytes(nb));
    let eoff = rng.below(nb / w + 3);
    let elen = rng.below(nb / w + 3);
    let inside = (eoff + elen) * w <= nb;
    macro_rules! scalar {
        ($t:ty) => {{
            let r = guard(|| ScalarBuffer::<$t>::new(sbuf.clone(), eoff, elen));
            if let Ok(sb) = r {
                if !inside || sb.len() != elen {
                    ctx.violation("C09|ScalarBuffer::new|accepted-range-outside-buffer", format!("ScalarBuffer::<{}>::new(buffer of {nb} bytes, offset {eoff}, len {elen}) accepted", stringify!($t)));
                } else {
                    ctx.class(format!("buffers|scalar{}|fits", w));
                }
            } else {
                ctx.class(format!("buffers|scalar{}|rejected", w));
            }
        }};
    }
    ctx.eval();
    match w {
        2 => scalar!(i16),
        4 => scalar!(i32),
        8 => scalar!(i64),
        _ => scalar!(i128),
    }
    // ---- offsets and run ends with one element out of order
    let n = 1 + rng.below(8);
    let mut offs: Vec<i32> = Vec::with_capacity(n);
    let mut cur = rng.below(3) as i32;
    for _ in 0..n {
        offs.push(cur);
        cur += rng.below(4) as i32;
    }
    let bad = rng.chance(1, 2);
    if bad {
        let k = rng.below(n);
        offs[k] = *rng.pick(&[-1, offs[k] - 5, i32::MIN]);
    }
    let mono = offs.windows(2).all(|w| w[0] <= w[1]) && offs[0] >= 0;
    let o2 = offs.clone();
    ctx.eval();
    if guard(move || OffsetBuffer::new(ScalarBuffer::from(o2))).is_ok() {
        if !mono {
            ctx.violation("C09|OffsetBuffer::new|accepted-non-monotone-or-negative", format!("offsets {offs:?} accepted"));
        } else {
            ctx.class("buffers|offsets|accepted".to_string());
        }
    } else {
        ctx.class(format!("buffers|offsets|rejected|{}", if mono { "over-strict" } else { "bad" }));
    }
    let mut ends: Vec<i32> = Vec::with_capacity(n);
    let mut cur = 0i32;
    for _ in 0..n {
        cur += 1 + rng.below(4) as i32;
        ends.push(cur);
    }
    if rng.chance(1, 2) {
        let k = rng.below(n);
        ends[k] = *rng.pick(&[0, -3, if k > 0 { ends[k - 1] } else { 0 }, ends[k] - 10]);
    }
    let last = *ends.last().unwrap();
    let lo = rng.below(last.max(0) as usize + 3);
    let ll = rng.below(last.max(0) as usize + 3);
    // a zero-length logical range addresses no run: positivity / coverage are
    // then not needed for accessor safety (lenient), only strict monotonicity
    let ok_ends = ends.windows(2).all(|w| w[0] < w[1]) && (ll == 0 || (ends[0] > 0 && (lo + ll) as i64 <= last as i64));
    let e2 = ends.clone();
    ctx.eval();
    if guard(move || RunEndBuffer::new(ScalarBuffer::from(e2), lo, ll)).is_ok() {
        if !ok_ends {
            ctx.violation("C09|RunEndBuffer::new|accepted-invalid-run-ends", format!("run ends {ends:?} with logical offset {lo} len {ll} accepted"));
        } else {
            ctx.class("buffers|runends|accepted".to_string());
        }
    } else {
        ctx.class(format!("buffers|runends|rejected|{}", if ok_ends { "over-strict" } else { "bad" }));
    }
}

pub fn run(ctx: &mut Ctx) {
    let nbuf = ctx.tier.pick(200u64, 200_000, 6_000_000);
    for i in ctx.cases("buffers", nbuf) {
        if ctx.out_of_time() {
            break;
        }
        let mut rng = ctx.begin("buffers", i);
        buffers_case(ctx, &mut rng);
    }
    let total = ctx.tier.pick(60u64, 60_000, 2_000_000);
    for i in ctx.cases("layout", total) {
        if ctx.out_of_time() {
            break;
        }
        let mut rng = ctx.begin("layout", i);
        let cfg = TypeCfg::all().depth(2);
        let dt = gen_type(&mut rng, &cfg);
        let n = 1 + rng.below(24);
        let vals = gen_column(&mut rng, &dt, n, true, &cfg);
        let arr = match guard(|| realise(&mut rng.fork(), &dt, &vals)) {
            Ok(a) => a,
            Err(p) => {
                ctx.inconclusive(&format!("realise panicked: {} @ {}", p.msg, p.loc));
                continue;
            }
        };
        let root = arr.to_data();
        // choose a node: random descent
        let mut path: Vec<usize> = Vec::new();
        {
            let mut node = &root;
            while !node.child_data().is_empty() && rng.chance(1, 2) {
                let c = rng.below(node.child_data().len());
                path.push(c);
                node = &node.child_data()[c];
            }
        }
        let node = node_at(&root, &path).clone();
        let mut p = parts_of(&node);
        let Some(mutation) = mutate(&mut rng, &mut p) else {
            continue;
        };
        ctx.eval();
        let tclass = type_class(node.data_type());
        let mclass: String = mutation.split(&[' ', '['][..]).take(2).collect::<Vec<_>>().join("_");
        let detail = || {
            format!(
                "root type: {dt}\nmutated node path {path:?} type {}\nlogical column: {}\nnode len {} offset {} buffers {:?} children {:?}",
                node.data_type(),
                dump_vals(&vals),
                p.len,
                p.offset,
                p.buffers.iter().map(|b| b.len()).collect::<Vec<_>>(),
                p.children.iter().map(|c| (c.data_type().to_string(), c.len())).collect::<Vec<_>>()
            )
        };
        let mut accepted_any = false;
        for (entry, v) in entry_points(&p) {
            match v {
                Verdict::Rejected => {}
                Verdict::Accepted(d) => {
                    accepted_any = true;
                    check_accepted(ctx, entry, &d, &tclass, &mutation, &detail);
                    // the whole tree with the accepted node in place must validate too
                    if !path.is_empty() {
                        let whole = rebuild(&root, &path, d.clone());
                        if let Ok(Ok(())) = guard(|| whole.validate_full()) {
                            check_accepted(ctx, "validate_full(tree)", &whole, &tclass, &mutation, &detail);
                        }
                    }
                }
            }
        }
        typed_constructors(ctx, &p, &mutation, &detail);
        ctx.class(format!("{tclass}|{mclass}|{}", if accepted_any { "accepted" } else { "rejected" }));
        ctx.count(if accepted_any { "accepted" } else { "rejected" }, 1);
        ctx.sample(|| format!("{} :: {mutation} :: {}", node.data_type(), if accepted_any { "accepted (validator agreed)" } else { "rejected" }));
    }
}
