//! C10 — one total order: `make_comparator`, `sort*`, `lexsort*`, `rank`,
//! `partition` and the comparison kernels agree with each other and with a
//! reference order on the logical value model.
//!
//! Sections
//!   cmp   comparator laws (reflexive / antisymmetric / transitive), Equal <=> logical
//!         equality, comparator == model order, same-array and cross-array
//!   sort  sort_to_indices / sort / sort_limit / single-column lexsort_to_indices,
//!         all options, limits 0..=n+1; partition_validity
//!   lex   lexsort_to_indices / lexsort / LexicographicalComparator /
//!         FixedLexicographicalComparator<2..=5>, 1..=6 columns (heap path for
//!         limit <= n/10, partial-sort path otherwise)
//!   rank  rank[i] == #{j : cmp(j,i) != Greater}
//!   part  partition boundaries == adjacent rows that differ on some column
//!   kern  eq/neq/lt/lt_eq/gt/gt_eq/distinct/not_distinct, array/scalar operands,
//!         plain / dictionary / run-end encodings
//!   inl   in_list / in_list_utf8
//!
//! not asserted:
//!   * order among ties (sorts are documented unstable); which of several equal
//!     rows is kept under a limit
//!   * the physical layout of the results (only logical content through `extract`,
//!     and that the result array is a valid array of the input's data type)
//!   * `in_list` on float element types when a NaN or a zero of either sign is
//!     involved: the kernel lives in a `#[doc(hidden)]` module, documents no float
//!     semantics and uses IEEE `==`; such rows are counted (`inl_float_ieee_rows`)
//!     but not judged
//!   * comparison kernels on nested operands: documented as not supported (Err
//!     "Nested comparison" is a rejection)
//!   * `Err` outcomes whose message says not supported / no natural order
//!
//! The reference order (`model_cmp`) is the rule `make_comparator` documents:
//! a (logically) null slot goes first/last according to `nulls_first`
//! independent of `descending`; non-null values compare by their natural order
//! (integers numerically, floats by IEEE totalOrder on the bit pattern, bytes
//! and strings byte-lexicographically, intervals field by field as the
//! `arrow-buffer` docs say, lists element-wise with the shorter prefix first,
//! structs field by field, unions by type id then by value) reversed as a whole
//! when `descending`; nulls nested inside a value are placed by
//! `nulls_first != descending` before that reversal (the `child_opts` rule), so
//! that in the final order they also obey `nulls_first`.

use crate::build::realise;
use crate::extract::extract;
use crate::gens::{self, TypeCfg, gen_column, gen_type, type_class};
use crate::mon::{Ctx, PanicInfo, guard, is_rejection_msg};
use crate::rng::Rng;
use crate::val::{Val, dump_vals};
use crate::validate::check_array;
use arrow_array::cast::AsArray;
use arrow_array::types::*;
use arrow_array::{Array, ArrayRef, BooleanArray, Datum, Scalar, UInt32Array};
use arrow_ord::cmp as k;
use arrow_ord::comparison::{in_list, in_list_utf8};
use arrow_ord::ord::make_comparator;
use arrow_ord::partition::partition;
use arrow_ord::rank::rank;
use arrow_ord::sort::{
    FixedLexicographicalComparator, LexicographicalComparator, SortColumn, lexsort,
    lexsort_to_indices, partition_validity, sort, sort_limit, sort_to_indices,
};
use arrow_schema::{ArrowError, DataType, Field, SortOptions};
use std::cmp::Ordering;
use std::sync::Arc;

// ------------------------------------------------------------------ model

/// How a union slot whose selected child value is null is treated.
#[derive(Clone, Copy, PartialEq, Eq, Debug)]
pub enum UnionRule {
    /// `make_comparator`: it is a null slot (`logical_nulls`), whatever its type id
    LogicalNull,
    /// arrow-row: a union has no null of its own; type id first, then the child
    TypeIdFirst,
}

pub const OPTS: [SortOptions; 4] = [
    SortOptions {
        descending: false,
        nulls_first: true,
    },
    SortOptions {
        descending: false,
        nulls_first: false,
    },
    SortOptions {
        descending: true,
        nulls_first: true,
    },
    SortOptions {
        descending: true,
        nulls_first: false,
    },
];

pub fn oname(o: SortOptions) -> &'static str {
    match (o.descending, o.nulls_first) {
        (false, true) => "asc,nf",
        (false, false) => "asc,nl",
        (true, true) => "desc,nf",
        (true, false) => "desc,nl",
    }
}

pub fn is_null_under(v: &Val, rule: UnionRule) -> bool {
    match v {
        Val::Null => true,
        Val::Union(_, x) => rule == UnionRule::LogicalNull && is_null_under(x, rule),
        _ => false,
    }
}

/// Canonical representative of the equivalence class "compares Equal".
pub fn norm(v: &Val, rule: UnionRule) -> Val {
    if is_null_under(v, rule) {
        return Val::Null;
    }
    match v {
        Val::List(xs) => Val::List(xs.iter().map(|x| norm(x, rule)).collect()),
        Val::Struct(xs) => Val::Struct(xs.iter().map(|x| norm(x, rule)).collect()),
        Val::Union(t, x) => Val::Union(*t, Box::new(norm(x, rule))),
        o => o.clone(),
    }
}

#[inline]
fn fkey64(b: u64) -> u64 {
    if b >> 63 == 1 { !b } else { b | (1 << 63) }
}
#[inline]
fn fkey32(b: u32) -> u32 {
    if b >> 31 == 1 { !b } else { b | (1 << 31) }
}
#[inline]
fn fkey16(b: u16) -> u16 {
    if b >> 15 == 1 { !b } else { b | (1 << 15) }
}

/// Reference order of two slots of a column of type `dt` under `opts`.
pub fn model_cmp(dt: &DataType, a: &Val, b: &Val, opts: SortOptions, rule: UnionRule) -> Ordering {
    match (is_null_under(a, rule), is_null_under(b, rule)) {
        (true, true) => Ordering::Equal,
        (true, false) => {
            if opts.nulls_first {
                Ordering::Less
            } else {
                Ordering::Greater
            }
        }
        (false, true) => {
            if opts.nulls_first {
                Ordering::Greater
            } else {
                Ordering::Less
            }
        }
        (false, false) => {
            let o = natural(dt, a, b, opts.nulls_first != opts.descending, rule);
            if opts.descending { o.reverse() } else { o }
        }
    }
}

/// Ascending order of two non-null values; nested nulls first iff `nf`.
pub fn natural(dt: &DataType, a: &Val, b: &Val, nf: bool, rule: UnionRule) -> Ordering {
    use DataType::*;
    let co = SortOptions {
        descending: false,
        nulls_first: nf,
    };
    match (dt, a, b) {
        (Dictionary(_, v), _, _) => natural(v, a, b, nf, rule),
        (RunEndEncoded(_, v), _, _) => natural(v.data_type(), a, b, nf, rule),
        (_, Val::Bool(x), Val::Bool(y)) => x.cmp(y),
        (_, Val::Int(x), Val::Int(y)) => x.cmp(y),
        (_, Val::Big(x), Val::Big(y)) => x.cmp(y),
        (_, Val::F16(x), Val::F16(y)) => fkey16(*x).cmp(&fkey16(*y)),
        (_, Val::F32(x), Val::F32(y)) => fkey32(*x).cmp(&fkey32(*y)),
        (_, Val::F64(x), Val::F64(y)) => fkey64(*x).cmp(&fkey64(*y)),
        (_, Val::Bytes(x), Val::Bytes(y)) => x.as_slice().cmp(y.as_slice()),
        (_, Val::Str(x), Val::Str(y)) => x.as_bytes().cmp(y.as_bytes()),
        (_, Val::IntervalDT(d1, m1), Val::IntervalDT(d2, m2)) => (d1, m1).cmp(&(d2, m2)),
        (_, Val::IntervalMDN(m1, d1, n1), Val::IntervalMDN(m2, d2, n2)) => {
            (m1, d1, n1).cmp(&(m2, d2, n2))
        }
        (
            List(f) | LargeList(f) | ListView(f) | LargeListView(f) | FixedSizeList(f, _) | Map(f, _),
            Val::List(xs),
            Val::List(ys),
        ) => {
            for (x, y) in xs.iter().zip(ys.iter()) {
                match model_cmp(f.data_type(), x, y, co, rule) {
                    Ordering::Equal => {}
                    o => return o,
                }
            }
            xs.len().cmp(&ys.len())
        }
        (Struct(fs), Val::Struct(xs), Val::Struct(ys)) => {
            for ((f, x), y) in fs.iter().zip(xs.iter()).zip(ys.iter()) {
                match model_cmp(f.data_type(), x, y, co, rule) {
                    Ordering::Equal => {}
                    o => return o,
                }
            }
            Ordering::Equal
        }
        (Union(ufs, _), Val::Union(t1, x), Val::Union(t2, y)) => match t1.cmp(t2) {
            Ordering::Equal => {
                let f = ufs
                    .iter()
                    .find(|(t, _)| t == t1)
                    .map(|(_, f)| f.clone())
                    .unwrap_or_else(|| panic!("model: union type id {t1} not in {dt}"));
                model_cmp(f.data_type(), x, y, co, rule)
            }
            o => o,
        },
        _ => panic!("model: natural order undefined for {dt}: {a:?} vs {b:?}"),
    }
}

/// Tuple order over several columns (row `i` of table x vs row `j` of table y).
pub fn model_cmp_rows(
    dts: &[DataType],
    opts: &[SortOptions],
    x: &[Vec<Val>],
    i: usize,
    y: &[Vec<Val>],
    j: usize,
    rule: UnionRule,
) -> Ordering {
    for c in 0..dts.len() {
        match model_cmp(&dts[c], &x[c][i], &y[c][j], opts[c], rule) {
            Ordering::Equal => {}
            o => return o,
        }
    }
    Ordering::Equal
}

/// Coarse, signature-safe name of a type (top-level constructor only).
pub fn kind(dt: &DataType) -> String {
    use DataType::*;
    if has_zero_width(dt) {
        // one class: arrays whose length is not recoverable from their buffers
        return "zero-width".to_string();
    }
    let top = |d: &DataType| -> String {
        match d {
            Timestamp(_, _) => "Timestamp".into(),
            Time32(_) => "Time32".into(),
            Time64(_) => "Time64".into(),
            Duration(_) => "Duration".into(),
            Interval(u) => format!("Interval{u:?}"),
            Decimal32(_, _) => "Decimal32".into(),
            Decimal64(_, _) => "Decimal64".into(),
            Decimal128(_, _) => "Decimal128".into(),
            Decimal256(_, _) => "Decimal256".into(),
            FixedSizeBinary(_) => "FSB".into(),
            List(_) => "List".into(),
            LargeList(_) => "LargeList".into(),
            ListView(_) => "ListView".into(),
            LargeListView(_) => "LargeListView".into(),
            FixedSizeList(_, _) => "FSL".into(),
            Struct(_) => "Struct".into(),
            Map(_, _) => "Map".into(),
            Union(_, _) => "Union".into(),
            Dictionary(_, _) => "Dict".into(),
            RunEndEncoded(_, _) => "REE".into(),
            o => format!("{o:?}"),
        }
    };
    let mut s = match dt {
        Dictionary(_, v) => format!("Dict<{}>", top(v)),
        RunEndEncoded(_, v) => format!("REE<{}>", top(v.data_type())),
        o => top(o),
    };
    if dt.is_nested() && !matches!(dt, Union(_, _)) && contains(dt, &|d| matches!(d, Union(_, _))) {
        s.push_str("+union");
    }
    s
}

/// contains FixedSizeBinary(0) or a FixedSizeList of size 0 (arrays whose length
/// cannot be derived from their buffers)
pub fn has_zero_width(dt: &DataType) -> bool {
    contains(dt, &|d| matches!(d, DataType::FixedSizeBinary(0) | DataType::FixedSizeList(_, 0)))
}

/// `gen_type`, with zero-width types drawn less often (they are all affected by
/// one known `take` defect, which would otherwise dominate the run)
pub fn gen_type_zw(rng: &mut Rng, cfg: &TypeCfg) -> DataType {
    loop {
        let dt = gen_type(rng, cfg);
        if has_zero_width(&dt) && rng.chance(4, 5) {
            continue;
        }
        return dt;
    }
}

pub fn contains(dt: &DataType, p: &dyn Fn(&DataType) -> bool) -> bool {
    use DataType::*;
    if p(dt) {
        return true;
    }
    match dt {
        List(f) | LargeList(f) | ListView(f) | LargeListView(f) | FixedSizeList(f, _) | Map(f, _) => {
            contains(f.data_type(), p)
        }
        Struct(fs) => fs.iter().any(|f| contains(f.data_type(), p)),
        Union(ufs, _) => ufs.iter().any(|(_, f)| contains(f.data_type(), p)),
        Dictionary(_, v) => contains(v, p),
        RunEndEncoded(_, v) => contains(v.data_type(), p),
        _ => false,
    }
}

/// signature tag of a set of columns
pub fn cols_tag(dts: &[DataType]) -> String {
    if dts.iter().any(has_zero_width) {
        return "zero-width".to_string();
    }
    let mut s = if dts.iter().any(|d| d.is_nested()) { "nested".to_string() } else { "flat".to_string() };
    if dts.iter().any(|d| contains(d, &|x| matches!(x, DataType::Union(_, _)))) {
        s.push_str("+union");
    }
    s
}

/// class string for evidence: full type class when short, coarse kind otherwise
pub fn tclass(dt: &DataType) -> String {
    let s = type_class(dt);
    if s.len() <= 36 { s } else { kind(dt) }
}

fn is_unsupported(msg: &str) -> bool {
    is_rejection_msg(msg) || msg.contains("no natural order") || msg.contains("Nested comparison")
}

/// One nullable value of the type.
pub fn gen_one(rng: &mut Rng, dt: &DataType, cfg: &TypeCfg) -> Val {
    gen_column(rng, dt, 1, true, cfg).pop().unwrap()
}

/// outcome of a guarded check
enum Chk {
    Held,
    Reject,
    /// (signature suffix, detail)
    Viol(String, String),
}

fn report(ctx: &mut Ctx, op: &str, r: Result<Chk, PanicInfo>, dt_sig: &str, detail: impl Fn() -> String) -> &'static str {
    match r {
        Ok(Chk::Held) => "ok",
        Ok(Chk::Reject) => {
            ctx.reject();
            "reject"
        }
        Ok(Chk::Viol(s, d)) => {
            ctx.violation(&format!("C10|{op}|{dt_sig}|{s}"), format!("{d}\n{}", detail()));
            "viol"
        }
        Err(p) => {
            if p.is_model() {
                ctx.inconclusive(&format!("model panic in {op}: {} @ {}", p.msg, p.loc));
                "inconclusive"
            } else if p.is_rejection() {
                ctx.reject();
                "reject"
            } else {
                ctx.panic_violation(&format!("{op}|{dt_sig}"), &p, detail());
                "panic"
            }
        }
    }
}

fn safe_realise(ctx: &mut Ctx, rng: &mut Rng, dt: &DataType, vals: &[Val]) -> Option<ArrayRef> {
    match guard(|| realise(rng, dt, vals)) {
        Ok(a) => Some(a),
        Err(p) => {
            ctx.inconclusive(&format!("realise {dt}: {} @ {}", p.msg, p.loc));
            None
        }
    }
}

/// Wall-clock share of one section (only bounds exploration: a section that
/// runs slowly must not starve the sections after it).
pub struct Slice {
    start: std::time::Instant,
    budget: std::time::Duration,
}

impl Slice {
    pub fn new(ctx: &Ctx, share: f64) -> Slice {
        let whole = ctx.tier.pick(30.0, 52.0, 840.0);
        Slice {
            start: std::time::Instant::now(),
            budget: std::time::Duration::from_secs_f64(whole * share),
        }
    }
    pub fn over(&self) -> bool {
        self.start.elapsed() > self.budget
    }
}

type Cmp<'a> = &'a dyn Fn(usize, usize) -> Ordering;

/// A sort result (indices) against the order `cmp` over `n` rows.
pub fn check_indices(idx: &[u32], n: usize, limit: Option<usize>, cmp: Cmp) -> Result<(), (String, String)> {
    let want = limit.unwrap_or(n).min(n);
    if idx.len() != want {
        return Err((
            "length".into(),
            format!("{} indices returned, expected min(limit,n)={want} (n={n}, limit={limit:?})", idx.len()),
        ));
    }
    let mut seen = vec![false; n];
    for &i in idx {
        let i = i as usize;
        if i >= n {
            return Err(("index-out-of-range".into(), format!("index {i} >= n={n}; indices {idx:?}")));
        }
        if seen[i] {
            return Err(("duplicate-index".into(), format!("index {i} twice; indices {:?}", short(idx))));
        }
        seen[i] = true;
    }
    for w in 0..idx.len().saturating_sub(1) {
        if cmp(idx[w] as usize, idx[w + 1] as usize) == Ordering::Greater {
            return Err((
                "not-sorted".into(),
                format!(
                    "position {w}: row {} > row {} under the comparator; indices {:?}",
                    idx[w],
                    idx[w + 1],
                    short(idx)
                ),
            ));
        }
    }
    if let Some(&last) = idx.last() {
        for r in 0..n {
            if !seen[r] && cmp(last as usize, r) == Ordering::Greater {
                return Err((
                    "limit-dropped-smaller-row".into(),
                    format!(
                        "omitted row {r} sorts before the last kept row {last}; indices {:?}",
                        short(idx)
                    ),
                ));
            }
        }
    }
    Ok(())
}

fn short(idx: &[u32]) -> Vec<u32> {
    idx.iter().copied().take(60).collect()
}

fn idx_vec(a: &UInt32Array) -> Result<Vec<u32>, (String, String)> {
    if a.null_count() != 0 {
        return Err(("null-index".into(), "index array has nulls".into()));
    }
    Ok(a.values().to_vec())
}

/// limits to try for n rows
fn limits(rng: &mut Rng, n: usize, nulls: usize) -> Vec<Option<usize>> {
    let mut v: Vec<Option<usize>> = vec![None];
    if n <= 10 {
        v.extend((0..=n + 1).map(Some));
    } else {
        let mut c = vec![0, 1, 2, n / 10, n / 10 + 1, n / 2, n - 1, n, n + 1, nulls, nulls + 1, nulls.saturating_sub(1)];
        c.push(rng.below(n + 2));
        c.push(rng.below(n + 2));
        c.sort();
        c.dedup();
        rng.shuffle(&mut c);
        c.truncate(6);
        v.extend(c.into_iter().map(Some));
    }
    v
}

// ------------------------------------------------------------------ cmp

fn sec_cmp(ctx: &mut Ctx) {
    let total = ctx.tier.pick(24, 60_000, 1_800_000);
    let slice = Slice::new(ctx, 0.2);
    for i in ctx.cases("cmp", total) {
        if ctx.out_of_time() || slice.over() {
            break;
        }
        let mut rng = ctx.begin("cmp", i);
        let depth = *rng.pick(&[0u32, 0, 1, 1, 2, 2, 3]);
        let cfg = TypeCfg::all().depth(depth);
        let dt = gen_type_zw(&mut rng, &cfg);
        let n = if rng.chance(1, 6) {
            rng.usize_in(25, 90)
        } else {
            rng.usize_in(0, 24)
        };
        let va = gen_column(&mut rng, &dt, n, true, &cfg);
        let m = rng.usize_in(0, 20);
        let vb: Vec<Val> = (0..m)
            .map(|_| {
                if !va.is_empty() && rng.chance(1, 2) {
                    rng.pick(&va).clone()
                } else {
                    gen_one(&mut rng, &dt, &cfg)
                }
            })
            .collect();
        // "prefix family" pairs for byte-like types: one side holds only short
        // (inline-able) values, the other side long values that extend them, so
        // that cross-array comparison has to go past a shared 4/12-byte prefix
        // (an all-inline array against one with data buffers)
        let (va, vb) = if matches!(dt, DataType::Utf8View | DataType::BinaryView | DataType::Utf8 | DataType::Binary | DataType::LargeUtf8 | DataType::LargeBinary) && rng.chance(1, 3) {
            let is_str = matches!(dt, DataType::Utf8View | DataType::Utf8 | DataType::LargeUtf8);
            let short: Vec<Val> = (0..n.max(1))
                .map(|_| {
                    let l = rng.usize_in(0, 12);
                    let s: String = (0..l).map(|_| *rng.pick(&['a', 'b', 'c', 'z'])).collect();
                    if is_str { Val::Str(s) } else { Val::Bytes(s.into_bytes()) }
                })
                .collect();
            let long: Vec<Val> = (0..m.max(1))
                .map(|_| {
                    let base = match rng.pick(&short) {
                        Val::Str(s) => s.clone(),
                        Val::Bytes(b) => String::from_utf8_lossy(b).into_owned(),
                        _ => String::new(),
                    };
                    let extra = rng.usize_in(0, 30);
                    let s: String = base.chars().chain((0..extra).map(|_| *rng.pick(&['a', 'b', 'c', 'z']))).collect();
                    if is_str { Val::Str(s) } else { Val::Bytes(s.into_bytes()) }
                })
                .collect();
            if rng.bool() { (short, long) } else { (long, short) }
        } else {
            (va, vb)
        };
        let n = va.len();
        let Some(a) = safe_realise(ctx, &mut rng, &dt, &va) else { continue };
        let Some(b) = safe_realise(ctx, &mut rng, &dt, &vb) else { continue };
        let ksig = kind(&dt);
        let mut any = false;
        for opts in OPTS {
            let mut r2 = rng.fork();
            let res = guard(|| cmp_case(&dt, &va, &vb, &a, &b, opts, &mut r2));
            let out = report(ctx, "make_comparator", res, &ksig, || {
                format!("type {dt}\nopts {opts:?}\na = {}\nb = {}", dump_vals(&va), dump_vals(&vb))
            });
            if out == "ok" && n > 0 {
                any = true;
                ctx.class(format!("cmp|{}|{}|{}", tclass(&dt), oname(opts), if n <= 24 { "all-pairs" } else { "sampled" }));
            }
        }
        if any {
            ctx.eval();
            ctx.sample(|| format!("cmp {dt}: {}", dump_vals(&va)));
        }
    }
}

fn cmp_case(
    dt: &DataType,
    va: &[Val],
    vb: &[Val],
    a: &ArrayRef,
    b: &ArrayRef,
    opts: SortOptions,
    rng: &mut Rng,
) -> Chk {
    let rule = UnionRule::LogicalNull;
    let c_aa = match make_comparator(a.as_ref(), a.as_ref(), opts) {
        Ok(c) => c,
        Err(e) => {
            let m = e.to_string();
            return if is_unsupported(&m) {
                Chk::Reject
            } else {
                Chk::Viol("Err".into(), format!("make_comparator(a,a) returned Err: {m}"))
            };
        }
    };
    let n = va.len();
    if n <= 24 {
        let mut mat = vec![Ordering::Equal; n * n];
        for i in 0..n {
            for j in 0..n {
                let got = c_aa(i, j);
                mat[i * n + j] = got;
                let want = model_cmp(dt, &va[i], &va[j], opts, rule);
                if got != want {
                    return Chk::Viol(
                        "model-mismatch".into(),
                        format!("cmp({i},{j}) = {got:?}, reference order says {want:?}: {:?} vs {:?}", va[i], va[j]),
                    );
                }
                let eq = norm(&va[i], rule) == norm(&va[j], rule);
                if (got == Ordering::Equal) != eq {
                    return Chk::Viol(
                        "equal-vs-logical-equality".into(),
                        format!("cmp({i},{j}) = {got:?} but logical equality is {eq}: {:?} vs {:?}", va[i], va[j]),
                    );
                }
            }
        }
        for i in 0..n {
            if mat[i * n + i] != Ordering::Equal {
                return Chk::Viol("not-reflexive".into(), format!("cmp({i},{i}) = {:?}", mat[i * n + i]));
            }
            for j in 0..n {
                if mat[i * n + j] != mat[j * n + i].reverse() {
                    return Chk::Viol(
                        "not-antisymmetric".into(),
                        format!("cmp({i},{j}) = {:?}, cmp({j},{i}) = {:?}", mat[i * n + j], mat[j * n + i]),
                    );
                }
            }
        }
        for i in 0..n {
            for j in 0..n {
                if mat[i * n + j] == Ordering::Greater {
                    continue;
                }
                for l in 0..n {
                    if mat[j * n + l] != Ordering::Greater && mat[i * n + l] == Ordering::Greater {
                        return Chk::Viol(
                            "not-transitive".into(),
                            format!("rows {i} <= {j} <= {l} but cmp({i},{l}) = Greater"),
                        );
                    }
                }
            }
        }
    } else {
        for _ in 0..1500 {
            let (i, j, l) = (rng.below(n), rng.below(n), rng.below(n));
            let got = c_aa(i, j);
            let want = model_cmp(dt, &va[i], &va[j], opts, rule);
            if got != want {
                return Chk::Viol(
                    "model-mismatch".into(),
                    format!("cmp({i},{j}) = {got:?}, reference order says {want:?}: {:?} vs {:?}", va[i], va[j]),
                );
            }
            if c_aa(j, i) != got.reverse() {
                return Chk::Viol("not-antisymmetric".into(), format!("cmp({i},{j}) = {got:?}, cmp({j},{i}) = {:?}", c_aa(j, i)));
            }
            if got != Ordering::Greater && c_aa(j, l) != Ordering::Greater && c_aa(i, l) == Ordering::Greater {
                return Chk::Viol("not-transitive".into(), format!("rows {i} <= {j} <= {l} but cmp({i},{l}) = Greater"));
            }
        }
    }
    // two different arrays
    let c_ab = match make_comparator(a.as_ref(), b.as_ref(), opts) {
        Ok(c) => c,
        Err(e) => return Chk::Viol("Err-cross".into(), format!("make_comparator(a,b) returned Err: {e}")),
    };
    let c_ba = match make_comparator(b.as_ref(), a.as_ref(), opts) {
        Ok(c) => c,
        Err(e) => return Chk::Viol("Err-cross".into(), format!("make_comparator(b,a) returned Err: {e}")),
    };
    let m = vb.len();
    let pairs: Vec<(usize, usize)> = if n * m <= 600 {
        (0..n).flat_map(|i| (0..m).map(move |j| (i, j))).collect()
    } else {
        (0..600).map(|_| (rng.below(n), rng.below(m))).collect()
    };
    for (i, j) in pairs {
        let got = c_ab(i, j);
        let want = model_cmp(dt, &va[i], &vb[j], opts, rule);
        if got != want {
            return Chk::Viol(
                "model-mismatch-cross".into(),
                format!("cmp(a[{i}],b[{j}]) = {got:?}, reference order says {want:?}: {:?} vs {:?}", va[i], vb[j]),
            );
        }
        let back = c_ba(j, i);
        if back != got.reverse() {
            return Chk::Viol(
                "not-antisymmetric-cross".into(),
                format!("cmp(a[{i}],b[{j}]) = {got:?} but cmp(b[{j}],a[{i}]) = {back:?}"),
            );
        }
    }
    Chk::Held
}

// ------------------------------------------------------------------ sort

fn sort_len(rng: &mut Rng, dt: &DataType) -> usize {
    let nested = dt.is_nested();
    match rng.below(12) {
        0..=4 => rng.usize_in(0, 24),
        5..=8 => rng.len_biased(if nested { 120 } else { 300 }),
        9 | 10 => {
            if nested {
                rng.usize_in(20, 200)
            } else {
                rng.usize_in(300, 1200)
            }
        }
        _ => {
            if nested {
                rng.usize_in(100, 300)
            } else {
                rng.usize_in(1200, 4000)
            }
        }
    }
}

/// indices 0..n sorted by the reference order (stable)
fn model_sorted(dt: &DataType, v: &[Val], opts: SortOptions) -> Vec<usize> {
    let mut idx: Vec<usize> = (0..v.len()).collect();
    idx.sort_by(|&i, &j| model_cmp(dt, &v[i], &v[j], opts, UnionRule::LogicalNull));
    idx
}

fn sec_sort(ctx: &mut Ctx) {
    let total = ctx.tier.pick(16, 18_000, 540_000);
    let slice = Slice::new(ctx, 0.2);
    for i in ctx.cases("sort", total) {
        if ctx.out_of_time() || slice.over() {
            break;
        }
        let mut rng = ctx.begin("sort", i);
        let depth = *rng.pick(&[0u32, 0, 0, 1, 1, 2]);
        let cfg = TypeCfg::all().depth(depth);
        let dt = gen_type_zw(&mut rng, &cfg);
        let n = sort_len(&mut rng, &dt);
        let va = gen_column(&mut rng, &dt, n, true, &cfg);
        let Some(a) = safe_realise(ctx, &mut rng, &dt, &va) else { continue };
        let ksig = kind(&dt);
        let nulls = va.iter().filter(|v| is_null_under(v, UnionRule::LogicalNull)).count();
        let mut any = false;
        // None == default options
        let mut optv: Vec<Option<SortOptions>> = OPTS.iter().map(|o| Some(*o)).collect();
        if rng.chance(1, 3) {
            optv.push(None);
        }
        for o in optv {
            let opts = o.unwrap_or_default();
            let lims = limits(&mut rng, n, nulls);
            let res = guard(|| sort_case(&dt, &va, &a, o, &lims));
            let (mut oks, mut rejs) = (0u64, 0u64);
            match res {
                Ok(v) => {
                    for (op, lim, c) in v {
                        let lc = match lim {
                            None => "nolimit",
                            Some(0) => "0",
                            Some(l) if l < n => "<n",
                            Some(l) if l == n => "=n",
                            _ => ">n",
                        };
                        match c {
                            Chk::Held => {
                                oks += 1;
                                if n > 0 {
                                    ctx.class(format!("{op}|{}|{}|{lc}|{}", kind(&dt), oname(opts), size_class(n)));
                                }
                            }
                            Chk::Reject => rejs += 1,
                            Chk::Viol(s, d) => ctx.violation(
                                &format!("C10|{op}|{ksig}|{s}"),
                                format!("{d}\ntype {dt}\noptions {o:?} limit {lim:?}\nvalues {}", dump_vals(&va)),
                            ),
                        }
                    }
                }
                Err(p) => {
                    report(ctx, "sort", Err(p), &ksig, || {
                        format!("type {dt}\noptions {o:?}\nvalues {}", dump_vals(&va))
                    });
                }
            }
            ctx.count("sort_ops_checked", oks);
            if rejs > 0 {
                ctx.reject();
                ctx.count("sort_ops_rejected", rejs);
            }
            any |= oks > 0;
        }
        if any {
            ctx.eval();
            ctx.sample(|| format!("sort {dt} n={n}: {}", dump_vals(&va)));
        }
    }
}

fn size_class(n: usize) -> &'static str {
    match n {
        0 => "n0",
        1..=20 => "n<=20",
        21..=64 => "n<=64",
        65..=300 => "n<=300",
        _ => "n>300",
    }
}

fn err_chk(op: &str, e: &ArrowError) -> Chk {
    let m = e.to_string();
    if is_unsupported(&m) {
        Chk::Reject
    } else {
        Chk::Viol("Err".into(), format!("{op} returned Err: {m}"))
    }
}

/// sorted values (array) against the reference-sorted prefix
fn check_sorted_values(
    out: &ArrayRef,
    dt: &DataType,
    va: &[Val],
    ms: &[usize],
    want_len: usize,
) -> Chk {
    if out.data_type() != dt {
        return Chk::Viol(
            "result-type".into(),
            format!("result has type {} for input type {dt}", out.data_type()),
        );
    }
    if let Err(e) = check_array(out.as_ref()) {
        return Chk::Viol("invalid-result".into(), format!("result array fails independent validation: {e}"));
    }
    let got = extract(out.as_ref());
    if got.len() != want_len {
        return Chk::Viol("length".into(), format!("{} rows returned, expected {want_len}", got.len()));
    }
    let rule = UnionRule::LogicalNull;
    for k in 0..want_len {
        let w = norm(&va[ms[k]], rule);
        let g = norm(&got[k], rule);
        if w != g {
            return Chk::Viol(
                "values".into(),
                format!("position {k}: got {g:?}, the reference-sorted input has {w:?}\nresult {}", dump_vals(&got)),
            );
        }
    }
    Chk::Held
}

fn sort_case(
    dt: &DataType,
    va: &[Val],
    a: &ArrayRef,
    o: Option<SortOptions>,
    lims: &[Option<usize>],
) -> Vec<(&'static str, Option<usize>, Chk)> {
    let opts = o.unwrap_or_default();
    let n = va.len();
    let mut out: Vec<(&'static str, Option<usize>, Chk)> = Vec::new();
    let cmp = match make_comparator(a.as_ref(), a.as_ref(), opts) {
        Ok(c) => c,
        Err(e) => {
            out.push(("make_comparator", None, err_chk("make_comparator", &e)));
            return out;
        }
    };
    // partition_validity: the two index lists are exactly the (physically) valid / null rows, ascending
    {
        let (valid, nulls) = partition_validity(a.as_ref());
        let want_valid: Vec<u32> = (0..n as u32).filter(|&i| a.is_valid(i as usize)).collect();
        let want_nulls: Vec<u32> = (0..n as u32).filter(|&i| a.is_null(i as usize)).collect();
        let c = if valid != want_valid || nulls != want_nulls {
            Chk::Viol(
                "partition".into(),
                format!("partition_validity = ({:?}, {:?}), validity bitmap says ({:?}, {:?})", short(&valid), short(&nulls), short(&want_valid), short(&want_nulls)),
            )
        } else {
            Chk::Held
        };
        out.push(("partition_validity", None, c));
    }
    // the comparator agrees with the reference order along the reference-sorted sequence
    let ms = model_sorted(dt, va, opts);
    for w in ms.windows(2) {
        let got = cmp(w[0], w[1]);
        let want = model_cmp(dt, &va[w[0]], &va[w[1]], opts, UnionRule::LogicalNull);
        if got != want {
            out.push((
                "make_comparator",
                None,
                Chk::Viol(
                    "model-mismatch".into(),
                    format!("cmp({},{}) = {got:?}, reference order says {want:?}: {:?} vs {:?}", w[0], w[1], va[w[0]], va[w[1]]),
                ),
            ));
            return out;
        }
    }
    for &lim in lims {
        let want_len = lim.unwrap_or(n).min(n);
        // sort_to_indices
        let c = match sort_to_indices(a.as_ref(), o, lim) {
            Ok(ix) => match idx_vec(&ix).and_then(|v| check_indices(&v, n, lim, &*cmp)) {
                Ok(()) => Chk::Held,
                Err((s, d)) => Chk::Viol(s, d),
            },
            Err(e) => err_chk("sort_to_indices", &e),
        };
        out.push(("sort_to_indices", lim, c));
        // single-column lexsort
        let col = [SortColumn {
            values: a.clone(),
            options: o,
        }];
        let c = match lexsort_to_indices(&col, lim) {
            Ok(ix) => match idx_vec(&ix).and_then(|v| check_indices(&v, n, lim, &*cmp)) {
                Ok(()) => Chk::Held,
                Err((s, d)) => Chk::Viol(s, d),
            },
            Err(e) => err_chk("lexsort_to_indices", &e),
        };
        out.push(("lexsort_to_indices/1", lim, c));
        // sort_limit
        let c = match sort_limit(a.as_ref(), o, lim) {
            Ok(arr) => check_sorted_values(&arr, dt, va, &ms, want_len),
            Err(e) => err_chk("sort_limit", &e),
        };
        out.push(("sort_limit", lim, c));
        if lim.is_none() {
            let c = match sort(a.as_ref(), o) {
                Ok(arr) => check_sorted_values(&arr, dt, va, &ms, n),
                Err(e) => err_chk("sort", &e),
            };
            out.push(("sort", lim, c));
        }
    }
    out
}

// ------------------------------------------------------------------ lexsort

/// column with many ties: values drawn from a small pool
fn gen_tie_column(rng: &mut Rng, dt: &DataType, n: usize, cfg: &TypeCfg) -> Vec<Val> {
    let k = *rng.pick(&[1usize, 2, 2, 3, 4, 8]);
    let pool: Vec<Val> = (0..k).map(|_| gen_one(rng, dt, cfg)).collect();
    (0..n).map(|_| rng.pick(&pool).clone()).collect()
}

fn sec_lex(ctx: &mut Ctx) {
    let total = ctx.tier.pick(16, 22_000, 660_000);
    let slice = Slice::new(ctx, 0.2);
    for i in ctx.cases("lex", total) {
        if ctx.out_of_time() || slice.over() {
            break;
        }
        let mut rng = ctx.begin("lex", i);
        let ncols = *rng.pick(&[1usize, 2, 2, 3, 3, 4, 4, 5, 5, 6]);
        let big = rng.chance(1, 10);
        let n = if big {
            rng.usize_in(100, 1500)
        } else if rng.chance(1, 2) {
            rng.usize_in(0, 24)
        } else {
            rng.len_biased(150)
        };
        let mut dts = Vec::new();
        let mut opts = Vec::new();
        let mut cols: Vec<Vec<Val>> = Vec::new();
        let mut arrs: Vec<ArrayRef> = Vec::new();
        let mut ok = true;
        for c in 0..ncols {
            let depth = if big { 0 } else { *rng.pick(&[0u32, 0, 0, 1, 1, 2]) };
            let cfg = TypeCfg::all().depth(depth);
            let dt = gen_type_zw(&mut rng, &cfg);
            let v = if c + 1 < ncols && rng.chance(3, 4) {
                gen_tie_column(&mut rng, &dt, n, &cfg)
            } else {
                gen_column(&mut rng, &dt, n, true, &cfg)
            };
            let Some(a) = safe_realise(ctx, &mut rng, &dt, &v) else {
                ok = false;
                break;
            };
            opts.push(if rng.chance(1, 8) { None } else { Some(*rng.pick(&OPTS)) });
            dts.push(dt);
            cols.push(v);
            arrs.push(a);
        }
        if !ok {
            continue;
        }
        let lims: Vec<Option<usize>> = {
            let mut l = limits(&mut rng, n, 0);
            if n >= 20 {
                // heap path: limit <= n/10
                l.push(Some(1 + rng.below(n / 10)));
            }
            l
        };
        let ksig = cols_tag(&dts);
        let mut r2 = rng.fork();
        let res = guard(|| lex_case(&dts, &opts, &cols, &arrs, &lims, &mut r2));
        let detail = || {
            let mut s = String::new();
            for c in 0..ncols {
                s.push_str(&format!("col{c}: {} {:?} {}\n", dts[c], opts[c], dump_vals(&cols[c])));
            }
            s
        };
        match res {
            Ok(v) => {
                let mut oks = 0;
                for (op, lim, c) in v {
                    match c {
                        Chk::Held => {
                            oks += 1;
                            if n > 0 {
                                let lc = match lim {
                                    None => "nolimit",
                                    Some(l) if l * 10 <= n => "heap",
                                    Some(l) if l < n => "<n",
                                    _ => ">=n",
                                };
                                ctx.class(format!("{op}|cols{}|{lc}|{}", dts.len(), size_class(n)));
                                for (d, o) in dts.iter().zip(opts.iter()) {
                                    ctx.class(format!("lexcol|{}|{}", kind(d), o.map(oname).unwrap_or("default")));
                                }
                            }
                        }
                        Chk::Reject => ctx.reject(),
                        Chk::Viol(s, d) => ctx.violation(&format!("C10|{op}|{ksig}|{s}"), format!("{d}\nlimit {lim:?}\n{}", detail())),
                    }
                }
                if oks > 0 {
                    ctx.eval();
                    ctx.count("lex_ops_checked", oks);
                    ctx.sample(|| format!("lex n={n}\n{}", detail()));
                }
            }
            Err(p) => {
                report(ctx, "lexsort", Err(p), &ksig, detail);
            }
        }
    }
}

fn lex_case(
    dts: &[DataType],
    opts: &[Option<SortOptions>],
    cols: &[Vec<Val>],
    arrs: &[ArrayRef],
    lims: &[Option<usize>],
    rng: &mut Rng,
) -> Vec<(&'static str, Option<usize>, Chk)> {
    let n = cols[0].len();
    let rule = UnionRule::LogicalNull;
    let mut out: Vec<(&'static str, Option<usize>, Chk)> = Vec::new();
    let eff: Vec<SortOptions> = opts.iter().map(|o| o.unwrap_or_default()).collect();
    let mut cmps = Vec::new();
    for (a, o) in arrs.iter().zip(eff.iter()) {
        match make_comparator(a.as_ref(), a.as_ref(), *o) {
            Ok(c) => cmps.push(c),
            Err(e) => {
                out.push(("make_comparator", None, err_chk("make_comparator", &e)));
                return out;
            }
        }
    }
    let tuple = |i: usize, j: usize| -> Ordering {
        for c in &cmps {
            match c(i, j) {
                Ordering::Equal => {}
                o => return o,
            }
        }
        Ordering::Equal
    };
    let sc: Vec<SortColumn> = arrs
        .iter()
        .zip(opts.iter())
        .map(|(a, o)| SortColumn {
            values: a.clone(),
            options: *o,
        })
        .collect();
    // LexicographicalComparator == tuple of comparators == reference tuple order
    match LexicographicalComparator::try_new(&sc) {
        Ok(lc) => {
            let mut c = Chk::Held;
            let pairs: Vec<(usize, usize)> = if n <= 20 {
                (0..n).flat_map(|i| (0..n).map(move |j| (i, j))).collect()
            } else {
                (0..500).map(|_| (rng.below(n), rng.below(n))).collect()
            };
            for (i, j) in pairs {
                let got = lc.compare(i, j);
                let t = tuple(i, j);
                let m = model_cmp_rows(dts, &eff, cols, i, cols, j, rule);
                if got != t || got != m {
                    c = Chk::Viol(
                        "lexcmp-mismatch".into(),
                        format!("LexicographicalComparator.compare({i},{j}) = {got:?}, tuple of make_comparator = {t:?}, reference = {m:?}"),
                    );
                    break;
                }
            }
            out.push(("LexicographicalComparator", None, c));
        }
        Err(e) => out.push(("LexicographicalComparator", None, err_chk("LexicographicalComparator::try_new", &e))),
    }
    // FixedLexicographicalComparator<N> for the arities lexsort specialises
    macro_rules! fixed {
        ($n:literal) => {{
            match FixedLexicographicalComparator::<$n>::try_new(&sc) {
                Ok(fc) => {
                    let mut c = Chk::Held;
                    for _ in 0..200.min(n * n) {
                        let (i, j) = (rng.below(n), rng.below(n));
                        let got = fc.compare(i, j);
                        let t = tuple(i, j);
                        if got != t {
                            c = Chk::Viol(
                                "fixedcmp-mismatch".into(),
                                format!("FixedLexicographicalComparator<{}>.compare({i},{j}) = {got:?}, tuple of make_comparator = {t:?}", $n),
                            );
                            break;
                        }
                    }
                    out.push(("FixedLexicographicalComparator", None, c));
                }
                Err(e) => out.push(("FixedLexicographicalComparator", None, err_chk("FixedLexicographicalComparator::try_new", &e))),
            }
        }};
    }
    match sc.len() {
        2 => fixed!(2),
        3 => fixed!(3),
        4 => fixed!(4),
        5 => fixed!(5),
        _ => {}
    }
    let mut ms: Vec<usize> = (0..n).collect();
    ms.sort_by(|&i, &j| model_cmp_rows(dts, &eff, cols, i, cols, j, rule));
    for &lim in lims {
        let want_len = lim.unwrap_or(n).min(n);
        let c = match lexsort_to_indices(&sc, lim) {
            Ok(ix) => match idx_vec(&ix).and_then(|v| check_indices(&v, n, lim, &tuple)) {
                Ok(()) => Chk::Held,
                Err((s, d)) => Chk::Viol(s, d),
            },
            Err(e) => err_chk("lexsort_to_indices", &e),
        };
        out.push(("lexsort_to_indices", lim, c));
        let c = match lexsort(&sc, lim) {
            Ok(res) => {
                let mut c = Chk::Held;
                if res.len() != arrs.len() {
                    c = Chk::Viol("columns".into(), format!("{} columns returned for {}", res.len(), arrs.len()));
                } else {
                    if let Some((ci, e)) = res.iter().enumerate().find_map(|(ci, a)| check_array(a.as_ref()).err().map(|e| (ci, e))) {
                        out.push(("lexsort", lim, Chk::Viol("invalid-result".into(), format!("column {ci} fails independent validation: {e}"))));
                        continue;
                    }
                    let got: Vec<Vec<Val>> = res.iter().map(|a| extract(a.as_ref())).collect();
                    'outer: for (ci, g) in got.iter().enumerate() {
                        if res[ci].data_type() != &dts[ci] {
                            c = Chk::Viol("result-type".into(), format!("column {ci}: {} for input {}", res[ci].data_type(), dts[ci]));
                            break;
                        }
                        if g.len() != want_len {
                            c = Chk::Viol("length".into(), format!("column {ci}: {} rows, expected {want_len}", g.len()));
                            break;
                        }
                        for k in 0..want_len {
                            let w = norm(&cols[ci][ms[k]], rule);
                            let x = norm(&g[k], rule);
                            if w != x {
                                c = Chk::Viol(
                                    "values".into(),
                                    format!("column {ci} position {k}: got {x:?}, reference-sorted input has {w:?}"),
                                );
                                break 'outer;
                            }
                        }
                    }
                }
                c
            }
            Err(e) => err_chk("lexsort", &e),
        };
        out.push(("lexsort", lim, c));
    }
    out
}

// ------------------------------------------------------------------ rank

fn sec_rank(ctx: &mut Ctx) {
    let total = ctx.tier.pick(16, 50_000, 1_500_000);
    let slice = Slice::new(ctx, 0.08);
    for i in ctx.cases("rank", total) {
        if ctx.out_of_time() || slice.over() {
            break;
        }
        let mut rng = ctx.begin("rank", i);
        // mostly rankable (flat) types, sometimes others to observe the rejection
        let cfg = if rng.chance(1, 12) { TypeCfg::all().depth(1) } else { TypeCfg::flat() };
        let mut cfg2 = cfg.clone();
        if rng.chance(9, 10) {
            cfg2.dict = false;
            cfg2.ree = false;
            cfg2.fsb = false;
            cfg2.null_type = false;
        }
        let dt = gen_type_zw(&mut rng, &cfg2);
        let n = match rng.below(10) {
            0..=5 => rng.usize_in(0, 24),
            6..=8 => rng.len_biased(200),
            _ => rng.usize_in(200, 500),
        };
        let va = gen_column(&mut rng, &dt, n, true, &cfg);
        let Some(a) = safe_realise(ctx, &mut rng, &dt, &va) else { continue };
        let mut any = false;
        for o in OPTS.iter().map(|o| Some(*o)).chain(std::iter::once(None)) {
            let opts = o.unwrap_or_default();
            let res = guard(|| rank_case(&dt, &va, &a, o));
            let out = report(ctx, "rank", res, &kind(&dt), || {
                format!("type {dt}\noptions {o:?}\nvalues {}", dump_vals(&va))
            });
            if out == "ok" && n > 0 {
                any = true;
                ctx.class(format!("rank|{}|{}|{}", tclass(&dt), if o.is_none() { "default" } else { oname(opts) }, size_class(n)));
            }
        }
        if any {
            ctx.eval();
            ctx.sample(|| format!("rank {dt}: {}", dump_vals(&va)));
        }
    }
}

fn rank_case(dt: &DataType, va: &[Val], a: &ArrayRef, o: Option<SortOptions>) -> Chk {
    let opts = o.unwrap_or_default();
    let n = va.len();
    let got = match rank(a.as_ref(), o) {
        Ok(r) => r,
        Err(e) => return err_chk("rank", &e),
    };
    if got.len() != n {
        return Chk::Viol("length".into(), format!("{} ranks for {n} rows", got.len()));
    }
    let cmp = match make_comparator(a.as_ref(), a.as_ref(), opts) {
        Ok(c) => c,
        Err(e) => return err_chk("make_comparator", &e),
    };
    // reference: number of rows that do not sort after row i
    let ms = model_sorted(dt, va, opts);
    let mut want = vec![0u32; n];
    let mut k = 0;
    while k < n {
        let mut e = k + 1;
        while e < n && model_cmp(dt, &va[ms[k]], &va[ms[e]], opts, UnionRule::LogicalNull) == Ordering::Equal {
            e += 1;
        }
        for &r in &ms[k..e] {
            want[r] = e as u32;
        }
        k = e;
    }
    for i in 0..n {
        if got[i] != want[i] {
            return Chk::Viol(
                "rank-value".into(),
                format!("rank[{i}] = {}, reference count of rows <= row {i} is {} ({:?})\nranks {:?}", got[i], want[i], va[i], short(&got)),
            );
        }
    }
    if n <= 150 {
        for i in 0..n {
            let c = (0..n).filter(|&j| cmp(j, i) != Ordering::Greater).count() as u32;
            if c != got[i] {
                return Chk::Viol(
                    "rank-vs-comparator".into(),
                    format!("rank[{i}] = {} but the comparator puts {c} rows at or before row {i}", got[i]),
                );
            }
        }
    }
    Chk::Held
}

// ------------------------------------------------------------------ partition

fn gen_run_column(rng: &mut Rng, dt: &DataType, n: usize, cfg: &TypeCfg) -> Vec<Val> {
    let k = *rng.pick(&[1usize, 2, 3, 5, 9]);
    let pool: Vec<Val> = (0..k).map(|_| gen_one(rng, dt, cfg)).collect();
    let stay = *rng.pick(&[(1u32, 2u32), (3, 4), (9, 10)]);
    let mut out: Vec<Val> = Vec::with_capacity(n);
    for i in 0..n {
        if i > 0 && rng.chance(stay.0, stay.1) {
            out.push(out[i - 1].clone());
        } else {
            out.push(rng.pick(&pool).clone());
        }
    }
    out
}

fn sec_part(ctx: &mut Ctx) {
    let total = ctx.tier.pick(16, 56_000, 1_700_000);
    let slice = Slice::new(ctx, 0.08);
    for i in ctx.cases("part", total) {
        if ctx.out_of_time() || slice.over() {
            break;
        }
        let mut rng = ctx.begin("part", i);
        let ncols = *rng.pick(&[1usize, 1, 2, 2, 3]);
        let n = if rng.chance(1, 2) { rng.usize_in(0, 12) } else { rng.len_biased(200) };
        let mut dts = Vec::new();
        let mut cols: Vec<Vec<Val>> = Vec::new();
        let mut arrs: Vec<ArrayRef> = Vec::new();
        let mut ok = true;
        for _ in 0..ncols {
            let depth = *rng.pick(&[0u32, 0, 0, 1, 1, 2]);
            let cfg = TypeCfg::all().depth(depth);
            let dt = gen_type_zw(&mut rng, &cfg);
            let v = gen_run_column(&mut rng, &dt, n, &cfg);
            let Some(a) = safe_realise(ctx, &mut rng, &dt, &v) else {
                ok = false;
                break;
            };
            dts.push(dt);
            cols.push(v);
            arrs.push(a);
        }
        if !ok {
            continue;
        }
        let res = guard(|| part_case(&dts, &cols, &arrs));
        let tk: Vec<String> = dts.iter().map(kind).collect();
        let out = report(ctx, "partition", res, &cols_tag(&dts), || {
            let mut s = String::new();
            for c in 0..ncols {
                s.push_str(&format!("col{c}: {} {}\n", dts[c], dump_vals(&cols[c])));
            }
            s
        });
        if out == "ok" && n > 1 {
            ctx.eval();
            let tc: Vec<String> = dts.iter().map(kind).collect();
            ctx.class(format!("partition|{}|{}", tc.join(","), size_class(n)));
            ctx.sample(|| format!("partition {:?} n={n}: {}", tk, dump_vals(&cols[0])));
        }
    }
}

fn part_case(dts: &[DataType], cols: &[Vec<Val>], arrs: &[ArrayRef]) -> Chk {
    let n = cols[0].len();
    let p = match partition(arrs) {
        Ok(p) => p,
        Err(e) => return err_chk("partition", &e),
    };
    let ranges = p.ranges();
    let rule = UnionRule::LogicalNull;
    // reference boundaries
    let mut want: Vec<std::ops::Range<usize>> = Vec::new();
    let mut start = 0;
    for i in 1..n {
        let differs = (0..dts.len()).any(|c| norm(&cols[c][i - 1], rule) != norm(&cols[c][i], rule));
        if differs {
            want.push(start..i);
            start = i;
        }
    }
    if n > 0 {
        want.push(start..n);
    }
    if ranges != want {
        return Chk::Viol(
            "ranges".into(),
            format!("partition ranges {:?}\nreference (adjacent rows that differ) {:?}", ranges.iter().take(40).collect::<Vec<_>>(), want.iter().take(40).collect::<Vec<_>>()),
        );
    }
    if p.len() != ranges.len() || p.is_empty() != (n == 0) {
        return Chk::Viol("len".into(), format!("Partitions::len() = {}, ranges().len() = {}, is_empty = {}", p.len(), ranges.len(), p.is_empty()));
    }
    // and against the comparators
    let mut cmps = Vec::new();
    for a in arrs {
        match make_comparator(a.as_ref(), a.as_ref(), SortOptions::default()) {
            Ok(c) => cmps.push(c),
            Err(e) => return err_chk("make_comparator", &e),
        }
    }
    let mut bi = 0;
    for i in 1..n {
        let differs = cmps.iter().any(|c| c(i - 1, i) != Ordering::Equal);
        let is_boundary = bi < ranges.len() && ranges[bi].end == i;
        if is_boundary {
            bi += 1;
        }
        if differs != is_boundary {
            return Chk::Viol(
                "boundary-vs-comparator".into(),
                format!("rows {} and {i}: comparator differs = {differs}, partition boundary = {is_boundary}", i - 1),
            );
        }
    }
    Chk::Held
}

// ------------------------------------------------------------------ comparison kernels

#[derive(Clone, Debug)]
enum Enc {
    Plain,
    Dict(DataType),
    Ree(DataType),
}

fn enc_type(v: &DataType, e: &Enc) -> DataType {
    match e {
        Enc::Plain => v.clone(),
        Enc::Dict(k) => DataType::Dictionary(Box::new(k.clone()), Box::new(v.clone())),
        Enc::Ree(r) => DataType::RunEndEncoded(
            Arc::new(Field::new("run_ends", r.clone(), false)),
            Arc::new(Field::new("values", v.clone(), true)),
        ),
    }
}

fn gen_enc(rng: &mut Rng, v: &DataType, n: usize) -> Enc {
    use DataType::*;
    if matches!(v, Null) {
        return Enc::Plain;
    }
    match rng.below(5) {
        0 | 1 => Enc::Plain,
        2 | 3 => {
            let keys: &[DataType] = if n > 60 {
                &[Int16, Int32, Int64, UInt16, UInt32, UInt64]
            } else {
                &[Int8, Int16, Int32, Int64, UInt8, UInt16, UInt32, UInt64]
            };
            Enc::Dict(rng.pick(keys).clone())
        }
        _ => Enc::Ree(rng.pick(&[Int16, Int32, Int64]).clone()),
    }
}

fn enc_name(e: &Enc) -> &'static str {
    match e {
        Enc::Plain => "plain",
        Enc::Dict(_) => "dict",
        Enc::Ree(_) => "ree",
    }
}

type KFn = fn(&dyn Datum, &dyn Datum) -> Result<BooleanArray, ArrowError>;
const KOPS: [(&str, KFn); 8] = [
    ("eq", k::eq),
    ("neq", k::neq),
    ("lt", k::lt),
    ("lt_eq", k::lt_eq),
    ("gt", k::gt),
    ("gt_eq", k::gt_eq),
    ("distinct", k::distinct),
    ("not_distinct", k::not_distinct),
];

/// documented result of one row: None == null
fn kernel_row(op: &str, vt: &DataType, a: &Val, b: &Val) -> Option<bool> {
    let (an, bn) = (a.is_null(), b.is_null());
    match op {
        "distinct" => {
            if an || bn {
                return Some(an != bn);
            }
        }
        "not_distinct" => {
            if an || bn {
                return Some(an && bn);
            }
        }
        _ => {
            if an || bn {
                return None;
            }
        }
    }
    let o = natural(vt, a, b, true, UnionRule::LogicalNull);
    Some(match op {
        "eq" | "not_distinct" => o == Ordering::Equal,
        "neq" | "distinct" => o != Ordering::Equal,
        "lt" => o == Ordering::Less,
        "lt_eq" => o != Ordering::Greater,
        "gt" => o == Ordering::Greater,
        "gt_eq" => o != Ordering::Less,
        _ => panic!("model: unknown op {op}"),
    })
}

fn sec_kern(ctx: &mut Ctx) {
    let total = ctx.tier.pick(16, 140_000, 4_200_000);
    let slice = Slice::new(ctx, 0.16);
    for i in ctx.cases("kern", total) {
        if ctx.out_of_time() || slice.over() {
            break;
        }
        let mut rng = ctx.begin("kern", i);
        let nested = rng.chance(1, 40);
        let mut cfg = TypeCfg::flat();
        cfg.dict = false;
        cfg.ree = false;
        let vt = if nested {
            gen_type(&mut rng, &TypeCfg::all().depth(1))
        } else {
            gens::gen_primitive_type(&mut rng, &cfg)
        };
        let mode = *rng.pick(&["aa", "aa", "aa", "as", "as", "sa", "sa", "ss"]);
        let n = if rng.chance(1, 3) { rng.usize_in(0, 12) } else { rng.len_biased(200) };
        let (ln, rn) = match mode {
            "aa" => (n, n),
            "as" => (n, 1),
            "sa" => (1, n),
            _ => (1, 1),
        };
        let gcfg = TypeCfg::all();
        let va = gen_column(&mut rng, &vt, ln, true, &gcfg);
        let vb: Vec<Val> = (0..rn)
            .map(|j| match rng.below(6) {
                0 | 1 if j < va.len() => va[j].clone(),
                2 if !va.is_empty() => rng.pick(&va).clone(),
                _ => gen_one(&mut rng, &vt, &gcfg),
            })
            .collect();
        let (le, re) = if nested { (Enc::Plain, Enc::Plain) } else { (gen_enc(&mut rng, &vt, ln), gen_enc(&mut rng, &vt, rn)) };
        let (lt, rt) = (enc_type(&vt, &le), enc_type(&vt, &re));
        let Some(la) = safe_realise(ctx, &mut rng, &lt, &va) else { continue };
        let Some(ra) = safe_realise(ctx, &mut rng, &rt, &vb) else { continue };
        let len = match mode {
            "aa" | "as" => ln,
            "sa" => rn,
            _ => 1,
        };
        let enc_of = |t: &DataType| match t {
            DataType::Dictionary(_, _) => "dict",
            DataType::RunEndEncoded(_, _) => "ree",
            t if t.is_nested() => "nested",
            _ => "plain",
        };
        // Signature tag: keyed on what distinguishes a defect. Two known defect
        // families do not depend on the full (lhs, rhs) encoding pair: an
        // encoded right-hand scalar in scalar x scalar mode (the lhs encoding is
        // irrelevant), and an empty run-end operand (zero rows).
        let sig_t = if mode == "ss" && matches!(enc_of(&rt), "dict" | "ree") {
            format!("*x{}|ss", enc_of(&rt))
        } else if len == 0 && (enc_of(&lt) == "ree" || enc_of(&rt) == "ree") {
            format!("ree-operand-zero-rows|{mode}")
        } else {
            format!("{}x{}|{mode}", enc_of(&lt), enc_of(&rt))
        };
        let mut any = false;
        for (name, f) in KOPS {
            let res = guard(|| -> Chk {
                let ls;
                let rs;
                let l: &dyn Datum = if mode.starts_with('s') {
                    ls = Scalar::new(la.clone());
                    &ls
                } else {
                    &la
                };
                let r: &dyn Datum = if mode.ends_with('s') {
                    rs = Scalar::new(ra.clone());
                    &rs
                } else {
                    &ra
                };
                let got = match f(l, r) {
                    Ok(g) => g,
                    Err(e) => return err_chk(name, &e),
                };
                if got.len() != len {
                    return Chk::Viol("length".into(), format!("result has {} rows, expected {len}", got.len()));
                }
                for i in 0..len {
                    let a = if mode.starts_with('s') { &va[0] } else { &va[i] };
                    let b = if mode.ends_with('s') { &vb[0] } else { &vb[i] };
                    let want = kernel_row(name, &vt, a, b);
                    let g = if got.is_null(i) { None } else { Some(got.value(i)) };
                    if g != want {
                        return Chk::Viol(
                            "row-mismatch".into(),
                            format!("row {i}: {a:?} {name} {b:?} = {g:?}, expected {want:?}"),
                        );
                    }
                }
                Chk::Held
            });
            let out = report(ctx, "cmpkernel", res, &sig_t, || {
                format!("kernel {name}\nvalue type {vt}\nlhs {lt} ({mode}) {}\nrhs {rt} {}", dump_vals(&va), dump_vals(&vb))
            });
            if out == "ok" && len > 0 {
                any = true;
                ctx.class(format!("{name}|{}|{}x{}|{mode}|{}", kind(&vt), enc_name(&le), enc_name(&re), if len > 64 { ">64" } else { "<=64" }));
            }
        }
        if any {
            ctx.eval();
            ctx.sample(|| format!("kern {lt} vs {rt} {mode}: {} / {}", dump_vals(&va), dump_vals(&vb)));
        }
    }
}

// ------------------------------------------------------------------ in_list

macro_rules! in_list_dispatch {
    ($lt:expr, $la:expr, $ra:expr, $large:expr, $($dt:pat => $t:ty),*) => {
        match $lt {
            $($dt => {
                if $large {
                    in_list::<$t, i64>($la.as_primitive::<$t>(), $ra.as_list::<i64>())
                } else {
                    in_list::<$t, i32>($la.as_primitive::<$t>(), $ra.as_list::<i32>())
                }
            })*
            _ => panic!("model: in_list type"),
        }
    };
}

fn float_special(v: &Val) -> bool {
    match v {
        Val::F32(b) => f32::from_bits(*b).is_nan() || f32::from_bits(*b) == 0.0,
        Val::F64(b) => f64::from_bits(*b).is_nan() || f64::from_bits(*b) == 0.0,
        _ => false,
    }
}

fn sec_inl(ctx: &mut Ctx) {
    use DataType::*;
    let total = ctx.tier.pick(8, 14_000, 420_000);
    let slice = Slice::new(ctx, 0.08);
    let types = [Int8, Int16, Int32, Int64, UInt8, UInt16, UInt32, UInt64, Float32, Float64, Date32, Utf8, LargeUtf8];
    for i in ctx.cases("inl", total) {
        if ctx.out_of_time() || slice.over() {
            break;
        }
        let mut rng = ctx.begin("inl", i);
        let et = rng.pick(&types).clone();
        let is_str = matches!(et, Utf8 | LargeUtf8);
        let large = !is_str && rng.bool();
        let item = Arc::new(Field::new("item", et.clone(), true));
        let lt = if large { LargeList(item) } else { List(item) };
        let n = if rng.chance(1, 2) { rng.usize_in(0, 10) } else { rng.len_biased(130) };
        let cfg = TypeCfg::all();
        let left = gen_column(&mut rng, &et, n, true, &cfg);
        let right: Vec<Val> = (0..n)
            .map(|j| {
                if rng.chance(1, 6) {
                    return Val::Null;
                }
                let k = *rng.pick(&[0usize, 1, 2, 3, 5, 9]);
                Val::List(
                    (0..k)
                        .map(|_| match rng.below(5) {
                            0 => Val::Null,
                            1 | 2 => left[j].clone(),
                            _ => gen_one(&mut rng, &et, &cfg),
                        })
                        .collect(),
                )
            })
            .collect();
        let Some(la) = safe_realise(ctx, &mut rng, &et, &left) else { continue };
        let Some(ra) = safe_realise(ctx, &mut rng, &lt, &right) else { continue };
        let mut skipped = 0u64;
        let res = guard(|| -> Chk {
            let got = if is_str {
                match et {
                    Utf8 => in_list_utf8::<i32>(la.as_string::<i32>(), ra.as_list::<i32>()),
                    _ => in_list_utf8::<i64>(la.as_string::<i64>(), ra.as_list::<i32>()),
                }
            } else {
                in_list_dispatch!(&et, la, ra, large,
                    Int8 => Int8Type, Int16 => Int16Type, Int32 => Int32Type, Int64 => Int64Type,
                    UInt8 => UInt8Type, UInt16 => UInt16Type, UInt32 => UInt32Type, UInt64 => UInt64Type,
                    Float32 => Float32Type, Float64 => Float64Type, Date32 => Date32Type)
            };
            let got = match got {
                Ok(g) => g,
                Err(e) => return err_chk("in_list", &e),
            };
            if got.len() != n {
                return Chk::Viol("length".into(), format!("{} rows for {n}", got.len()));
            }
            for i in 0..n {
                let want = match (&left[i], &right[i]) {
                    (Val::Null, _) | (_, Val::Null) => false,
                    (l, Val::List(xs)) => {
                        if float_special(l) || xs.iter().any(float_special) {
                            skipped += 1;
                            continue;
                        }
                        xs.iter().any(|x| !x.is_null() && x == l)
                    }
                    _ => panic!("model: in_list row"),
                };
                if got.is_null(i) || got.value(i) != want {
                    return Chk::Viol(
                        "row-mismatch".into(),
                        format!("row {i}: {:?} in {:?} = {:?} (null={}), expected {want}", left[i], right[i], got.value(i), got.is_null(i)),
                    );
                }
            }
            Chk::Held
        });
        ctx.count("inl_float_ieee_rows", skipped);
        let out = report(ctx, "in_list", res, &kind(&et), || {
            format!("left {et} {}\nright {lt} {}", dump_vals(&left), dump_vals(&right))
        });
        if out == "ok" && n > 0 {
            ctx.eval();
            ctx.class(format!("in_list|{}|{}|{}", kind(&et), if large { "large" } else { "small" }, size_class(n)));
        }
    }
}

pub fn run(ctx: &mut Ctx) {
    sec_cmp(ctx);
    sec_sort(ctx);
    sec_lex(ctx);
    sec_rank(ctx);
    sec_part(ctx);
    sec_kern(ctx);
    sec_inl(ctx);
}

// ------------------------------------------------------------------ minimal reproducers
// `vcore-run C10REPRO`: prints the outcome of the minimal reproducers of the
// findings on the unchanged tree (not part of the check).
pub fn repro(_ctx: &mut Ctx) {
    use arrow_array::{DictionaryArray, FixedSizeBinaryArray, FixedSizeListArray, Int32Array, RunArray};
    use arrow_buffer::Buffer;
    let show = |name: &str, r: Result<String, PanicInfo>| match r {
        Ok(s) => eprintln!("{name}: {s}"),
        Err(p) => eprintln!("{name}: PANIC {} @ {}", p.msg, p.loc),
    };
    // zero-width take
    let fsb: ArrayRef = Arc::new(FixedSizeBinaryArray::try_new_with_len(0, Buffer::from_vec(Vec::<u8>::new()), None, 3).unwrap());
    show("take(FixedSizeBinary(0) len 3, [0,1]).len()", guard(|| {
        format!("{:?}", arrow_select::take::take(fsb.as_ref(), &UInt32Array::from(vec![0, 1]), None).map(|a| a.len()))
    }));
    show("sort(FixedSizeBinary(0) len 3).len()", guard(|| format!("{:?}", sort(fsb.as_ref(), None).map(|a| a.len()))));
    show("sort_limit(FixedSizeBinary(0) len 3, 2).len()", guard(|| format!("{:?}", sort_limit(fsb.as_ref(), None, Some(2)).map(|a| a.len()))));
    let item = Arc::new(Field::new("item", DataType::Int32, true));
    let fsl: ArrayRef = Arc::new(FixedSizeListArray::try_new_with_length(item, 0, Arc::new(Int32Array::from(Vec::<i32>::new())), None, 3).unwrap());
    show("sort(FixedSizeList(0) len 3).len()", guard(|| format!("{:?}", sort(fsl.as_ref(), None).map(|a| a.len()))));
    // scalar x scalar with an encoded right-hand side
    let one: ArrayRef = Arc::new(Int32Array::from(vec![7]));
    let dict: ArrayRef = Arc::new(DictionaryArray::<Int8Type>::new(arrow_array::Int8Array::from(vec![1]), Arc::new(Int32Array::from(vec![5, 7]))));
    show("eq(Scalar(Int32[7]), Scalar(Dict{keys [1], values [5,7]}))", guard(|| {
        format!("{:?}", k::eq(&Scalar::new(one.clone()), &Scalar::new(dict.clone())))
    }));
    show("eq(Scalar(Dict), Scalar(Int32[7]))  (encoded side on the left)", guard(|| {
        format!("{:?}", k::eq(&Scalar::new(dict.clone()), &Scalar::new(one.clone())))
    }));
    let ree = RunArray::<Int32Type>::try_new(&Int32Array::from(vec![2, 4, 6]), &Int32Array::from(vec![5, 6, 7])).unwrap();
    let ree_scalar: ArrayRef = Arc::new(ree.slice(5, 1));
    show("eq(Scalar(Int32[7]), Scalar(REE[5,5,6,6,7,7].slice(5,1)))", guard(|| {
        format!("{:?}", k::eq(&Scalar::new(one.clone()), &Scalar::new(ree_scalar.clone())))
    }));
    // empty run-end slice with a non-zero offset
    let empty: ArrayRef = Arc::new(ree.slice(3, 0));
    show("eq(REE.slice(3,0), Scalar(Int32[7]))", guard(|| format!("{:?}", k::eq(&empty, &Scalar::new(one.clone())))));
    show("eq(REE.slice(3,0), REE.slice(3,0))", guard(|| format!("{:?}", k::eq(&empty, &empty))));
    let empty_plain: ArrayRef = Arc::new(Int32Array::from(Vec::<i32>::new()));
    show("eq(REE.slice(3,0), Int32[])", guard(|| format!("{:?}", k::eq(&empty, &empty_plain))));
}
