//! C01: every array / record batch returned `Ok` by a safe public operation is well-formed.
//!
//! Events: every `ArrayRef` / `RecordBatch` returned by an op of the shared registry
//! (`opreg::OPS`: builders, constructors, arrow-select / cast / arith / ord / string / row
//! kernels) when the op is applied to a valid array in a random physical layout, and to the
//! *results* of earlier ops (pipelines of 1..=4 steps: outputs become inputs).
//! Oracle: `spec_validate` (independent) and `ArrayData::validate_full` on the result and its
//! children, `RecordBatch` agreement (`check_batch`), then a bounded accessor exercise
//! (extract, `logical_nulls`, slices at 3 offsets, `make_array(to_data())`, `ArrayFormatter`
//! over every row, `==` with itself and with its `ArrayData` round trip) that must not panic.
//! With the cargo feature `force_validate` the unchecked constructors re-validate: a panic from
//! inside `arrow-array/src/array/*` / `arrow-data/src/data.rs` during a registry op is then a
//! violation as well (the workload is otherwise identical in that build).
//!
//! Sections
//!   pipe   random pipelines over the whole registry, all types / layouts
//!   ctor   one constructor-family op per case on the generated column (builder coverage),
//!          followed by one kernel on its result
//!   (vfull adds `read`: IPC / Parquet / CSV / JSON / Avro readers on the harness' own files)
//!
//! Events also include every `ArrayData` handed out as such (`to_data`, `into_data`,
//! `ArrayData::slice`, `MutableArrayData::freeze`): `Out::Data`.
//!
//! not asserted:
//!   * anything about values (C02/C03...), which op succeeds, or error messages;
//!   * ops returning `Err`, and panics of ops in the normal build (a panic is not a returned
//!     array; they are counted under `panic.<op>|<file>` as evidence only; `C01_TRACE=1` prints
//!     every op outcome);
//!   * nulls of a non-nullable field in slots that are not reachable from a valid row through
//!     valid ancestors (`unmasked_nonnull`: the ancestor-aware lenient reading; `spec_validate`
//!     alone only looks at the direct parent); monotonic dense-union offsets;
//!   * `ArrayFormatter` returning `Err` for a value (out-of-range dates): only panics count.
//!
//! Signatures: `C01|<op>|<input family>-><output family>|<phenomenon>` where the phenomenon is the
//! validator message with numbers, names and data types removed (`opreg::phenomenon`);
//! `C01|<op>|fv-panic|<file>|<message class>` in the `force_validate` build.
//!
//! Self-test of the oracle: `C01_BREAK=nullcount|offsets` corrupts (through the unsafe
//! constructors, never /repo) the array handed to the oracle; it must then report violations.

use crate::build::{build, realise};
use crate::extract::extract;
use crate::gens::{TypeCfg, gen_column, gen_type, type_class};
use crate::mon::{Ctx, PanicInfo, guard};
use crate::props::opreg::{self, OpDef, Out, Plan, fam, fam2, phenomenon};
use crate::rng::Rng;
use crate::val::{Val, dump_vals};
use crate::validate::{check_and_exercise, check_batch};
use arrow_array::{Array, ArrayRef, RecordBatch, make_array};
use arrow_cast::display::{ArrayFormatter, FormatOptions};
use arrow_schema::DataType;

/// the extra part of the accessor exercise that `validate::exercise` does not do
pub fn exercise_more(a: &ArrayRef) -> Result<(), String> {
    let fo = FormatOptions::default().with_null("NULL");
    if let Ok(f) = ArrayFormatter::try_new(a.as_ref(), &fo) {
        for i in 0..a.len().min(400) {
            let _ = f.value(i).try_to_string();
        }
    }
    // `==` with itself, and with its round trip through ArrayData
    let d = a.to_data();
    if d != d.clone() {
        return Err("to_data() is not equal to its clone".into());
    }
    let back = make_array(d.clone());
    if back.to_data() != d {
        return Err("make_array(to_data()).to_data() != to_data()".into());
    }
    if a.len() > 1 {
        let s = a.slice(1, a.len() - 1);
        if s.to_data() != d.slice(1, a.len() - 1) {
            return Err("Array::slice and ArrayData::slice disagree".into());
        }
    }
    Ok(())
}

/// Self-test of the oracle (`C01_BREAK=nullcount|offsets`): the array handed to the oracle is
/// deliberately corrupted through the *unsafe* constructors (never /repo, never the op under test).
fn self_test_corrupt(a: &ArrayRef) -> ArrayRef {
    let Ok(mode) = std::env::var("C01_BREAK") else { return a.clone() };
    let d = a.to_data();
    match mode.as_str() {
        "nullcount" => {
            let Some(n) = d.nulls() else { return a.clone() };
            if n.null_count() == 0 {
                return a.clone();
            }
            // claim one null fewer than the bitmap has
            let bad = unsafe { arrow_buffer::NullBuffer::new_unchecked(n.inner().clone(), n.null_count() - 1) };
            make_array(unsafe { d.clone().into_builder().nulls(Some(bad)).build_unchecked() })
        }
        "offsets" => match d.data_type() {
            DataType::Utf8 | DataType::Binary if d.len() >= 2 => {
                // last offset one past the values buffer
                let mut offs: Vec<i32> = d.buffers()[0].typed_data::<i32>()[d.offset()..d.offset() + d.len() + 1].to_vec();
                let last = offs.len() - 1;
                offs[last] = d.buffers()[1].len() as i32 + 1;
                let b = arrow_data::ArrayDataBuilder::new(d.data_type().clone()).len(d.len()).nulls(d.nulls().cloned()).add_buffer(arrow_buffer::Buffer::from_vec(offs)).add_buffer(d.buffers()[1].clone());
                make_array(unsafe { b.build_unchecked() })
            }
            _ => a.clone(),
        },
        _ => a.clone(),
    }
}

/// Ancestor-aware reading of "non-nullable child has no nulls": a physical null of a
/// non-nullable field is a defect only in a slot that is reachable from a valid top-level row
/// through valid ancestors (`validate::spec_validate` only looks at the direct parent; Parquet's
/// definition levels, for instance, cannot represent a non-null grandchild under a null
/// grandparent). Returns the first *reachable* null of a non-nullable field.
pub fn unmasked_nonnull(d: &arrow_data::ArrayData, reach: &[bool]) -> Option<String> {
    use DataType::*;
    let n = d.len();
    debug_assert_eq!(reach.len(), n);
    let valid = |i: usize| d.nulls().map(|x| x.is_valid(i)).unwrap_or(true);
    let live: Vec<bool> = (0..n).map(|i| reach[i] && valid(i)).collect();
    let check_field = |f: &arrow_schema::Field, c: &arrow_data::ArrayData, creach: &[bool]| -> Option<String> {
        if !f.is_nullable() {
            if let Some(nl) = c.nulls() {
                for (j, r) in creach.iter().enumerate() {
                    if *r && nl.is_null(j) {
                        return Some(format!("non-nullable field {:?} has a null at reachable child index {j}", f.name()));
                    }
                }
            }
        }
        unmasked_nonnull(c, creach)
    };
    let off = d.offset();
    match d.data_type() {
        Struct(fs) => {
            for (f, c) in fs.iter().zip(d.child_data()) {
                let mut cr = vec![false; c.len()];
                for i in 0..n {
                    if off + i < cr.len() {
                        cr[off + i] = live[i];
                    }
                }
                if let Some(e) = check_field(f, c, &cr) {
                    return Some(e);
                }
            }
            None
        }
        List(f) | LargeList(f) | Map(f, _) | ListView(f) | LargeListView(f) => {
            let c = &d.child_data()[0];
            let mut cr = vec![false; c.len()];
            let large = matches!(d.data_type(), LargeList(_) | LargeListView(_));
            let view = matches!(d.data_type(), ListView(_) | LargeListView(_));
            let get = |b: usize, i: usize| -> usize { if large { d.buffers()[b].typed_data::<i64>()[off + i] as usize } else { d.buffers()[b].typed_data::<i32>()[off + i] as usize } };
            if n == 0 || d.buffers()[0].is_empty() {
                return None;
            }
            for i in 0..n {
                if !live[i] {
                    continue;
                }
                let (s, e) = if view { (get(0, i), get(0, i) + get(1, i)) } else { (get(0, i), get(0, i + 1)) };
                for j in s..e.min(cr.len()) {
                    cr[j] = true;
                }
            }
            check_field(f, c, &cr)
        }
        FixedSizeList(f, w) => {
            let c = &d.child_data()[0];
            let w = *w as usize;
            let mut cr = vec![false; c.len()];
            for i in 0..n {
                if live[i] {
                    for j in (off + i) * w..((off + i + 1) * w).min(cr.len()) {
                        cr[j] = true;
                    }
                }
            }
            check_field(f, c, &cr)
        }
        Union(fs, mode) => {
            let tids = &d.buffers()[0].typed_data::<i8>()[off..off + n];
            for (ci, (tid, f)) in fs.iter().enumerate() {
                let c = &d.child_data()[ci];
                let mut cr = vec![false; c.len()];
                for i in 0..n {
                    if live[i] && tids[i] == tid {
                        let j = match mode {
                            arrow_schema::UnionMode::Sparse => off + i,
                            arrow_schema::UnionMode::Dense => d.buffers()[1].typed_data::<i32>()[off + i] as usize,
                        };
                        if j < cr.len() {
                            cr[j] = true;
                        }
                    }
                }
                if let Some(e) = check_field(f, c, &cr) {
                    return Some(e);
                }
            }
            None
        }
        // dictionary values / run values have no nullability constraint of their own
        _ => None,
    }
}

fn nonnull_ok(a: &ArrayRef) -> bool {
    let d = a.to_data();
    unmasked_nonnull(&d, &vec![true; d.len()]).is_none()
}

/// `check_and_exercise`, with the direct-parent nullability complaint of `spec_validate`
/// re-judged by the ancestor-aware reading
fn check_lenient(a: &ArrayRef) -> Result<(), String> {
    match check_and_exercise(a) {
        Err(e) if e.contains("non-nullable") && nonnull_ok(a) => {
            a.to_data().validate_full().map_err(|e| format!("validate_full rejected: {e}"))?;
            crate::validate::exercise(a)
        }
        r => r,
    }
}

/// full oracle for one returned array
pub fn check_out_array(a: &ArrayRef) -> Result<Result<(), String>, PanicInfo> {
    let a = &self_test_corrupt(a);
    guard(|| {
        check_lenient(a)?;
        exercise_more(a)
    })
}

pub fn check_out_batch(b: &RecordBatch) -> Result<Result<(), String>, PanicInfo> {
    guard(|| {
        let batch_ok = |b: &RecordBatch| -> Result<(), String> {
            match check_batch(b) {
                Err(e) if e.contains("non-nullable") && !e.contains("non-nullable column") && b.columns().iter().all(nonnull_ok) => Ok(()),
                r => r,
            }
        };
        batch_ok(b)?;
        for (i, c) in b.columns().iter().enumerate() {
            check_lenient(c).map_err(|e| format!("column {i}: {e}"))?;
            exercise_more(c).map_err(|e| format!("column {i}: {e}"))?;
        }
        // slicing a batch keeps it consistent
        let n = b.num_rows();
        let s = b.slice(n / 2, n - n / 2);
        batch_ok(&s).map_err(|e| format!("batch slice: {e}"))
    })
}

pub fn is_fv_build() -> bool {
    cfg!(feature = "force_validate")
}

/// a panic raised by a re-validating unchecked constructor (only in the `force_validate` build)
pub fn is_fv_panic(p: &PanicInfo) -> bool {
    if !is_fv_build() || p.is_rejection() || p.is_model() {
        return false;
    }
    // `new_unchecked` -> `Self::new(..)` -> `try_new(..).unwrap()`, `build_unchecked` -> `build().unwrap()`
    let f = p.file();
    (f.starts_with("arrow-array/src/array/") || f == "arrow-data/src/data.rs") && p.msg.starts_with("called `Result::unwrap()` on an `Err` value")
}

fn describe_input(dt: &DataType, vals: &[Val], x: &ArrayRef) -> String {
    let d = x.to_data();
    let phys: String = format!("{d:?}").chars().take(1500).collect();
    format!("input type {dt}\ninput rows {}\ninput ArrayData {phys}", dump_vals(vals))
}

/// Judge everything `plan` returned on `x`. Returns the arrays that may feed the next step.
/// `trail` is the list of ops applied before (for the detail text only).
#[allow(clippy::too_many_arguments)]
pub fn judge_outputs(ctx: &mut Ctx, prop: &str, plan: &Plan, dt: &DataType, vals: &[Val], x: &ArrayRef, outs: &[Out], trail: &str) -> Vec<ArrayRef> {
    let mut next: Vec<ArrayRef> = Vec::new();
    for (k, o) in outs.iter().enumerate() {
        match o {
            Out::Arr(a) | Out::Side(a) => {
                match check_out_array(a) {
                    Ok(Ok(())) => next.push(a.clone()),
                    Ok(Err(e)) => {
                        let sig = format!("{prop}|{}|{}->{}|{}", plan.def.name, fam(dt), fam(a.data_type()), phenomenon(&e));
                        ctx.violation(&sig, format!("output {k} of {} is malformed: {e}\noutput type {}\n{}\n{}\npipeline so far: {trail}", plan.def.name, a.data_type(), plan.describe(), describe_input(dt, vals, x)));
                    }
                    Err(p) if p.is_model() => ctx.inconclusive(&format!("model panic in exercise: {} @ {}", p.msg, p.loc)),
                    Err(p) => {
                        let sig = format!("{prop}|{}|{}->{}|exercise-panic|{}", plan.def.name, fam(dt), fam(a.data_type()), opreg::panic_class(&p));
                        ctx.violation(&sig, format!("accessor exercise of output {k} of {} panicked: {} @ {}\noutput type {}\n{}\n{}\npipeline so far: {trail}", plan.def.name, p.msg, p.loc, a.data_type(), plan.describe(), describe_input(dt, vals, x)));
                    }
                }
            }
            Out::Batch(b) => match check_out_batch(b) {
                Ok(Ok(())) => next.extend(b.columns().iter().cloned()),
                Ok(Err(e)) => {
                    let sig = format!("{prop}|{}|{}->batch|{}", plan.def.name, fam(dt), phenomenon(&e));
                    ctx.violation(&sig, format!("batch output {k} of {} is malformed: {e}\nschema {:?}\n{}\n{}\npipeline so far: {trail}", plan.def.name, b.schema(), plan.describe(), describe_input(dt, vals, x)));
                }
                Err(p) if p.is_model() => ctx.inconclusive(&format!("model panic in exercise: {} @ {}", p.msg, p.loc)),
                Err(p) => {
                    let sig = format!("{prop}|{}|{}->batch|exercise-panic|{}", plan.def.name, fam(dt), opreg::panic_class(&p));
                    ctx.violation(&sig, format!("exercise of batch output {k} of {} panicked: {} @ {}\n{}\n{}\npipeline so far: {trail}", plan.def.name, p.msg, p.loc, plan.describe(), describe_input(dt, vals, x)));
                }
            },
            Out::Data(d) => match guard(|| crate::validate::check_data(d)) {
                Ok(Ok(())) => {}
                Ok(Err(e)) if e.contains("non-nullable") && unmasked_nonnull(d, &vec![true; d.len()]).is_none() => {}
                Ok(Err(e)) => {
                    let sig = format!("{prop}|{}|{}->data|{}", plan.def.name, fam(dt), phenomenon(&e));
                    ctx.violation(&sig, format!("ArrayData output {k} of {} is malformed: {e}\n{}\n{}\npipeline so far: {trail}", plan.def.name, plan.describe(), describe_input(dt, vals, x)));
                }
                Err(p) if p.is_model() => ctx.inconclusive(&format!("model panic in validation: {} @ {}", p.msg, p.loc)),
                Err(p) => {
                    let sig = format!("{prop}|{}|{}->data|validate-panic|{}", plan.def.name, fam(dt), opreg::panic_class(&p));
                    ctx.violation(&sig, format!("validating ArrayData output {k} of {} panicked: {} @ {}\n{}\n{}\npipeline so far: {trail}", plan.def.name, p.msg, p.loc, plan.describe(), describe_input(dt, vals, x)));
                }
            },
            Out::Text(_) => {}
        }
    }
    next
}

/// Run one planned op on `x`; returns candidate inputs for the next step.
pub fn step(ctx: &mut Ctx, rng: &mut Rng, plan: &Plan, dt: &DataType, vals: &[Val], x: &ArrayRef, stepno: usize, trail: &str) -> Vec<ArrayRef> {
    let name = plan.def.name;
    let (aux, consts) = match guard(|| plan.realise_aux(rng, true)) {
        Ok(v) => v,
        Err(p) => {
            ctx.inconclusive(&format!("aux realisation panicked for {name}: {} @ {}", p.msg, p.loc));
            return vec![];
        }
    };
    let r = guard(|| plan.run(x, &aux, &consts));
    if std::env::var("C01_TRACE").is_ok() {
        let st = match &r {
            Ok(Ok(_)) => "ok".to_string(),
            Ok(Err(e)) => format!("err {}", crate::mon::strip_digits(&e.to_string())),
            Err(p) => format!("panic {} @ {}", crate::mon::strip_digits(&p.msg), p.loc),
        };
        eprintln!("TRACE {name}|{}|{}|{st}", fam2(dt), plan.p.opt);
    }
    match r {
        Ok(Ok(outs)) => {
            ctx.eval();
            ctx.count(&format!("op.{name}.ok"), 1);
            let next = judge_outputs(ctx, "C01", plan, dt, vals, x, &outs, trail);
            if !vals.is_empty() {
                ctx.class(format!("{name}|{}|{}|s{}|ok", type_class_coarse(dt), plan.p.opt, stepno.min(2)));
            }
            next
        }
        Ok(Err(e)) => {
            let m = e.to_string();
            if crate::mon::is_rejection_msg(&m) {
                ctx.reject();
                ctx.count(&format!("op.{name}.rejected"), 1);
            } else {
                ctx.count(&format!("op.{name}.err"), 1);
            }
            vec![]
        }
        Err(p) => {
            if p.is_model() {
                ctx.inconclusive(&format!("model panic in {name}: {} @ {}", p.msg, p.loc));
            } else if is_fv_panic(&p) {
                let sig = format!("C01|{name}|fv-panic|{}", opreg::panic_class(&p));
                ctx.violation(&sig, format!("force_validate build: {name} panicked inside a re-validating constructor: {} @ {}\n{}\n{}\npipeline so far: {trail}", p.msg, p.loc, plan.describe(), describe_input(dt, vals, x)));
            } else if p.is_rejection() {
                ctx.reject();
                ctx.count(&format!("op.{name}.rejected"), 1);
            } else {
                // not asserted: a panic is not a returned array
                ctx.count(&format!("panic.{name}|{}", p.file()), 1);
            }
            vec![]
        }
    }
}

/// type class with nesting cut at depth 1 (keeps the class space in the thousands)
pub fn type_class_coarse(dt: &DataType) -> String {
    use DataType::*;
    match dt {
        List(f) | LargeList(f) | ListView(f) | LargeListView(f) | FixedSizeList(f, _) => format!("{}<{}>", fam(dt), fam(f.data_type())),
        Struct(_) | Map(_, _) | Union(_, _) => fam(dt).to_string(),
        Dictionary(_, _) | RunEndEncoded(_, _) => fam2(dt),
        other => type_class(other),
    }
}

/// zero-width types are affected by one known defect family (length cannot be derived from
/// buffers); drawn less often so that they do not dominate
pub fn gen_type_zw(rng: &mut Rng, cfg: &TypeCfg) -> DataType {
    loop {
        let dt = gen_type(rng, cfg);
        if opreg::has_zero_width(&dt) && rng.chance(3, 4) {
            continue;
        }
        return dt;
    }
}

pub fn gen_input(rng: &mut Rng) -> (DataType, Vec<Val>, ArrayRef) {
    let cfg = TypeCfg::all();
    let dt = gen_type_zw(rng, &cfg);
    let n = if opreg::small_dict(&dt) { rng.len_biased(20) } else { rng.len_biased(70) };
    let vals = gen_column(rng, &dt, n, true, &cfg);
    let x = if rng.chance(1, 6) { build(&dt, &vals) } else { realise(rng, &dt, &vals) };
    (dt, vals, x)
}

fn pipeline(ctx: &mut Ctx, rng: &mut Rng, first: Option<&dyn Fn(&OpDef) -> bool>, steps: usize) {
    let (dt0, vals0, x0) = match guard(|| gen_input(rng)) {
        Ok(v) => v,
        Err(p) => {
            ctx.inconclusive(&format!("input generation panicked: {} @ {}", p.msg, p.loc));
            return;
        }
    };
    ctx.sample(|| format!("{dt0}: {}", dump_vals(&vals0)));
    pipeline_from(ctx, rng, x0, first, steps, String::new());
}

/// Push `x0` (a valid array from any source: generator, reader) through `steps` registry ops.
pub fn pipeline_from(ctx: &mut Ctx, rng: &mut Rng, x0: ArrayRef, first: Option<&dyn Fn(&OpDef) -> bool>, steps: usize, trail0: String) {
    let mut cur = x0;
    let mut trail = trail0;
    for s in 0..steps {
        let dt = cur.data_type().clone();
        let vals = match guard(|| extract(cur.as_ref())) {
            Ok(v) => v,
            Err(p) => {
                ctx.inconclusive(&format!("extract of a validated array panicked: {} @ {}", p.msg, p.loc));
                return;
            }
        };
        let any = |_: &OpDef| true;
        let pred: &dyn Fn(&OpDef) -> bool = match (s, first) {
            (0, Some(f)) => f,
            _ => &any,
        };
        let plan = match guard(|| opreg::draw_plan(rng, &dt, &vals, pred, 16)) {
            Ok(Some(p)) => p,
            Ok(None) => return,
            Err(p) => {
                ctx.inconclusive(&format!("planner panicked: {} @ {}", p.msg, p.loc));
                return;
            }
        };
        let next = step(ctx, rng, &plan, &dt, &vals, &cur, s, &trail);
        trail.push_str(&format!("{} [{}] -> ", plan.def.name, plan.p.desc));
        let cands: Vec<&ArrayRef> = next.iter().filter(|a| a.len() <= 400).collect();
        if cands.is_empty() {
            // op failed or produced nothing reusable: keep the current array
            continue;
        }
        cur = (*rng.pick(&cands)).clone();
    }
}

/// force_validate / exercise panics are keyed on (op, kind, source file of the re-validating
/// constructor): one defect (e.g. a builder that is not reset by finish()) surfaces through
/// many different constructor messages, which stay in the witness text.
pub fn norm_sig(sig: &str) -> String {
    let p: Vec<&str> = sig.split('|').collect();
    if let Some(i) = p.iter().position(|x| *x == "fv-panic" || *x == "exercise-panic") {
        if p.len() > i + 1 {
            return format!("C01|{}|{}|{}", p[1], p[i], p[i + 1]);
        }
    }
    sig.to_string()
}

pub fn run(ctx: &mut Ctx) {
    ctx.sig_norm = Some(norm_sig);
    const CHUNKS: u64 = 8;
    for k in 0..CHUNKS {
        run_slice(ctx, k, CHUNKS);
    }
}

/// slice `k` of `chunks` of the sections `pipe` and `ctor` (vfull interleaves them with `read`)
pub fn run_slice(ctx: &mut Ctx, k: u64, chunks: u64) {
    // budgets are in pipelines (1..=4 steps each); measured ~0.5 ms per pipeline: quick is
    // ~1.1M registry steps over 16 shards (~25 s per shard on a loaded machine)
    let total_pipe = ctx.tier.pick(40, 320_000, 6_000_000);
    let total_ctor = ctx.tier.pick(20, 120_000, 2_000_000);
    for i in chunk(ctx, "pipe", total_pipe, k, chunks) {
        if ctx.out_of_time() {
            break;
        }
        let mut rng = ctx.begin("pipe", i);
        let steps = 1 + rng.below(4);
        if let Err(p) = guard(|| pipeline(ctx, &mut rng, None, steps)) {
            ctx.inconclusive(&format!("harness panic in pipe case {i}: {} @ {}", p.msg, p.loc));
        }
    }
    for i in chunk(ctx, "ctor", total_ctor, k, chunks) {
        if ctx.out_of_time() {
            break;
        }
        let mut rng = ctx.begin("ctor", i);
        let is_ctor = |o: &OpDef| o.family == "ctor";
        if let Err(p) = guard(|| pipeline(ctx, &mut rng, Some(&is_ctor), 2)) {
            ctx.inconclusive(&format!("harness panic in ctor case {i}: {} @ {}", p.msg, p.loc));
        }
    }
}

/// this shard's indices of `section` falling into slice `k` of `chunks` (a replay runs once)
pub fn chunk(ctx: &Ctx, section: &str, total: u64, k: u64, chunks: u64) -> Vec<u64> {
    if ctx.only_case.is_some() {
        return if k == 0 { ctx.cases(section, total) } else { vec![] };
    }
    let lo = total * k / chunks;
    let hi = total * (k + 1) / chunks;
    ctx.cases(section, total).into_iter().filter(|i| *i >= lo && *i < hi).collect()
}
