//! Shared OP REGISTRY of C01 (well-formed results) and C02 (results depend only on logical
//! values): every entry is a safe public arrow-rs operation taking one *primary* array plus
//! auxiliary arrays / constants that are described LOGICALLY in the plan, so that the same
//! plan can be re-run on any physical realisation of the same logical inputs.
//!
//! A [`Plan`] is drawn from `(data type, logical column)` only; `aux` columns are row-aligned
//! with the primary (for row-wise ops) or free-length (indices, masks, other concat parts);
//! `consts` are never row-selected (scalars, patterns).  The closure runs the real kernel and
//! returns every array / batch / scalar it produced.

use crate::build::{build, realise};
use crate::gens::{self, TypeCfg, gen_column, gen_value};
use crate::mon::PanicInfo;
use crate::rng::Rng;
use crate::val::Val;
use arrow_array::types::*;
use arrow_array::*;
use arrow_buffer::{ArrowNativeType, IntervalDayTime, IntervalMonthDayNano, i256};
use arrow_schema::{ArrowError, DataType, IntervalUnit, TimeUnit};
use std::sync::Arc;

#[path = "opreg_ctor.rs"]
pub mod ctor;
#[path = "opreg_select.rs"]
pub mod select;
#[path = "opreg_compute.rs"]
pub mod compute;

/// One thing returned by an op.
pub enum Out {
    /// array: validated (C01) and compared logically (C02)
    Arr(ArrayRef),
    /// array that is validated but whose content legitimately depends on more than the logical
    /// input (index vectors of unstable sorts under ties, partial builder states)
    Side(ArrayRef),
    Batch(RecordBatch),
    /// an `ArrayData` returned as such by a safe API (validated by C01, not compared by C02)
    Data(arrow_data::ArrayData),
    /// scalar result (aggregates, counts), compared textually
    Text(String),
}

pub type OpResult = Result<Vec<Out>, ArrowError>;
pub type Col = (DataType, Vec<Val>);
pub type OpFn = Box<dyn Fn(&ArrayRef, &[ArrayRef], &[ArrayRef]) -> OpResult>;

/// What a planner returns.
pub struct P {
    pub desc: String,
    /// coarse option class for evidence tuples
    pub opt: String,
    pub aux: Vec<Col>,
    pub consts: Vec<Col>,
    pub f: OpFn,
}

pub struct Plan {
    pub def: &'static OpDef,
    pub p: P,
}

pub struct OpDef {
    pub name: &'static str,
    pub family: &'static str,
    /// output row i depends on input row i only (and aux row i): commutes with take/slice/concat
    pub rowwise: bool,
    /// a compute kernel (C02 congruence); constructors are only used by C01 and C02/rt
    pub kernel: bool,
    pub plan: fn(&OpDef, &mut Rng, &DataType, &[Val]) -> Option<P>,
}

macro_rules! op {
    ($name:literal, $fam:literal, $rw:expr, $kern:expr, $f:path) => {
        OpDef { name: $name, family: $fam, rowwise: $rw, kernel: $kern, plan: $f }
    };
}

pub static OPS: &[OpDef] = &[
    // ---- constructors / builders (C01, C02 round trip)
    op!("builder.finish", "ctor", false, false, ctor::plan),
    op!("builder.finish_cloned", "ctor", false, false, ctor::plan),
    op!("builder.append_array", "ctor", false, false, ctor::plan),
    op!("builder.finish_preserve_values", "ctor", false, false, ctor::plan),
    op!("from_iter", "ctor", false, false, ctor::plan),
    op!("from_vec", "ctor", false, false, ctor::plan),
    op!("parts.try_new", "ctor", false, false, ctor::plan),
    op!("slice", "ctor", false, false, ctor::plan),
    op!("new_null_array", "ctor", false, false, ctor::plan),
    op!("new_empty_array", "ctor", false, false, ctor::plan),
    op!("make_array.to_data", "ctor", false, false, ctor::plan),
    op!("array_data.try_new", "ctor", false, false, ctor::plan),
    op!("array_data.slice", "ctor", false, false, ctor::plan),
    op!("mutable_array_data", "ctor", false, false, ctor::plan),
    op!("primitive.retype", "ctor", true, false, ctor::plan),
    op!("view.gc", "ctor", true, false, ctor::plan),
    op!("bytes.convert", "ctor", true, false, ctor::plan),
    op!("list.to_view", "ctor", true, false, ctor::plan),
    op!("union_builder", "ctor", false, false, ctor::plan),
    op!("dict.with_values", "ctor", false, false, ctor::plan),
    op!("batch.try_new", "ctor", false, false, ctor::plan),
    // ---- arrow-select
    op!("filter", "select", false, true, select::plan),
    op!("filter.optimized", "select", false, true, select::plan),
    op!("take", "select", false, true, select::plan),
    op!("take.checked", "select", false, true, select::plan),
    op!("concat", "select", false, true, select::plan),
    op!("interleave", "select", false, true, select::plan),
    op!("zip", "select", true, true, select::plan),
    op!("merge", "select", false, true, select::plan),
    op!("nullif", "select", true, true, select::plan),
    op!("shift", "select", false, true, select::plan),
    op!("gc_dictionary", "select", true, true, select::plan),
    op!("union_extract", "select", true, true, select::plan),
    op!("coalesce", "select", false, true, select::plan),
    op!("concat_batches", "select", false, true, select::plan),
    op!("filter_record_batch", "select", false, true, select::plan),
    op!("take_record_batch", "select", false, true, select::plan),
    op!("interleave_record_batch", "select", false, true, select::plan),
    // ---- arrow-cast
    op!("cast", "cast", true, true, select::plan),
    op!("cast.unsafe", "cast", true, true, select::plan),
    // ---- arrow-row
    op!("row.convert", "row", true, true, select::plan),
    // ---- arrow-ord
    op!("sort", "ord", false, true, select::plan),
    op!("sort_limit", "ord", false, true, select::plan),
    op!("sort_to_indices", "ord", false, true, select::plan),
    op!("lexsort", "ord", false, true, select::plan),
    op!("lexsort_to_indices", "ord", false, true, select::plan),
    op!("rank", "ord", false, true, select::plan),
    op!("partition", "ord", false, true, select::plan),
    op!("eq", "cmp", true, true, compute::plan),
    op!("neq", "cmp", true, true, compute::plan),
    op!("lt", "cmp", true, true, compute::plan),
    op!("lt_eq", "cmp", true, true, compute::plan),
    op!("gt", "cmp", true, true, compute::plan),
    op!("gt_eq", "cmp", true, true, compute::plan),
    op!("distinct", "cmp", true, true, compute::plan),
    op!("not_distinct", "cmp", true, true, compute::plan),
    // ---- arrow-arith
    op!("add", "arith", true, true, compute::plan),
    op!("sub", "arith", true, true, compute::plan),
    op!("mul", "arith", true, true, compute::plan),
    op!("div", "arith", true, true, compute::plan),
    op!("rem", "arith", true, true, compute::plan),
    op!("add_wrapping", "arith", true, true, compute::plan),
    op!("sub_wrapping", "arith", true, true, compute::plan),
    op!("mul_wrapping", "arith", true, true, compute::plan),
    op!("neg", "arith", true, true, compute::plan),
    op!("neg_wrapping", "arith", true, true, compute::plan),
    op!("agg.sum", "agg", false, true, compute::plan),
    op!("agg.min_max", "agg", false, true, compute::plan),
    op!("agg.product", "agg", false, true, compute::plan),
    op!("agg.bit", "agg", false, true, compute::plan),
    op!("agg.bool", "agg", false, true, compute::plan),
    op!("agg.bytes_min_max", "agg", false, true, compute::plan),
    op!("and", "boolean", true, true, compute::plan),
    op!("or", "boolean", true, true, compute::plan),
    op!("and_kleene", "boolean", true, true, compute::plan),
    op!("or_kleene", "boolean", true, true, compute::plan),
    op!("and_not", "boolean", true, true, compute::plan),
    op!("not", "boolean", true, true, compute::plan),
    op!("is_null", "boolean", true, true, compute::plan),
    op!("is_not_null", "boolean", true, true, compute::plan),
    op!("bitwise.binary", "bitwise", true, true, compute::plan),
    op!("bitwise.scalar", "bitwise", true, true, compute::plan),
    op!("bitwise.not", "bitwise", true, true, compute::plan),
    op!("date_part", "temporal", true, true, compute::plan),
    op!("arity.unary", "arity", true, true, compute::plan),
    op!("arity.try_unary", "arity", true, true, compute::plan),
    op!("arity.binary", "arity", true, true, compute::plan),
    op!("arity.try_binary", "arity", true, true, compute::plan),
    // ---- arrow-string
    op!("length", "string", true, true, compute::plan),
    op!("bit_length", "string", true, true, compute::plan),
    op!("like", "string", true, true, compute::plan),
    op!("ilike", "string", true, true, compute::plan),
    op!("nlike", "string", true, true, compute::plan),
    op!("nilike", "string", true, true, compute::plan),
    op!("starts_with", "string", true, true, compute::plan),
    op!("ends_with", "string", true, true, compute::plan),
    op!("contains", "string", true, true, compute::plan),
    op!("regexp_is_match", "string", true, true, compute::plan),
    op!("regexp_match", "string", true, true, compute::plan),
    op!("substring", "string", true, true, compute::plan),
    op!("substring_by_char", "string", true, true, compute::plan),
    op!("concat_elements", "string", true, true, compute::plan),
];

pub fn find(name: &str) -> Option<&'static OpDef> {
    OPS.iter().find(|o| o.name == name)
}

/// Draw a plan for a random applicable op (up to `tries` attempts); `pred` filters the registry.
pub fn draw_plan(
    rng: &mut Rng,
    dt: &DataType,
    vals: &[Val],
    pred: &dyn Fn(&OpDef) -> bool,
    tries: usize,
) -> Option<Plan> {
    let cands: Vec<&'static OpDef> = OPS.iter().filter(|o| pred(o)).collect();
    if cands.is_empty() {
        return None;
    }
    for _ in 0..tries {
        let def = *rng.pick(&cands);
        if let Some(p) = (def.plan)(def, rng, dt, vals) {
            return Some(Plan { def, p });
        }
    }
    None
}

impl Plan {
    pub fn run(&self, x: &ArrayRef, aux: &[ArrayRef], consts: &[ArrayRef]) -> OpResult {
        (self.p.f)(x, aux, consts)
    }
    /// realise the auxiliary columns (random physical layout)
    pub fn realise_aux(&self, rng: &mut Rng, chaos: bool) -> (Vec<ArrayRef>, Vec<ArrayRef>) {
        let r = |rng: &mut Rng, c: &Col| if chaos { realise(rng, &c.0, &c.1) } else { build(&c.0, &c.1) };
        let a = self.p.aux.iter().map(|c| r(rng, c)).collect();
        let c = self.p.consts.iter().map(|c| r(rng, c)).collect();
        (a, c)
    }
    pub fn describe(&self) -> String {
        let mut s = format!("op {} [{}] {}", self.def.name, self.p.opt, self.p.desc);
        for (i, (dt, v)) in self.p.aux.iter().enumerate() {
            s.push_str(&format!("\n  aux{i}: {dt} = {}", crate::val::dump_vals(v)));
        }
        for (i, (dt, v)) in self.p.consts.iter().enumerate() {
            s.push_str(&format!("\n  const{i}: {dt} = {}", crate::val::dump_vals(v)));
        }
        s
    }
}

// ------------------------------------------------------------------ small helpers for planners

pub fn p(desc: String, opt: &str, aux: Vec<Col>, consts: Vec<Col>, f: impl Fn(&ArrayRef, &[ArrayRef], &[ArrayRef]) -> OpResult + 'static) -> Option<P> {
    Some(P { desc, opt: opt.to_string(), aux, consts, f: Box::new(f) })
}

pub fn one<A: Array + 'static>(a: A) -> OpResult {
    Ok(vec![Out::Arr(Arc::new(a))])
}

pub fn one_ref(a: ArrayRef) -> OpResult {
    Ok(vec![Out::Arr(a)])
}

pub fn nyi<T>(what: &str) -> Result<T, ArrowError> {
    Err(ArrowError::NotYetImplemented(format!("harness: not supported: {what}")))
}

/// the value type behind a top-level dictionary / run-end encoding
pub fn leaf(dt: &DataType) -> &DataType {
    match dt {
        DataType::Dictionary(_, v) => v,
        DataType::RunEndEncoded(_, v) => v.data_type(),
        o => o,
    }
}

pub fn is_encoded(dt: &DataType) -> bool {
    matches!(dt, DataType::Dictionary(_, _) | DataType::RunEndEncoded(_, _))
}

pub fn is_string(dt: &DataType) -> bool {
    matches!(dt, DataType::Utf8 | DataType::LargeUtf8 | DataType::Utf8View)
}

pub fn is_binary(dt: &DataType) -> bool {
    matches!(dt, DataType::Binary | DataType::LargeBinary | DataType::BinaryView)
}

pub fn is_int(dt: &DataType) -> bool {
    dt.is_integer()
}

pub fn contains_type(dt: &DataType, pr: &dyn Fn(&DataType) -> bool) -> bool {
    use DataType::*;
    if pr(dt) {
        return true;
    }
    match dt {
        List(f) | LargeList(f) | ListView(f) | LargeListView(f) | FixedSizeList(f, _) | Map(f, _) => contains_type(f.data_type(), pr),
        Struct(fs) => fs.iter().any(|f| contains_type(f.data_type(), pr)),
        Union(fs, _) => fs.iter().any(|(_, f)| contains_type(f.data_type(), pr)),
        Dictionary(_, v) => contains_type(v, pr),
        RunEndEncoded(_, v) => contains_type(v.data_type(), pr),
        _ => false,
    }
}

pub fn has_zero_width(dt: &DataType) -> bool {
    contains_type(dt, &|d| matches!(d, DataType::FixedSizeBinary(0) | DataType::FixedSizeList(_, 0)))
}

pub fn small_dict(dt: &DataType) -> bool {
    contains_type(dt, &|d| matches!(d, DataType::Dictionary(k, _) if matches!(**k, DataType::Int8 | DataType::UInt8)))
}

/// Coarse type family for signatures: the top-level constructor only (no parameters, no
/// field names, no nesting).
pub fn fam(dt: &DataType) -> &'static str {
    use DataType::*;
    match dt {
        Null => "null",
        Boolean => "bool",
        Int8 | Int16 | Int32 | Int64 | UInt8 | UInt16 | UInt32 | UInt64 => "int",
        Float16 | Float32 | Float64 => "float",
        Decimal32(_, _) | Decimal64(_, _) | Decimal128(_, _) | Decimal256(_, _) => "decimal",
        Date32 | Date64 | Time32(_) | Time64(_) | Timestamp(_, _) => "temporal",
        Duration(_) => "duration",
        Interval(_) => "interval",
        Utf8 | LargeUtf8 => "utf8",
        Binary | LargeBinary => "binary",
        Utf8View | BinaryView => "view",
        FixedSizeBinary(_) => "fsb",
        List(_) | LargeList(_) => "list",
        ListView(_) | LargeListView(_) => "listview",
        FixedSizeList(_, _) => "fsl",
        Struct(_) => "struct",
        Map(_, _) => "map",
        Union(_, _) => "union",
        Dictionary(_, _) => "dict",
        RunEndEncoded(_, _) => "ree",
    }
}

/// family of an encoded type including the family of its values: `dict<utf8>`
pub fn fam2(dt: &DataType) -> String {
    match dt {
        DataType::Dictionary(_, v) => format!("dict<{}>", fam(v)),
        DataType::RunEndEncoded(_, v) => format!("ree<{}>", fam(v.data_type())),
        o => fam(o).to_string(),
    }
}

/// Defect-level phenomenon class of a validator / oracle message: bracketed type prefixes,
/// quoted names and all numbers removed.
pub fn phenomenon(msg: &str) -> String {
    let mut out = String::new();
    let mut depth = 0i32;
    let mut in_quote = false;
    for c in msg.chars() {
        match c {
            '[' if !in_quote => depth += 1,
            ']' if !in_quote && depth > 0 => depth -= 1,
            '"' if depth == 0 => {
                in_quote = !in_quote;
                if !in_quote {
                    out.push_str("\"_\"");
                }
            }
            _ if depth > 0 || in_quote => {}
            _ => out.push(c),
        }
    }
    // arrow-rs nests "<type> child #N invalid: Invalid argument error: " once per nesting
    // level: keep only the innermost message (the chain is a position, not a phenomenon)
    if let Some(i) = out.rfind(" invalid: ") {
        let head = if out.contains("validate_full rejected") { "validate_full rejected: " } else { "" };
        out = format!("{head}{}", &out[i + 10..]);
    }
    // nested slices / columns prefix chains are positions, not phenomena
    let s = crate::mon::strip_digits(&strip_groups(out.trim()));
    let s = s.replace("slice: ", "").replace("column #: ", "").replace("batch slice: ", "");
    let mut s = norm_type_words(&s);
    // arrow-rs nests "T child ## invalid: Invalid argument error: " once per nesting level:
    // the chain length is a position, not a phenomenon
    loop {
        let t = s.replace("T child ## invalid: ", "").replace("Invalid argument error: ", "");
        if t == s {
            break;
        }
        s = t;
    }
    s.chars().take(110).collect()
}

/// data type names are witnesses, not phenomena: every run of type-name words becomes `T`
pub fn norm_type_words(s: &str) -> String {
    const TYPES: [&str; 40] = [
        "Null", "Boolean", "Int#", "UInt#", "Float#", "Decimal#", "Timestamp", "Date#", "Time#", "Duration", "Interval", "Utf#", "LargeUtf#", "Utf#View", "Binary", "LargeBinary", "BinaryView", "FixedSizeBinary", "List", "LargeList",
        "ListView", "LargeListView", "FixedSizeList", "Struct", "Map", "Union", "Dictionary", "RunEndEncoded", "Sparse", "Dense", "non-null", "unsorted", "sorted", "s", "ms", "µs", "ns", "YearMonth", "DayTime", "MonthDayNano",
    ];
    let mut words: Vec<&str> = Vec::new();
    for w in s.split_whitespace() {
        let core = w.trim_matches(|c: char| !c.is_alphanumeric() && c != '#' && c != '-');
        if TYPES.contains(&core) {
            if words.last() != Some(&"T") {
                words.push("T");
            }
        } else if core.strip_suffix("Array").map(|p| TYPES.contains(&p)).unwrap_or(false) {
            words.push("TArray");
        } else {
            words.push(w);
        }
    }
    words.join(" ")
}

/// text with every bracketed group `(..)`, `[..]`, `{..}` and every quoted string removed
fn strip_groups(s: &str) -> String {
    let mut out = String::new();
    let mut depth = 0i32;
    let mut in_quote = false;
    let mut prev = ' ';
    for c in s.chars() {
        match c {
            '"' if prev != '\\' || !in_quote => in_quote = !in_quote,
            _ if in_quote => {}
            '(' | '[' | '{' => depth += 1,
            ')' | ']' | '}' => depth = (depth - 1).max(0),
            _ if depth > 0 => {}
            '\\' => {}
            _ => out.push(c),
        }
        prev = c;
    }
    out.split_whitespace().collect::<Vec<_>>().join(" ")
}

/// location class of a panic (file without line) + message class: first line only, numbers,
/// type descriptions and names removed; for `unwrap()` on an `Err` the error variant and the
/// class of its message
pub fn panic_class(pi: &PanicInfo) -> String {
    let first = pi.msg.lines().next().unwrap_or("");
    let msg = match first.split_once("on an `Err` value: ") {
        Some((_, rest)) => {
            let variant = rest.split(['(', ' ', ':']).next().unwrap_or("");
            let inner = match (rest.find("(\""), rest.rfind("\")")) {
                (Some(a), Some(b)) if b > a + 2 => rest[a + 2..b].replace("\\\"", "'"),
                _ => String::new(),
            };
            let cls: String = norm_type_words(&crate::mon::strip_digits(&strip_groups(&inner.replace('\'', "\"")))).chars().take(90).collect();
            format!("unwrap on Err({variant}: {cls})")
        }
        None => norm_type_words(&crate::mon::strip_digits(&strip_groups(first))).chars().take(100).collect(),
    };
    format!("{}|{}", pi.file(), msg)
}

// ------------------------------------------------------------------ Val <-> native

pub trait Nat: ArrowNativeType {
    fn from_val(v: &Val) -> Self;
    fn to_val(self) -> Val;
}

macro_rules! nat_int {
    ($($t:ty),*) => {$(
        impl Nat for $t {
            fn from_val(v: &Val) -> Self {
                match v {
                    Val::Int(i) => *i as $t,
                    Val::Null => <$t>::default(),
                    o => panic!("model: expected Int, got {o:?}"),
                }
            }
            fn to_val(self) -> Val { Val::Int(self as i128) }
        }
    )*};
}
nat_int!(i8, i16, i32, i64, u8, u16, u32, u64, i128);

impl Nat for half::f16 {
    fn from_val(v: &Val) -> Self {
        match v {
            Val::F16(b) => half::f16::from_bits(*b),
            Val::Null => half::f16::ZERO,
            o => panic!("model: expected F16, got {o:?}"),
        }
    }
    fn to_val(self) -> Val {
        Val::F16(self.to_bits())
    }
}
impl Nat for f32 {
    fn from_val(v: &Val) -> Self {
        match v {
            Val::F32(b) => f32::from_bits(*b),
            Val::Null => 0.0,
            o => panic!("model: expected F32, got {o:?}"),
        }
    }
    fn to_val(self) -> Val {
        Val::F32(self.to_bits())
    }
}
impl Nat for f64 {
    fn from_val(v: &Val) -> Self {
        match v {
            Val::F64(b) => f64::from_bits(*b),
            Val::Null => 0.0,
            o => panic!("model: expected F64, got {o:?}"),
        }
    }
    fn to_val(self) -> Val {
        Val::F64(self.to_bits())
    }
}
impl Nat for i256 {
    fn from_val(v: &Val) -> Self {
        match v {
            Val::Big(b) => *b,
            Val::Int(i) => i256::from_i128(*i),
            Val::Null => i256::ZERO,
            o => panic!("model: expected Big, got {o:?}"),
        }
    }
    fn to_val(self) -> Val {
        Val::Big(self)
    }
}
impl Nat for IntervalDayTime {
    fn from_val(v: &Val) -> Self {
        match v {
            Val::IntervalDT(d, m) => IntervalDayTime::new(*d, *m),
            Val::Null => IntervalDayTime::new(0, 0),
            o => panic!("model: expected IntervalDT, got {o:?}"),
        }
    }
    fn to_val(self) -> Val {
        Val::IntervalDT(self.days, self.milliseconds)
    }
}
impl Nat for IntervalMonthDayNano {
    fn from_val(v: &Val) -> Self {
        match v {
            Val::IntervalMDN(m, d, n) => IntervalMonthDayNano::new(*m, *d, *n),
            Val::Null => IntervalMonthDayNano::new(0, 0, 0),
            o => panic!("model: expected IntervalMDN, got {o:?}"),
        }
    }
    fn to_val(self) -> Val {
        Val::IntervalMDN(self.months, self.days, self.nanoseconds)
    }
}

pub fn opt_nat<N: Nat>(v: &Val) -> Option<N> {
    if v.is_null() { None } else { Some(N::from_val(v)) }
}

pub fn bytes_of(v: &Val) -> Option<&[u8]> {
    v.as_bytes()
}

// ------------------------------------------------------------------ dispatch macros

/// `$m!(KeyType, args..)` for the dictionary key type `$k`
#[macro_export]
macro_rules! key_dispatch {
    ($k:expr, $m:ident $(, $a:tt)*) => {
        match $k {
            arrow_schema::DataType::Int8 => $m!(arrow_array::types::Int8Type $(, $a)*),
            arrow_schema::DataType::Int16 => $m!(arrow_array::types::Int16Type $(, $a)*),
            arrow_schema::DataType::Int32 => $m!(arrow_array::types::Int32Type $(, $a)*),
            arrow_schema::DataType::Int64 => $m!(arrow_array::types::Int64Type $(, $a)*),
            arrow_schema::DataType::UInt8 => $m!(arrow_array::types::UInt8Type $(, $a)*),
            arrow_schema::DataType::UInt16 => $m!(arrow_array::types::UInt16Type $(, $a)*),
            arrow_schema::DataType::UInt32 => $m!(arrow_array::types::UInt32Type $(, $a)*),
            arrow_schema::DataType::UInt64 => $m!(arrow_array::types::UInt64Type $(, $a)*),
            _ => panic!("model: bad dictionary key type"),
        }
    };
}

/// `$m!(RunEndType, args..)`
#[macro_export]
macro_rules! run_dispatch {
    ($k:expr, $m:ident $(, $a:tt)*) => {
        match $k {
            arrow_schema::DataType::Int16 => $m!(arrow_array::types::Int16Type $(, $a)*),
            arrow_schema::DataType::Int32 => $m!(arrow_array::types::Int32Type $(, $a)*),
            arrow_schema::DataType::Int64 => $m!(arrow_array::types::Int64Type $(, $a)*),
            _ => panic!("model: bad run end type"),
        }
    };
}

/// a restricted set of primitive value types used where the product with key types would
/// otherwise explode compile time (dictionary / run-end builders)
#[macro_export]
macro_rules! few_prims {
    ($v:expr, $m:ident, ($($a:tt),*), $fallback:expr) => {
        match $v {
            arrow_schema::DataType::Int8 => $m!(arrow_array::types::Int8Type $(, $a)*),
            arrow_schema::DataType::Int32 => $m!(arrow_array::types::Int32Type $(, $a)*),
            arrow_schema::DataType::Int64 => $m!(arrow_array::types::Int64Type $(, $a)*),
            arrow_schema::DataType::UInt16 => $m!(arrow_array::types::UInt16Type $(, $a)*),
            arrow_schema::DataType::UInt64 => $m!(arrow_array::types::UInt64Type $(, $a)*),
            arrow_schema::DataType::Float32 => $m!(arrow_array::types::Float32Type $(, $a)*),
            arrow_schema::DataType::Float64 => $m!(arrow_array::types::Float64Type $(, $a)*),
            arrow_schema::DataType::Date32 => $m!(arrow_array::types::Date32Type $(, $a)*),
            arrow_schema::DataType::Decimal128(_, _) => $m!(arrow_array::types::Decimal128Type $(, $a)*),
            arrow_schema::DataType::Timestamp(arrow_schema::TimeUnit::Microsecond, _) => $m!(arrow_array::types::TimestampMicrosecondType $(, $a)*),
            arrow_schema::DataType::Duration(arrow_schema::TimeUnit::Second) => $m!(arrow_array::types::DurationSecondType $(, $a)*),
            _ => $fallback,
        }
    };
}

pub fn is_few_prim(dt: &DataType) -> bool {
    use DataType::*;
    matches!(
        dt,
        Int8 | Int32 | Int64 | UInt16 | UInt64 | Float32 | Float64 | Date32 | Decimal128(_, _) | Timestamp(TimeUnit::Microsecond, _) | Duration(TimeUnit::Second)
    )
}

// ------------------------------------------------------------------ logical column helpers

/// A second column of type `dt2` row-aligned with `vals`: a mix of copies of the primary's
/// values (when the types agree), duplicates and fresh boundary-biased values.
pub fn companion(rng: &mut Rng, dt: &DataType, vals: &[Val], dt2: &DataType, nullable: bool) -> Vec<Val> {
    let cfg = TypeCfg::all();
    let same = leaf(dt) == leaf(dt2);
    let mut fresh = gen_column(rng, dt2, vals.len(), nullable, &cfg);
    if same {
        for (i, v) in vals.iter().enumerate() {
            if rng.chance(1, 3) && (nullable || !v.is_null()) && gens::can_be_null(dt2) == gens::can_be_null(dt) {
                fresh[i] = v.clone();
            }
        }
    }
    fresh
}

/// one non-null value of `dt` (biased to values occurring in `vals` when given)
pub fn pick_value(rng: &mut Rng, dt: &DataType, vals: &[Val]) -> Val {
    let nn: Vec<&Val> = vals.iter().filter(|v| !v.is_null()).collect();
    if !nn.is_empty() && rng.chance(1, 2) {
        return (*rng.pick(&nn)).clone();
    }
    if matches!(dt, DataType::Null) {
        return Val::Null;
    }
    gen_value(rng, leaf(dt), &TypeCfg::all())
}

pub fn bool_col(rng: &mut Rng, n: usize, nullable: bool) -> Vec<Val> {
    // selectivity classes: all true / all false / sparse / dense / mixed, runs
    let mode = rng.below(7);
    let mut out = Vec::with_capacity(n);
    let mut cur = rng.bool();
    for _ in 0..n {
        let b = match mode {
            0 => true,
            1 => false,
            2 => rng.chance(1, 10),
            3 => rng.chance(9, 10),
            4 => {
                if rng.chance(1, 6) {
                    cur = !cur;
                }
                cur
            }
            _ => rng.bool(),
        };
        if nullable && rng.chance(1, 6) {
            out.push(Val::Null);
        } else {
            out.push(Val::Bool(b));
        }
    }
    out
}

pub fn index_type(rng: &mut Rng) -> DataType {
    rng.pick(&[
        DataType::UInt32,
        DataType::UInt32,
        DataType::Int32,
        DataType::Int64,
        DataType::UInt64,
        DataType::UInt8,
        DataType::Int16,
        DataType::UInt16,
        DataType::Int8,
    ])
    .clone()
}

/// index column into `n` rows
pub fn index_col(rng: &mut Rng, n: usize, idt: &DataType, nullable: bool) -> Vec<Val> {
    let cap: usize = match idt {
        DataType::Int8 => 127,
        DataType::UInt8 => 255,
        DataType::Int16 => 32767,
        _ => usize::MAX,
    };
    let m = *rng.pick(&[0usize, 1, 2, 5, 9, 17, 33, 64, 65, 130]);
    let m = if n == 0 && !nullable { 0 } else { m };
    let mode = rng.below(4);
    (0..m)
        .map(|i| {
            if n == 0 || (nullable && rng.chance(1, 6)) {
                return Val::Null;
            }
            let hi = n.min(cap.saturating_add(1));
            let k = match mode {
                0 => i % hi,
                1 => hi - 1 - (i % hi),
                2 => rng.below(hi.min(3)),
                _ => rng.below(hi),
            };
            Val::Int(k as i128)
        })
        .collect()
}

pub fn as_usize_indices(v: &[Val]) -> Vec<Option<usize>> {
    v.iter().map(|x| x.int().map(|i| i as usize)).collect()
}

pub fn interval_unit_name(u: &IntervalUnit) -> &'static str {
    match u {
        IntervalUnit::YearMonth => "ym",
        IntervalUnit::DayTime => "dt",
        IntervalUnit::MonthDayNano => "mdn",
    }
}
