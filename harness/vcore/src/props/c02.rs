//! C02: array content, equality and kernel results depend only on logical values.
//!
//! Sections (each case is replayable with `--section S --case N`):
//!   rt    (a) round trip: for 7..=11 realisations of one logical column (canonical, clean slice,
//!         hidden values without slicing, garbage under top-level nulls, random layouts, builder,
//!         FromIterator): `extract == x`, `extract_iter == x` (through `iter()` / `ArrayIter` /
//!         `BitIterator`), the `ArrayFormatter` text of every row is the same for all
//!         realisations, and a builder reused after `finish()` yields exactly the new rows
//!   eq    (b) `==` (and `to_data() ==`) holds for realisations with the same null placement,
//!         and fails against a column with one value / null flipped or one row inserted/removed
//!   cong  (c) congruence: for every registry kernel, `is_ok`, the logical outputs and the
//!         flattened output types agree across 7..=8 realisations of the same inputs (the
//!         auxiliary operands are realised in the same layout class as the primary)
//!   comm  (d) row-wise kernels commute with slice / take / concat of (clean) inputs
//!
//! Layout classes (`realise_as`): canonical | clean-slice (array offset, no hidden values) |
//! noslice-chaos (hidden values, permuted/unused dictionary entries, padded buffers, no array
//! offset) | garbage-under-nulls | unaligned-slice | random.  The *cause* part of a congruence
//! signature says which classes deviate from the canonical run: `offset` (a clean slice already
//! deviates) or `hidden-values`, refined by intervention to `unreferenced-dict-entry` (re-running
//! the kernel on the same array with the unreferenced dictionary entries removed restores the
//! canonical result) and, for byte arrays, `nonempty-null-extent`.
//!
//! not asserted:
//!   * `==` between realisations that place a null differently (dictionary key vs dictionary
//!     value): `ArrayData` equality is documented on physical validity; such pairs are skipped;
//!   * index outputs of unstable sorts under ties and sorted outputs of union-typed columns
//!     (`Out::Side`): only validated by C01; the *taken values* are compared instead;
//!   * error messages; which error when all realisations fail;
//!   * output encoding (dictionary vs plain): only logical content and flattened type;
//!   * sign / payload of NaN *results* of computing kernels (arith, arity, cast, aggregates):
//!     IEEE 754 leaves NaN propagation open and vectorised / scalar paths differ;
//!   * when every realisation panics the op is counted (`all-panic.<op>`), not judged here;
//!   * small-key dictionaries are kept small so that key-capacity errors (which legitimately
//!     depend on the number of physical dictionary entries) do not occur.
//!
//! Signatures are computed from the observation:
//!   `C02|rt|<how>|<type family>|<phenomenon>`, `C02|eq|<family of the smallest sub-array that
//!   still shows it>|<phenomenon>`, `C02|cong|<op tag>|<type family>|<phenomenon>|<cause>`,
//!   `C02|comm|<op tag>|<type family>|<slice|take|concat>|<phenomenon>`.
//! Kernels sharing one implementation share one op tag (`sig_op`); zero-width types
//! (FixedSizeBinary(0), FixedSizeList(_, 0)) are one family of their own (`zero-width`);
//! multi-column ops are keyed `batch`.
//!
//! Self-test of the oracle: `C02_BREAK=<extract|format|eq|cong|comm>` corrupts the model /
//! expectation (never /repo); the matching section must then report violations.

use crate::build::{self, build, realise};
use crate::extract::{extract, flatten_type};
use crate::gens::{self, TypeCfg, gen_column, gen_value};
use crate::mon::{Ctx, PanicInfo, guard, is_rejection_msg};
use crate::props::c01::{chunk, gen_type_zw, type_class_coarse};
use crate::props::opreg::{self, Nat, OpDef, Out, Plan, ctor, fam};
use crate::rng::Rng;
use crate::val::{Val, dump_vals};
use crate::{key_dispatch, run_dispatch};
use arrow_array::cast::AsArray;
use arrow_array::types::*;
use arrow_array::*;
use arrow_buffer::NullBuffer;
use arrow_cast::display::{ArrayFormatter, FormatOptions};
use arrow_schema::DataType;
use std::sync::Arc;

fn broken(what: &str) -> bool {
    std::env::var("C02_BREAK").map(|v| v == what).unwrap_or(false)
}

// ------------------------------------------------------------------ extract through iterators

macro_rules! iter_prim {
    ($t:ty, $a:expr) => {
        $a.as_primitive::<$t>().iter().map(|o| o.map(|x| x.to_val()).unwrap_or(Val::Null)).collect()
    };
}

/// Same contract as `extract`, but through `iter()` / `ArrayIter` / `BitIterator`.
pub fn extract_iter(a: &dyn Array) -> Vec<Val> {
    use DataType::*;
    let nul = |o: Option<Val>| o.unwrap_or(Val::Null);
    match a.data_type() {
        Null => vec![Val::Null; a.len()],
        Boolean => a.as_boolean().iter().map(|o| nul(o.map(Val::Bool))).collect(),
        Utf8 => a.as_string::<i32>().iter().map(|o| nul(o.map(|s| Val::Str(s.to_string())))).collect(),
        LargeUtf8 => a.as_string::<i64>().iter().map(|o| nul(o.map(|s| Val::Str(s.to_string())))).collect(),
        Utf8View => a.as_string_view().iter().map(|o| nul(o.map(|s| Val::Str(s.to_string())))).collect(),
        Binary => a.as_binary::<i32>().iter().map(|o| nul(o.map(|s| Val::Bytes(s.to_vec())))).collect(),
        LargeBinary => a.as_binary::<i64>().iter().map(|o| nul(o.map(|s| Val::Bytes(s.to_vec())))).collect(),
        BinaryView => a.as_binary_view().iter().map(|o| nul(o.map(|s| Val::Bytes(s.to_vec())))).collect(),
        FixedSizeBinary(_) => a.as_fixed_size_binary().iter().map(|o| nul(o.map(|s| Val::Bytes(s.to_vec())))).collect(),
        List(_) => a.as_list::<i32>().iter().map(|o| nul(o.map(|c| Val::List(extract_iter(c.as_ref()))))).collect(),
        LargeList(_) => a.as_list::<i64>().iter().map(|o| nul(o.map(|c| Val::List(extract_iter(c.as_ref()))))).collect(),
        ListView(_) => a.as_list_view::<i32>().iter().map(|o| nul(o.map(|c| Val::List(extract_iter(c.as_ref()))))).collect(),
        LargeListView(_) => a.as_list_view::<i64>().iter().map(|o| nul(o.map(|c| Val::List(extract_iter(c.as_ref()))))).collect(),
        FixedSizeList(_, _) => a.as_fixed_size_list().iter().map(|o| nul(o.map(|c| Val::List(extract_iter(c.as_ref()))))).collect(),
        Map(_, _) => a.as_map().iter().map(|o| nul(o.map(|c| Val::List(extract_iter(&c))))).collect(),
        Struct(_) => {
            let s = a.as_struct();
            let cols: Vec<Vec<Val>> = s.columns().iter().map(|c| extract_iter(c.as_ref())).collect();
            let valid: Vec<bool> = match s.nulls() {
                Some(n) => n.iter().collect(),
                None => vec![true; s.len()],
            };
            valid.iter().enumerate().map(|(i, v)| if *v { Val::Struct(cols.iter().map(|c| c[i].clone()).collect()) } else { Val::Null }).collect()
        }
        Union(fs, _) => {
            let u = a.as_union();
            let mut kids: Vec<Option<Vec<Val>>> = vec![None; 128];
            for (t, _) in fs.iter() {
                kids[t as usize] = Some(extract_iter(u.child(t).as_ref()));
            }
            u.type_ids().iter().enumerate().map(|(i, t)| Val::Union(*t, Box::new(kids[*t as usize].as_ref().expect("declared type id")[u.value_offset(i)].clone()))).collect()
        }
        Dictionary(_, _) => {
            let d = a.as_any_dictionary();
            let keys = extract_iter(d.keys());
            let vals = extract_iter(d.values().as_ref());
            keys.iter()
                .map(|k| match k {
                    Val::Int(i) => vals[*i as usize].clone(),
                    _ => Val::Null,
                })
                .collect()
        }
        RunEndEncoded(r, _) => {
            macro_rules! ree {
                ($R:ty) => {{
                    let ra = a.as_run::<$R>();
                    let vals = extract_iter(ra.values().as_ref());
                    let ends: Vec<usize> = ra.run_ends().values().iter().map(|e| *e as usize).collect();
                    let off = ra.offset();
                    let mut out = Vec::with_capacity(ra.len());
                    let mut run = 0usize;
                    for i in 0..ra.len() {
                        while ends[run] <= off + i {
                            run += 1;
                        }
                        out.push(vals[run].clone());
                    }
                    out
                }};
            }
            run_dispatch!(*r.data_type(), ree)
        }
        prim => {
            downcast_primitive! {
                prim => (iter_prim, a),
                o => panic!("model: extract_iter: unsupported type {o}")
            }
        }
    }
}

/// Like `extract`, but a row whose dictionary *value* is null (valid key) is distinguished from
/// a null key: the two encodings of a dictionary null are different `ArrayData`.
pub fn pview(a: &dyn Array) -> Vec<Val> {
    use DataType::*;
    let marker = || Val::Struct(vec![Val::Str("dictionary-value-null".into())]);
    match a.data_type() {
        Dictionary(_, _) => {
            let d = a.as_any_dictionary();
            let keys = d.keys();
            if a.is_empty() {
                return vec![];
            }
            if d.values().is_empty() {
                return vec![Val::Null; a.len()];
            }
            let vals = pview(d.values().as_ref());
            let norm = d.normalized_keys();
            (0..a.len())
                .map(|i| {
                    if keys.is_null(i) {
                        Val::Null
                    } else {
                        match &vals[norm[i]] {
                            Val::Null => marker(),
                            v => v.clone(),
                        }
                    }
                })
                .collect()
        }
        RunEndEncoded(r, _) => {
            macro_rules! ree {
                ($R:ty) => {{
                    let ra = a.as_run::<$R>();
                    let vals = pview(ra.values().as_ref());
                    (0..ra.len()).map(|i| vals[ra.get_physical_index(i)].clone()).collect()
                }};
            }
            run_dispatch!(*r.data_type(), ree)
        }
        List(_) => (0..a.len()).map(|i| if a.is_null(i) { Val::Null } else { Val::List(pview(a.as_list::<i32>().value(i).as_ref())) }).collect(),
        LargeList(_) => (0..a.len()).map(|i| if a.is_null(i) { Val::Null } else { Val::List(pview(a.as_list::<i64>().value(i).as_ref())) }).collect(),
        ListView(_) => (0..a.len()).map(|i| if a.is_null(i) { Val::Null } else { Val::List(pview(a.as_list_view::<i32>().value(i).as_ref())) }).collect(),
        LargeListView(_) => (0..a.len()).map(|i| if a.is_null(i) { Val::Null } else { Val::List(pview(a.as_list_view::<i64>().value(i).as_ref())) }).collect(),
        FixedSizeList(_, _) => (0..a.len()).map(|i| if a.is_null(i) { Val::Null } else { Val::List(pview(a.as_fixed_size_list().value(i).as_ref())) }).collect(),
        Map(_, _) => (0..a.len()).map(|i| if a.is_null(i) { Val::Null } else { Val::List(pview(&a.as_map().value(i))) }).collect(),
        Struct(_) => {
            let s = a.as_struct();
            let cols: Vec<Vec<Val>> = s.columns().iter().map(|c| pview(c.as_ref())).collect();
            (0..s.len()).map(|i| if s.is_null(i) { Val::Null } else { Val::Struct(cols.iter().map(|c| c[i].clone()).collect()) }).collect()
        }
        Union(_, _) => {
            let u = a.as_union();
            (0..u.len()).map(|i| Val::Union(u.type_id(i), Box::new(pview(u.value(i).as_ref()).into_iter().next().unwrap_or(Val::Null)))).collect()
        }
        _ => extract(a),
    }
}

// ------------------------------------------------------------------ realisations

fn garbage_val(rng: &mut Rng, dt: &DataType, nullable: bool) -> Val {
    if matches!(dt, DataType::Null) {
        return Val::Null;
    }
    if nullable && gens::can_be_null(dt) && rng.chance(1, 4) {
        Val::Null
    } else {
        gen_value(rng, dt, &build::garbage_cfg())
    }
}

/// sliced at a non-byte-aligned offset of a larger array
pub fn unaligned(rng: &mut Rng, dt: &DataType, vals: &[Val]) -> ArrayRef {
    let pre = *rng.pick(&[1usize, 3, 5, 7, 9, 13, 63, 65]);
    let pre = if opreg::small_dict(dt) { pre.min(9) } else { pre };
    let post = rng.below(4);
    let mut all: Vec<Val> = Vec::with_capacity(vals.len() + pre + post);
    for _ in 0..pre {
        all.push(garbage_val(rng, dt, true));
    }
    all.extend_from_slice(vals);
    for _ in 0..post {
        all.push(garbage_val(rng, dt, true));
    }
    realise(rng, dt, &all).slice(pre, vals.len())
}

/// arbitrary (valid) content under the top-level null slots
pub fn garbage_under_nulls(rng: &mut Rng, dt: &DataType, vals: &[Val]) -> Option<ArrayRef> {
    if matches!(dt, DataType::Null | DataType::Union(_, _) | DataType::RunEndEncoded(_, _)) || !vals.iter().any(|v| v.is_null()) {
        return None;
    }
    let filled: Vec<Val> = vals.iter().map(|v| if v.is_null() { garbage_val(rng, dt, false) } else { v.clone() }).collect();
    let a = realise(rng, dt, &filled);
    let nb = NullBuffer::from(vals.iter().map(|v| !v.is_null()).collect::<Vec<bool>>());
    let d = a.to_data().into_builder().nulls(Some(nb)).build().expect("model: garbage_under_nulls build");
    Some(make_array(d))
}

/// the canonical layout, sliced (at a non-byte-aligned offset) out of a longer canonical array
/// whose extra rows are copies of existing rows: an array offset, but no hidden values
pub fn clean_slice(rng: &mut Rng, dt: &DataType, vals: &[Val]) -> ArrayRef {
    let pre = *rng.pick(&[1usize, 3, 5, 7, 9, 13]);
    let post = rng.below(3);
    let filler = |rng: &mut Rng| -> Val {
        // an empty column has no row to copy: pad with the type's default (null) rows
        if vals.is_empty() { build::default_val(dt, true) } else { rng.pick(vals).clone() }
    };
    let mut all: Vec<Val> = Vec::with_capacity(vals.len() + pre + post);
    for _ in 0..pre {
        all.push(filler(rng));
    }
    all.extend_from_slice(vals);
    for _ in 0..post {
        all.push(filler(rng));
    }
    build(dt, &all).slice(pre, vals.len())
}

/// every layout freedom except array offsets: hidden values under nulls / outside extents,
/// unreferenced and permuted dictionary entries, padded buffers, split runs, ...
pub fn noslice_chaos(rng: &mut Rng, dt: &DataType, vals: &[Val]) -> ArrayRef {
    let mut r = build::R { rng, chaos: true, depth: 3 };
    build::mk(&mut r, dt, vals, true)
}

pub const CLASSES: [&str; 5] = ["canonical", "clean-slice", "noslice-chaos", "garbage-under-nulls", "random"];

/// one realisation of the given layout class
pub fn realise_as(rng: &mut Rng, class: &str, dt: &DataType, vals: &[Val]) -> ArrayRef {
    match class {
        "canonical" => build(dt, vals),
        "clean-slice" => clean_slice(rng, dt, vals),
        "noslice-chaos" => noslice_chaos(rng, dt, vals),
        "garbage-under-nulls" => garbage_under_nulls(rng, dt, vals).unwrap_or_else(|| noslice_chaos(rng, dt, vals)),
        "unaligned-slice" => unaligned(rng, dt, vals),
        _ => realise(rng, dt, vals),
    }
}

/// layout classes of the `k` realisations of a case: the first four are fixed, the rest random
pub fn classes_for(rng: &mut Rng, k: usize) -> Vec<&'static str> {
    let mut out = vec!["canonical", "clean-slice", "noslice-chaos", "garbage-under-nulls", "clean-slice", "noslice-chaos"];
    while out.len() < k {
        out.push(if rng.chance(1, 3) { "unaligned-slice" } else { "random" });
    }
    out
}

/// (label, array) realisations of one logical column
pub fn realisations(rng: &mut Rng, dt: &DataType, vals: &[Val], k: usize) -> Vec<(&'static str, ArrayRef)> {
    classes_for(rng, k.max(7)).into_iter().map(|c| (c, realise_as(rng, c, dt, vals))).collect()
}

fn gen_case(rng: &mut Rng, max_depth: u32) -> (DataType, Vec<Val>) {
    let cfg = TypeCfg::all().depth(max_depth);
    let dt = gen_type_zw(rng, &cfg);
    let n = if opreg::small_dict(&dt) { rng.len_biased(20) } else { rng.len_biased(70) };
    let vals = gen_column(rng, &dt, n, true, &cfg);
    (dt, vals)
}

fn nontrivial(vals: &[Val]) -> bool {
    !vals.is_empty() && vals.iter().any(|v| !v.is_null())
}

fn first_diff(a: &[Val], b: &[Val]) -> String {
    if a.len() != b.len() {
        return format!("{} rows vs {} rows", a.len(), b.len());
    }
    for (i, (x, y)) in a.iter().zip(b).enumerate() {
        if x != y {
            return format!("row {i}: {x:?} vs {y:?}");
        }
    }
    "equal".into()
}

fn phys(a: &ArrayRef) -> String {
    format!("{:?}", a.to_data()).chars().take(1800).collect()
}

// ------------------------------------------------------------------ (a) round trip

fn format_rows(a: &ArrayRef) -> Result<Vec<String>, String> {
    let fo = FormatOptions::default().with_null("NULL");
    // an `Err` (unsupported time zone database, ...) is an outcome like any other: it has to
    // be the same for every realisation
    match ArrayFormatter::try_new(a.as_ref(), &fo) {
        Ok(f) => Ok((0..a.len()).map(|i| f.value(i).try_to_string().unwrap_or_else(|_| "<format error>".to_string())).collect()),
        Err(e) => Ok(vec![format!("<formatter error: {}>", crate::mon::strip_digits(&e.to_string()))]),
    }
}

fn run_rt(ctx: &mut Ctx, i: u64) {
    let mut rng = ctx.begin("rt", i);
    let (dt, mut vals) = gen_case(&mut rng, 3);
    let k = 4 + rng.below(3);
    let mut rs: Vec<(&'static str, ArrayRef)> = match guard(|| realisations(&mut rng, &dt, &vals, k)) {
        Ok(r) => r,
        Err(p) => return ctx.inconclusive(&format!("realise panicked: {} @ {}", p.msg, p.loc)),
    };
    if ctor::builder_supported(&dt) {
        match guard(|| ctor::via_builder(&dt, &vals)) {
            Ok(Ok(a)) => rs.push(("builder", a)),
            Ok(Err(e)) if is_rejection_msg(&e.to_string()) => ctx.reject(),
            Ok(Err(e)) => ctx.violation(&format!("C02|rt|builder|{}|builder-error", if opreg::has_zero_width(&dt) { "zero-width" } else { fam(&dt) }), format!("builder rejected a valid column: {e}\ntype {dt}\nvals {}", dump_vals(&vals))),
            Err(p) if p.is_model() || p.is_rejection() => ctx.reject(),
            Err(p) => ctx.violation(&format!("C02|rt|builder|{}", if opreg::has_zero_width(&dt) { "zero-width|panic".to_string() } else { format!("{}|panic|{}", fam(&dt), opreg::panic_class(&p)) }), format!("builder panicked on a valid column: {} @ {}\ntype {dt}\nvals {}", p.msg, p.loc, dump_vals(&vals))),
        }
    }
    if ctor::builder_supported(&dt) && !vals.is_empty() {
        // a builder that has been finished is empty again: second use yields exactly the rows
        // appended after the first `finish()`
        let half = vals.len() / 2;
        let zf = if opreg::has_zero_width(&dt) { "zero-width" } else { fam(&dt) };
        match guard(|| ctor::via_builder_reuse(&dt, &vals, &vals[..half]).map(|(_, second)| extract(second.as_ref()))) {
            Ok(Ok(got)) => {
                if got[..] != vals[..half] {
                    ctx.violation(
                        &format!("C02|rt|builder-reuse|extract-mismatch|{zf}"),
                        format!("a builder reused after finish() does not yield the rows appended to it: {}\nexpected {}\ngot      {}\ntype {dt}", first_diff(&got, &vals[..half]), dump_vals(&vals[..half]), dump_vals(&got)),
                    );
                }
            }
            Ok(Err(_)) => ctx.reject(),
            Err(p) if p.is_model() || p.is_rejection() => ctx.reject(),
            Err(p) => ctx.violation(&format!("C02|rt|builder-reuse|panic|{}", if zf == "zero-width" { "zero-width".to_string() } else { opreg::panic_class(&p) }), format!("a builder reused after finish() panicked: {} @ {}\ntype {dt}\nvals {}", p.msg, p.loc, dump_vals(&vals))),
        }
    }
    if ctor::from_iter_supported(&dt) {
        let mode = *rng.pick(&[0u32, 1, 2]);
        match guard(|| ctor::via_from_iter(&dt, &vals, mode)) {
            Ok(Ok(a)) => rs.push(("from_iter", a)),
            Ok(Err(_)) => ctx.reject(),
            Err(p) if p.is_model() || p.is_rejection() => ctx.reject(),
            Err(p) => ctx.violation(&format!("C02|rt|from_iter|{}", if opreg::has_zero_width(&dt) { "zero-width|panic".to_string() } else { format!("{}|panic|{}", fam(&dt), opreg::panic_class(&p)) }), format!("FromIterator constructor panicked on a valid column: {} @ {}\ntype {dt}\nvals {}", p.msg, p.loc, dump_vals(&vals))),
        }
    }
    if broken("extract") && !vals.is_empty() {
        // self-test: the expectation is wrong in one row
        let j = rng.below(vals.len());
        vals[j] = if vals[j].is_null() { gen_value(&mut rng, &dt, &TypeCfg::all()) } else { Val::Null };
    }
    ctx.eval();
    let mut texts: Option<(usize, Vec<String>)> = None;
    for (ri, (label, a)) in rs.iter().enumerate() {
        let zfam = if opreg::has_zero_width(&dt) { "zero-width".to_string() } else { fam(&dt).to_string() };
        let how = match *label {
            "builder" | "from_iter" => *label,
            _ => "realise",
        };
        let r = guard(|| -> Result<Vec<String>, (String, String)> {
            if a.data_type() != &dt {
                return Err(("type-mismatch".into(), format!("array has type {} for logical type {dt}", a.data_type())));
            }
            let e = extract(a.as_ref());
            if e != vals {
                return Err(("extract-mismatch".into(), format!("accessors show {}\nexpected       {}\nfirst difference {}", dump_vals(&e), dump_vals(&vals), first_diff(&e, &vals))));
            }
            let e2 = extract_iter(a.as_ref());
            if e2 != vals {
                return Err(("iter-mismatch".into(), format!("iterators show {}\nexpected       {}\nfirst difference {}", dump_vals(&e2), dump_vals(&vals), first_diff(&e2, &vals))));
            }
            format_rows(a).map_err(|e| ("formatter-error".into(), e))
        });
        match r {
            Ok(Ok(mut t)) => {
                if broken("format") && ri == 1 && !t.is_empty() {
                    t[0].push('!');
                }
                if texts.is_none() {
                    texts = Some((ri, t));
                } else if let Some((r0, t0)) = &texts {
                    if *t0 != t {
                        let j = t0.iter().zip(&t).position(|(x, y)| x != y).unwrap_or(0);
                        ctx.violation(
                            &format!("C02|rt|{how}|{zfam}|format-differs"),
                            format!("ArrayFormatter text differs between realisation {r0} ({}) and {ri} ({label}) at row {j}: {:?} vs {:?}\ntype {dt}\nvals {}\nlayout {}", rs[*r0].0, t0.get(j), t.get(j), dump_vals(&vals), phys(a)),
                        );
                    }
                }
                if nontrivial(&vals) {
                    ctx.class(format!("rt|{}|{label}", type_class_coarse(&dt)));
                }
            }
            Ok(Err((what, detail))) if is_rejection_msg(&detail) && what == "formatter-error" => ctx.reject(),
            Ok(Err((what, detail))) => ctx.violation(&format!("C02|rt|{how}|{zfam}|{what}"), format!("realisation {ri} ({label}): {detail}\ntype {dt}\nlayout {}", phys(a))),
            Err(p) if p.is_model() => ctx.inconclusive(&format!("model panic in rt: {} @ {}", p.msg, p.loc)),
            Err(p) => ctx.violation(&if zfam == "zero-width" { format!("C02|rt|{how}|zero-width|panic") } else { format!("C02|rt|{how}|{zfam}|panic|{}", opreg::panic_class(&p)) }, format!("realisation {ri} ({label}): accessor/iterator/formatter panicked: {} @ {}\ntype {dt}\nvals {}\nlayout {}", p.msg, p.loc, dump_vals(&vals), phys(a))),
        }
    }
    ctx.sample(|| format!("rt {dt}: {} ({} realisations)", dump_vals(&vals), rs.len()));
}

// ------------------------------------------------------------------ (b) equality

/// one logical mutation: (kind, new column)
fn mutate(rng: &mut Rng, dt: &DataType, vals: &[Val]) -> Option<(&'static str, Vec<Val>)> {
    let cfg = TypeCfg::all();
    let mut v = vals.to_vec();
    let n = v.len();
    let fresh = |rng: &mut Rng| if matches!(dt, DataType::Null) { Val::Null } else { gen_value(rng, dt, &cfg) };
    match rng.below(4) {
        0 if n > 0 && !matches!(dt, DataType::Null) => {
            // change one value
            let j = rng.below(n);
            for _ in 0..20 {
                let x = fresh(rng);
                if x != v[j] {
                    v[j] = x;
                    return Some(("value-changed", v));
                }
            }
            None
        }
        1 if n > 0 && gens::can_be_null(dt) && !matches!(dt, DataType::Null) => {
            let j = rng.below(n);
            v[j] = if v[j].is_null() { fresh(rng) } else { Val::Null };
            Some(("null-flipped", v))
        }
        2 if n > 0 => {
            v.remove(rng.below(n));
            Some(("row-removed", v))
        }
        _ => {
            if opreg::small_dict(dt) && n >= 100 {
                return None;
            }
            let j = rng.below(n + 1);
            let x = if gens::can_be_null(dt) && rng.chance(1, 4) { Val::Null } else { fresh(rng) };
            v.insert(j, x);
            Some(("row-inserted", v))
        }
    }
}

fn arrays_equal(a: &ArrayRef, b: &ArrayRef) -> (bool, bool) {
    let e1 = a.as_ref() == b.as_ref();
    let e2 = a.to_data() == b.to_data();
    (e1, e2)
}


/// `want_equal`: same null placement and content but `==` is false; otherwise: logically
/// different (same length) but `==` is true
fn offending(a: &ArrayRef, b: &ArrayRef, want_equal: bool) -> bool {
    if a.data_type() != b.data_type() || a.len() != b.len() {
        return false;
    }
    let r = guard(|| {
        let same = pview(a.as_ref()) == pview(b.as_ref());
        let eq = a.to_data() == b.to_data();
        if want_equal { same && !eq } else { !same && eq }
    });
    // a panic inside `==` on the sub-arrays counts as offending as well
    r.unwrap_or(true)
}

/// Type family of the smallest sub-array pair that still shows the wrong `==` result: first
/// a single row, then (for a single row) its children.
fn localise(a: &ArrayRef, b: &ArrayRef, want_equal: bool, depth: u32) -> &'static str {
    use DataType::*;
    let here = fam(a.data_type());
    if depth > 6 {
        return here;
    }
    if a.len() > 1 {
        for i in 0..a.len() {
            let (ra, rb) = (a.slice(i, 1), b.slice(i, 1));
            if offending(&ra, &rb, want_equal) {
                return localise(&ra, &rb, want_equal, depth + 1);
            }
        }
        // only the whole arrays misbehave (position dependent)
        return here;
    }
    if a.len() != 1 || a.is_null(0) != b.is_null(0) || a.is_null(0) {
        return here;
    }
    let kids: Vec<(ArrayRef, ArrayRef)> = match guard(|| -> Vec<(ArrayRef, ArrayRef)> {
        match a.data_type() {
            Struct(_) => a.as_struct().columns().iter().cloned().zip(b.as_struct().columns().iter().cloned()).collect(),
            List(_) => vec![(a.as_list::<i32>().value(0), b.as_list::<i32>().value(0))],
            LargeList(_) => vec![(a.as_list::<i64>().value(0), b.as_list::<i64>().value(0))],
            ListView(_) => vec![(a.as_list_view::<i32>().value(0), b.as_list_view::<i32>().value(0))],
            LargeListView(_) => vec![(a.as_list_view::<i64>().value(0), b.as_list_view::<i64>().value(0))],
            FixedSizeList(_, _) => vec![(a.as_fixed_size_list().value(0), b.as_fixed_size_list().value(0))],
            Map(_, _) => vec![(Arc::new(a.as_map().value(0)) as ArrayRef, Arc::new(b.as_map().value(0)) as ArrayRef)],
            Union(_, _) if a.as_union().type_id(0) == b.as_union().type_id(0) => vec![(a.as_union().value(0), b.as_union().value(0))],
            _ => vec![],
        }
    }) {
        Ok(k) => k,
        Err(_) => return here,
    };
    for (ka, kb) in &kids {
        if offending(ka, kb, want_equal) {
            return localise(ka, kb, want_equal, depth + 1);
        }
    }
    here
}

fn run_eq(ctx: &mut Ctx, i: u64) {
    let mut rng = ctx.begin("eq", i);
    let (dt, vals) = gen_case(&mut rng, 3);
    let k = 4 + rng.below(3);
    let rs = match guard(|| realisations(&mut rng, &dt, &vals, k)) {
        Ok(r) => r,
        Err(p) => return ctx.inconclusive(&format!("realise panicked: {} @ {}", p.msg, p.loc)),
    };
    let views: Vec<Vec<Val>> = match guard(|| rs.iter().map(|(_, a)| pview(a.as_ref())).collect()) {
        Ok(v) => v,
        Err(p) => return ctx.inconclusive(&format!("pview panicked: {} @ {}", p.msg, p.loc)),
    };
    ctx.eval();
    // equal pairs
    for a in 0..rs.len() {
        for b in a + 1..rs.len() {
            if views[a] != views[b] {
                ctx.count("eq.pairs_skipped_null_placement", 1);
                continue;
            }
            ctx.count("eq.equal_pairs", 1);
            match guard(|| arrays_equal(&rs[a].1, &rs[b].1)) {
                Ok((e1, e2)) => {
                    let (e1, e2) = if broken("eq") { (!e1, e2) } else { (e1, e2) };
                    if !e1 || !e2 {
                        let node = if broken("eq") { fam(&dt) } else { localise(&rs[a].1, &rs[b].1, true, 0) };
                        ctx.violation(
                            &format!("C02|eq|{node}|equal-columns-compare-unequal"),
                            format!("realisations {a} ({}) and {b} ({}) of the same column: `==` is {e1}, `to_data() ==` is {e2}\nsmallest sub-array showing it has type family {node}\ntype {dt}\nvals {}\nlhs {}\nrhs {}", rs[a].0, rs[b].0, dump_vals(&vals), phys(&rs[a].1), phys(&rs[b].1)),
                        );
                    } else if nontrivial(&vals) {
                        ctx.class(format!("eq|{}|{}x{}|equal", type_class_coarse(&dt), rs[a].0, rs[b].0));
                    }
                }
                Err(p) => ctx.violation(&format!("C02|eq|{}|panic|{}", fam(&dt), opreg::panic_class(&p)), format!("`==` panicked: {} @ {}\ntype {dt}\nvals {}\nlhs {}\nrhs {}", p.msg, p.loc, dump_vals(&vals), phys(&rs[a].1), phys(&rs[b].1))),
            }
        }
    }
    // unequal pairs
    for _ in 0..3 {
        let Some((kind, v2)) = mutate(&mut rng, &dt, &vals) else { continue };
        let other = match guard(|| if rng.bool() { realise(&mut rng, &dt, &v2) } else { unaligned(&mut rng, &dt, &v2) }) {
            Ok(a) => a,
            Err(p) => {
                ctx.inconclusive(&format!("realise panicked: {} @ {}", p.msg, p.loc));
                continue;
            }
        };
        let (label, mine) = rng.pick(&rs).clone();
        ctx.count("eq.unequal_pairs", 1);
        match guard(|| (arrays_equal(&mine, &other), arrays_equal(&other, &mine))) {
            Ok(((e1, e2), (e3, e4))) => {
                if e1 || e2 || e3 || e4 {
                    let node = if mine.len() == other.len() { localise(&mine, &other, false, 0) } else { fam(&dt) };
                    ctx.violation(
                        &format!("C02|eq|{node}|different-columns-compare-equal"),
                        format!("columns that differ logically ({kind}) compare equal: a==b {e1}, data {e2}, b==a {e3}, data {e4}\nsmallest sub-array showing it has type family {node}\ntype {dt}\nlhs ({label}) {}\nrhs {}\nlhs layout {}\nrhs layout {}", dump_vals(&vals), dump_vals(&v2), phys(&mine), phys(&other)),
                    );
                } else if nontrivial(&vals) {
                    ctx.class(format!("eq|{}|{label}|{kind}", type_class_coarse(&dt)));
                }
            }
            Err(p) => ctx.violation(&format!("C02|eq|{}|panic|{}", fam(&dt), opreg::panic_class(&p)), format!("`==` panicked: {} @ {}\ntype {dt}\nlhs {}\nrhs {}", p.msg, p.loc, dump_vals(&vals), dump_vals(&v2))),
        }
    }
    ctx.sample(|| format!("eq {dt}: {}", dump_vals(&vals)));
}

// ------------------------------------------------------------------ (c) congruence

/// logical view of what an op returned
#[derive(Clone, PartialEq, Debug)]
pub enum LOut {
    Arr(DataType, Vec<Val>),
    Text(String),
    Side,
}

pub enum Res {
    Ok(Vec<LOut>),
    Err(String),
    Panic(PanicInfo),
}

impl Res {
    pub fn status(&self) -> &'static str {
        match self {
            Res::Ok(_) => "ok",
            Res::Err(_) => "err",
            Res::Panic(_) => "panic",
        }
    }
    fn brief(&self) -> String {
        match self {
            Res::Ok(o) => format!("Ok({} outputs)", o.len()),
            Res::Err(e) => format!("Err({e})"),
            Res::Panic(p) => format!("panic {} @ {}", p.msg, p.loc),
        }
    }
}

/// results of *computing* kernels: the sign / payload of a NaN result is not a logical value
/// (IEEE 754 leaves NaN propagation to the implementation; vectorised and scalar code paths of
/// the same kernel legitimately differ)
fn canon_nan(v: &mut Val) {
    match v {
        Val::F16(b) if half::f16::from_bits(*b).is_nan() => *b = 0x7E00,
        Val::F32(b) if f32::from_bits(*b).is_nan() => *b = 0x7FC0_0000,
        Val::F64(b) if f64::from_bits(*b).is_nan() => *b = 0x7FF8_0000_0000_0000,
        Val::List(xs) | Val::Struct(xs) => xs.iter_mut().for_each(canon_nan),
        Val::Union(_, x) => canon_nan(x),
        _ => {}
    }
}

fn logical_outs(outs: &[Out], computing: bool) -> Vec<LOut> {
    let mut v = logical_outs_raw(outs);
    if computing {
        for o in v.iter_mut() {
            if let LOut::Arr(_, vals) = o {
                vals.iter_mut().for_each(canon_nan);
            }
        }
    }
    v
}

fn logical_outs_raw(outs: &[Out]) -> Vec<LOut> {
    let mut v = Vec::new();
    for o in outs {
        match o {
            Out::Arr(a) => v.push(LOut::Arr(flatten_type(a.data_type()), extract(a.as_ref()))),
            Out::Side(_) | Out::Data(_) => v.push(LOut::Side),
            Out::Text(t) => v.push(LOut::Text(t.clone())),
            Out::Batch(b) => {
                for c in b.columns() {
                    v.push(LOut::Arr(flatten_type(c.data_type()), extract(c.as_ref())));
                }
            }
        }
    }
    v
}

pub fn run_plan(plan: &Plan, x: &ArrayRef, aux: &[ArrayRef], consts: &[ArrayRef]) -> Res {
    let computing = matches!(plan.def.family, "arith" | "arity" | "agg" | "cast" | "temporal");
    match guard(|| plan.run(x, aux, consts).map(|o| logical_outs(&o, computing))) {
        Ok(Ok(o)) => Res::Ok(o),
        Ok(Err(e)) => Res::Err(e.to_string()),
        Err(p) => Res::Panic(p),
    }
}

/// entries of the top-level dictionary that no valid key references
fn unreferenced_dict_entries(a: &ArrayRef) -> usize {
    let Some(d) = a.as_any_dictionary_opt() else { return 0 };
    let n = d.values().len();
    if n == 0 {
        return 0;
    }
    let mut used = vec![false; n];
    let norm = d.normalized_keys();
    for i in 0..a.len() {
        if d.keys().is_valid(i) && norm[i] < n {
            used[norm[i]] = true;
        }
    }
    used.iter().filter(|u| !**u).count()
}

/// the same dictionary array with only the referenced entries kept (values rebuilt canonically)
fn compact_dict(a: &ArrayRef) -> Option<ArrayRef> {
    let DataType::Dictionary(k, v) = a.data_type() else { return None };
    let d = a.as_any_dictionary();
    let n = d.values().len();
    if n == 0 {
        return None;
    }
    let norm = d.normalized_keys();
    let vals = extract(d.values().as_ref());
    let mut remap: Vec<Option<usize>> = vec![None; n];
    let mut kept: Vec<Val> = Vec::new();
    let mut newkeys: Vec<Option<usize>> = Vec::with_capacity(a.len());
    for i in 0..a.len() {
        if d.keys().is_valid(i) {
            let o = norm[i];
            if remap[o].is_none() {
                remap[o] = Some(kept.len());
                kept.push(vals[o].clone());
            }
            newkeys.push(remap[o]);
        } else {
            newkeys.push(None);
        }
    }
    let values = build(v, &kept);
    macro_rules! mk {
        ($K:ty) => {{
            let keys: PrimitiveArray<$K> = newkeys.iter().map(|o| o.map(|x| <<$K as ArrowPrimitiveType>::Native as ArrowNativeType>::usize_as(x))).collect();
            DictionaryArray::<$K>::try_new(keys, values).ok().map(|d| Arc::new(d) as ArrayRef)
        }};
    }
    use arrow_buffer::ArrowNativeType;
    key_dispatch!(**k, mk)
}

/// a variable-length slot under a null that is not empty (bytes / list extents, views)
fn has_nonempty_null_extent(a: &ArrayRef) -> bool {
    use DataType::*;
    let Some(nulls) = a.nulls() else { return false };
    let null_at = |i: usize| nulls.is_null(i);
    macro_rules! offs {
        ($o:expr) => {{
            let o = $o;
            (0..a.len()).any(|i| null_at(i) && o[i + 1] > o[i])
        }};
    }
    match a.data_type() {
        Utf8 => offs!(a.as_string::<i32>().value_offsets()),
        LargeUtf8 => offs!(a.as_string::<i64>().value_offsets()),
        Binary => offs!(a.as_binary::<i32>().value_offsets()),
        LargeBinary => offs!(a.as_binary::<i64>().value_offsets()),
        List(_) => offs!(a.as_list::<i32>().value_offsets()),
        LargeList(_) => offs!(a.as_list::<i64>().value_offsets()),
        Map(_, _) => offs!(a.as_map().value_offsets()),
        Utf8View => (0..a.len()).any(|i| null_at(i) && (a.as_string_view().views()[i] as u32) > 0),
        BinaryView => (0..a.len()).any(|i| null_at(i) && (a.as_binary_view().views()[i] as u32) > 0),
        ListView(_) => (0..a.len()).any(|i| null_at(i) && a.as_list_view::<i32>().value_sizes()[i] > 0),
        LargeListView(_) => (0..a.len()).any(|i| null_at(i) && a.as_list_view::<i64>().value_sizes()[i] > 0),
        _ => false,
    }
}

/// how two results differ: (phenomenon, text)
fn differ(a: &Res, b: &Res) -> Option<(&'static str, String)> {
    match (a, b) {
        (Res::Ok(x), Res::Ok(y)) => {
            if x.len() != y.len() {
                return Some(("value-differs", format!("{} outputs vs {} outputs", x.len(), y.len())));
            }
            for (k, (p, q)) in x.iter().zip(y).enumerate() {
                match (p, q) {
                    (LOut::Arr(t1, v1), LOut::Arr(t2, v2)) => {
                        if v1 != v2 {
                            return Some(("value-differs", format!("output {k}: {}\n  reference {}\n  got       {}", first_diff(v1, v2), dump_vals(v1), dump_vals(v2))));
                        }
                        if t1 != t2 {
                            return Some(("type-differs", format!("output {k}: logical type {t1} vs {t2}")));
                        }
                    }
                    (LOut::Text(s1), LOut::Text(s2)) => {
                        if s1 != s2 {
                            return Some(("value-differs", format!("output {k}: {s1} vs {s2}")));
                        }
                    }
                    (LOut::Side, LOut::Side) => {}
                    _ => return Some(("value-differs", format!("output {k} has a different kind"))),
                }
            }
            None
        }
        (Res::Err(_), Res::Err(_)) => None,
        (Res::Panic(_), Res::Panic(_)) => None,
        _ => Some(("outcome-differs", format!("{} vs {}", a.brief(), b.brief()))),
    }
}


/// family-level op tag for signatures: kernels sharing one implementation share one tag
pub fn sig_op(plan: &Plan) -> String {
    match (plan.def.family, plan.def.name) {
        ("cmp", _) => "cmp".into(),
        // casting *from* a union is an extraction of one child, whatever the target type
        ("cast", _) if plan.p.opt.starts_with("->") && plan.p.desc.starts_with("from-union") => "cast".into(),
        ("cast", _) => format!("cast{}", plan.p.opt),
        (_, "like" | "ilike" | "nlike" | "nilike" | "starts_with" | "ends_with" | "contains") => "like-family".into(),
        (_, "sort" | "sort_limit" | "sort_to_indices") => "sort".into(),
        (_, "lexsort" | "lexsort_to_indices") => "lexsort".into(),
        (_, "filter" | "filter.optimized") => "filter".into(),
        (_, "take" | "take.checked") => "take".into(),
        (_, "and" | "or" | "and_kleene" | "or_kleene" | "and_not") => "boolean-binary".into(),
        (_, n) => n.to_string(),
    }
}

/// type-family tag of a signature: multi-column ops are keyed as "batch" (the primary column's
/// type is not what matters), zero-width types (one defect family of their own) get "+zw"
pub fn fam_tag(plan: &Plan, dt: &DataType) -> String {
    const BATCH: [&str; 10] = ["coalesce", "concat_batches", "filter_record_batch", "take_record_batch", "interleave_record_batch", "batch.try_new", "lexsort", "lexsort_to_indices", "partition", "row.convert"];
    let zw = opreg::has_zero_width(dt) || plan.p.aux.iter().chain(&plan.p.consts).any(|c| opreg::has_zero_width(&c.0));
    if zw {
        return "zero-width".to_string();
    }
    if BATCH.contains(&plan.def.name) && !plan.p.aux.is_empty() { "batch".to_string() } else { fam(dt).to_string() }
}

/// phenomenon + (for an outcome difference) what the deviating side did
fn what_class(what: &str, reference: &Res, got: &Res, err_kind: bool) -> String {
    if what != "outcome-differs" {
        return what.to_string();
    }
    let side = |r: &Res| match r {
        Res::Ok(_) => "ok".to_string(),
        // the error *kind* (`ArrowError` variant), not the message
        Res::Err(e) if err_kind => format!("err({})", e.split(':').next().unwrap_or("").trim().replace(' ', "-")),
        Res::Err(_) => "err".to_string(),
        Res::Panic(p) => format!("panic|{}", opreg::panic_class(p)),
    };
    format!("outcome-differs|{}-vs-{}", side(reference), side(got))
}

fn kernel_ops(o: &OpDef) -> bool {
    o.kernel
}

fn run_cong(ctx: &mut Ctx, i: u64) {
    let mut rng = ctx.begin("cong", i);
    let (dt, vals) = gen_case(&mut rng, 2);
    let plan = match guard(|| opreg::draw_plan(&mut rng, &dt, &vals, &kernel_ops, 16)) {
        Ok(Some(p)) => p,
        Ok(None) => return,
        Err(p) => return ctx.inconclusive(&format!("planner panicked: {} @ {}", p.msg, p.loc)),
    };
    let name = plan.def.name;
    let k = 4 + rng.below(5);
    let rs = match guard(|| realisations(&mut rng, &dt, &vals, k)) {
        Ok(r) => r,
        Err(p) => return ctx.inconclusive(&format!("realise panicked: {} @ {}", p.msg, p.loc)),
    };
    // every run gets its own physical layout of the auxiliary operands as well
    let mut runs: Vec<(Vec<ArrayRef>, Vec<ArrayRef>, Res)> = Vec::new();
    for (ri, (_, x)) in rs.iter().enumerate() {
        let class = rs[ri].0;
        let made = guard(|| {
            let a: Vec<ArrayRef> = plan.p.aux.iter().map(|c| realise_as(&mut rng, class, &c.0, &c.1)).collect();
            let c: Vec<ArrayRef> = plan.p.consts.iter().map(|c| realise_as(&mut rng, class, &c.0, &c.1)).collect();
            (a, c)
        });
        let (aux, consts) = match made {
            Ok(v) => v,
            Err(p) => return ctx.inconclusive(&format!("aux realisation panicked: {} @ {}", p.msg, p.loc)),
        };
        let mut r = run_plan(&plan, x, &aux, &consts);
        if let Res::Panic(p) = &r {
            if p.is_model() {
                return ctx.inconclusive(&format!("model panic in {name}: {} @ {}", p.msg, p.loc));
            }
        }
        if broken("cong") && ri == 2 {
            if let Res::Ok(o) = &mut r {
                if let Some(LOut::Arr(_, v)) = o.iter_mut().find(|l| matches!(l, LOut::Arr(_, v) if !v.is_empty())) {
                    v[0] = if v[0].is_null() { Val::Bool(true) } else { Val::Null };
                }
            }
        }
        runs.push((aux, consts, r));
    }
    ctx.eval();
    ctx.count(&format!("op.{name}.{}", runs[0].2.status()), 1);
    let statuses: Vec<&str> = runs.iter().map(|r| r.2.status()).collect();
    if statuses.iter().all(|s| *s == "err") {
        if let Res::Err(e) = &runs[0].2 {
            if is_rejection_msg(e) {
                ctx.reject();
            }
        }
    }
    if statuses.iter().all(|s| *s == "panic") {
        ctx.count(&format!("all-panic.{name}"), 1);
    }
    let mut reported = false;
    for ri in 1..runs.len() {
        let Some((what, text)) = differ(&runs[0].2, &runs[ri].2) else { continue };
        if reported {
            ctx.count("cong.further_differences_same_case", 1);
            continue;
        }
        reported = true;
        // cause class: which layout classes deviate from the canonical run
        let fails: Vec<usize> = (1..runs.len()).filter(|j| differ(&runs[0].2, &runs[*j].2).is_some()).collect();
        let passes: Vec<usize> = (0..runs.len()).filter(|j| !fails.contains(j)).collect();
        let failing_class = |c: &str| fails.iter().any(|j| rs[*j].0 == c);
        let mut cause = if failing_class("clean-slice") {
            "offset"
        } else if failing_class("noslice-chaos") || failing_class("garbage-under-nulls") {
            "hidden-values"
        } else {
            // only layouts that combine an offset with hidden values deviate: the values
            // outside the slice are hidden values as well
            "hidden-values"
        };
        if cause == "hidden-values" {
            // refine by intervention / feature
            let bad = *fails.iter().find(|j| matches!(rs[**j].0, "noslice-chaos" | "garbage-under-nulls")).unwrap_or(&ri);
            if matches!(dt, DataType::Dictionary(_, _)) && unreferenced_dict_entries(&rs[bad].1) > 0 {
                if let Some(c) = guard(|| compact_dict(&rs[bad].1)).ok().flatten() {
                    let again = run_plan(&plan, &c, &runs[bad].0, &runs[bad].1);
                    if differ(&runs[0].2, &again).is_none() {
                        cause = "unreferenced-dict-entry";
                    }
                }
            }
            let bytes_like = matches!(fam(&dt), "utf8" | "binary" | "view");
            if cause == "hidden-values" && bytes_like && fails.iter().all(|j| has_nonempty_null_extent(&rs[*j].1)) && !passes.iter().any(|j| has_nonempty_null_extent(&rs[*j].1)) {
                cause = "nonempty-null-extent";
            }
        }
        let hidden = matches!(cause, "hidden-values" | "unreferenced-dict-entry" | "nonempty-null-extent");
        let what = what_class(what, &runs[0].2, &runs[ri].2, !hidden);
        let optag = if hidden && plan.def.family == "cast" { "cast".to_string() } else { sig_op(&plan) };
        let sig = format!("C02|cong|{optag}|{}|{what}|{cause}", fam_tag(&plan, &dt));
        // not asserted: the association order of floating-point sums / products. Run-end
        // realisations with differently split runs legitimately multiply / add in a different
        // order (last-ulp differences); only value differences of these float aggregates are
        // exempt, outcome differences are still reported.
        let float_leaf = {
            let mut t = &dt;
            loop {
                match t {
                    DataType::Dictionary(_, v) => t = v,
                    DataType::RunEndEncoded(_, v) => t = v.data_type(),
                    _ => break,
                }
            }
            matches!(t, DataType::Float16 | DataType::Float32 | DataType::Float64)
        };
        // (the run-end form of agg.min_max returns [sum, min, max]: only its output 0, the sum, is exempt)
        if float_leaf && what.starts_with("value-differs") && (name.starts_with("agg.sum") || name.starts_with("agg.product") || (name == "agg.min_max" && text.starts_with("output 0:"))) {
            ctx.count("not_asserted_float_reassociation", 1);
            continue;
        }
        // not asserted: dictionary key capacity. Whether merged dictionaries still fit the key type
        // depends on how many (possibly unreferenced) dictionary entries a layout carries.
        if text.contains("Dictionary key bigger than the key type") {
            ctx.count("not_asserted_dictionary_key_capacity", 1);
            continue;
        }
        ctx.violation(
            &sig,
            format!(
                "kernel result depends on the physical layout: realisation 0 (canonical) vs {ri} ({})\n{text}\nstatuses {statuses:?} of layout classes {:?}\n{}\ninput type {dt}\ninput rows {}\ncanonical layout {}\ndeviating layout {}",
                rs[ri].0,
                rs.iter().map(|r| r.0).collect::<Vec<_>>(),
                plan.describe(),
                dump_vals(&vals),
                phys(&rs[0].1),
                phys(&rs[ri].1)
            ),
        );
    }
    if !reported && nontrivial(&vals) && statuses[0] != "panic" {
        ctx.class(format!("cong|{name}|{}|{}|{}", type_class_coarse(&dt), plan.p.opt, statuses[0]));
    }
    ctx.sample(|| format!("cong {} on {dt}: {} -> {}", plan.describe(), dump_vals(&vals), runs[0].2.brief()));
}

// ------------------------------------------------------------------ (d) commutation

fn rowwise_ops(o: &OpDef) -> bool {
    o.rowwise
}

fn select_model(v: &[Val], idx: &[usize]) -> Vec<Val> {
    idx.iter().map(|i| v[*i].clone()).collect()
}

fn run_comm(ctx: &mut Ctx, i: u64) {
    use arrow_select::concat::concat;
    use arrow_select::take::take;
    let mut rng = ctx.begin("comm", i);
    let (dt, vals) = gen_case(&mut rng, 2);
    let n = vals.len();
    let plan = match guard(|| opreg::draw_plan(&mut rng, &dt, &vals, &rowwise_ops, 16)) {
        Ok(Some(p)) => p,
        Ok(None) => return,
        Err(p) => return ctx.inconclusive(&format!("planner panicked: {} @ {}", p.msg, p.loc)),
    };
    let name = plan.def.name;
    let made = guard(|| {
        // clean inputs: hidden values are the business of `cong`; here only the selection varies
        let x = build(&dt, &vals);
        let (aux, consts) = plan.realise_aux(&mut rng, false);
        (x, aux, consts)
    });
    let (x, aux, consts) = match made {
        Ok(v) => v,
        Err(p) => return ctx.inconclusive(&format!("realise panicked: {} @ {}", p.msg, p.loc)),
    };
    if aux.iter().any(|a| a.len() != n) {
        return ctx.inconclusive(&format!("row-wise op {name} has a non-aligned auxiliary column"));
    }
    let full = run_plan(&plan, &x, &aux, &consts);
    let Res::Ok(full_outs) = &full else {
        // the relation is conditional on K(x) succeeding
        match &full {
            Res::Err(e) if is_rejection_msg(e) => ctx.reject(),
            Res::Panic(p) if p.is_model() => ctx.inconclusive(&format!("model panic in {name}: {} @ {}", p.msg, p.loc)),
            _ => ctx.count(&format!("comm.full_failed.{name}"), 1),
        }
        return;
    };
    ctx.eval();
    ctx.count(&format!("op.{name}.ok"), 1);
    // selections: (kind, row index list, how to apply to an array)
    let o = rng.below(n + 1);
    let l = rng.below(n - o + 1);
    let tidx: Vec<usize> = if n == 0 { vec![] } else { (0..*rng.pick(&[0usize, 1, 3, 9, 33, 70])).map(|_| rng.below(n)).collect() };
    let (c0, c1) = {
        let (a, b) = (rng.below(n + 1), rng.below(n + 1));
        (a.min(b), a.max(b))
    };
    let take_arr = UInt32Array::from(tidx.iter().map(|i| *i as u32).collect::<Vec<u32>>());
    let sels: Vec<(&'static str, Vec<usize>)> = vec![("slice", (o..o + l).collect()), ("take", tidx.clone()), ("concat", (c1..n).chain(0..c0).chain(c0..c1).collect())];
    for (kind, rows) in &sels {
        let apply = |a: &ArrayRef| -> Result<ArrayRef, String> {
            match *kind {
                "slice" => Ok(a.slice(o, l)),
                "take" => take(a.as_ref(), &take_arr, None).map_err(|e| e.to_string()),
                _ => {
                    let parts = [a.slice(c1, n - c1), a.slice(0, c0), a.slice(c0, c1 - c0)];
                    let refs: Vec<&dyn Array> = parts.iter().map(|p| p.as_ref()).collect();
                    concat(&refs).map_err(|e| e.to_string())
                }
            }
        };
        let sel = guard(|| -> Result<(ArrayRef, Vec<ArrayRef>), String> {
            let xs = apply(&x)?;
            let mut au = Vec::new();
            for a in &aux {
                au.push(apply(a)?);
            }
            Ok((xs, au))
        });
        let (xs, auxs) = match sel {
            Ok(Ok(v)) => v,
            // the selection kernel itself failed: nothing to compare (it is judged by cong / C01)
            _ => {
                ctx.count(&format!("comm.selection_failed.{kind}"), 1);
                continue;
            }
        };
        let part = run_plan(&plan, &xs, &auxs, &consts);
        // expected: the same rows of the full result
        let mut expect: Vec<LOut> = Vec::new();
        let mut comparable = true;
        for lo in full_outs {
            match lo {
                LOut::Arr(t, v) if v.len() == n => expect.push(LOut::Arr(t.clone(), select_model(v, rows))),
                LOut::Arr(_, _) => comparable = false,
                other => expect.push(other.clone()),
            }
        }
        if !comparable {
            ctx.count(&format!("comm.not_rowwise_output.{name}"), 1);
            continue;
        }
        let mut expect = Res::Ok(expect);
        if broken("comm") && *kind == "take" {
            if let Res::Ok(o) = &mut expect {
                if let Some(LOut::Arr(_, v)) = o.iter_mut().find(|l| matches!(l, LOut::Arr(_, v) if !v.is_empty())) {
                    v.reverse();
                    v[0] = Val::Str("broken".into());
                }
            }
        }
        match differ(&expect, &part) {
            None => {
                if !rows.is_empty() && nontrivial(&vals) {
                    ctx.class(format!("comm|{name}|{}|{}|{kind}", type_class_coarse(&dt), plan.p.opt));
                }
            }
            Some((what, text)) => {
                if let Res::Panic(p) = &part {
                    if p.is_model() {
                        ctx.inconclusive(&format!("model panic in {name}: {} @ {}", p.msg, p.loc));
                        continue;
                    }
                }
                let what = what_class(what, &expect, &part, true);
                let sig = format!("C02|comm|{}|{}|{kind}|{what}", sig_op(&plan), fam_tag(&plan, &dt));
                ctx.violation(
                    &sig,
                    format!(
                        "K({kind}(x)) != {kind}(K(x)) for row-wise kernel {name}\n{text}\nselection rows {:?}\n{}\ninput type {dt}\ninput rows {}\ninput layout {}\nselected input layout {}",
                        rows.iter().take(80).collect::<Vec<_>>(),
                        plan.describe(),
                        dump_vals(&vals),
                        phys(&x),
                        phys(&xs)
                    ),
                );
            }
        }
    }
    ctx.sample(|| format!("comm {} on {dt}: {}", plan.describe(), dump_vals(&vals)));
}

/// Defect-level signature: `C02|section|op|type family|cause class` (cong),
/// `C02|comm|op|type family|selection kind`, `C02|rt|how[|family]`, `C02|eq|family|phenomenon`.
/// The outcome pair, panic site and message (which vary with the seed for one and the same
/// defect) stay in the witness text as "fine signature".
pub fn norm_sig(sig: &str) -> String {
    let p: Vec<&str> = sig.split('|').collect();
    if p.len() < 3 {
        return sig.to_string();
    }
    match p[1] {
        "cong" if p.len() >= 4 => {
            let cause = match *p.last().unwrap() {
                "offset" => "offset",
                "hidden-values" | "unreferenced-dict-entry" | "nonempty-null-extent" => "hidden-values",
                _ => "other",
            };
            format!("C02|cong|{}|{}|{}", p[2], p[3], cause)
        }
        "comm" if p.len() >= 5 => format!("C02|comm|{}|{}|{}", p[2], p[3], p[4]),
        "rt" => {
            if p[2] == "builder-reuse" {
                "C02|rt|builder-reuse".to_string()
            } else if p.len() >= 4 {
                format!("C02|rt|{}|{}", p[2], p[3])
            } else {
                sig.to_string()
            }
        }
        "eq" if p.len() >= 4 => format!("C02|eq|{}|{}", p[2], p[3]),
        _ => sig.to_string(),
    }
}

pub fn run(ctx: &mut Ctx) {
    ctx.sig_norm = Some(norm_sig);
    // quick: ~15k (x, f) groups over 16 shards
    let t_rt = ctx.tier.pick(20, 120_000, 2_000_000);
    let t_eq = ctx.tier.pick(20, 120_000, 2_000_000);
    let t_cong = ctx.tier.pick(40, 320_000, 5_000_000);
    let t_comm = ctx.tier.pick(40, 240_000, 4_000_000);
    const CHUNKS: u64 = 8;
    for k in 0..CHUNKS {
        for (sec, total, f) in [("rt", t_rt, run_rt as fn(&mut Ctx, u64)), ("eq", t_eq, run_eq as fn(&mut Ctx, u64)), ("cong", t_cong, run_cong as fn(&mut Ctx, u64)), ("comm", t_comm, run_comm as fn(&mut Ctx, u64))] {
            for i in chunk(ctx, sec, total, k, CHUNKS) {
                if ctx.out_of_time() {
                    break;
                }
                if let Err(p) = guard(|| f(ctx, i)) {
                    ctx.inconclusive(&format!("harness panic in section {sec} case {i}: {} @ {}", p.msg, p.loc));
                }
            }
        }
    }
}
