//! C11 — arrow-row: byte order of rows == lexicographic order of the column
//! values, byte equality == logical equality, rows decode back to the values,
//! rows survive the BinaryArray / RowParser round trip.
//!
//! Sections
//!   rows    1..=5 fields of every supported type (nested struct / list / list-view /
//!           fixed-size list / map / union / dictionary / run-end), all option
//!           combinations per field
//!   varlen  variable-length values of every length 0..=70 (+ a few longer) around the
//!           8- and 32-byte block boundaries, embedded 0x00 / 0xFF, prefix families,
//!           empty vs null, plain and wrapped (list, list-view, fsl, struct, dict, ree)
//!
//! Every case uses ONE converter and several conversions: table 1 converted in
//! one call from a random physical realisation, the same table converted again
//! from a different realisation (must give byte-identical rows: garbage under
//! nulls, dictionary permutation, offsets, views must not leak into rows),
//! table 2 appended in chunks to an `empty_rows` buffer.
//!
//! Oracle, for all pairs of rows across the conversions:
//!   * `Row::cmp` == reference tuple order (`c10::model_cmp` with the row format's
//!     documented union rule: type id first, a null union value is a null of the
//!     selected child)
//!   * `Row::cmp` == tuple of `make_comparator` over the concatenated columns, except
//!     where the two documented rules for a union slot holding a null differ (the
//!     comparator treats it as a null slot; counted in `union_null_rule_pairs`)
//!   * byte-equal <=> all values logically equal; equal rows hash equally
//!   * `convert_rows` on an arbitrary selection (with repeats, mixing conversions),
//!     on pushed rows, after `try_into_binary` -> `from_binary`, and through
//!     `RowParser::parse` returns the original logical values and arrays that pass
//!     the independent validator
//!
//! not asserted:
//!   * the byte encoding itself, row lengths, capacity, `size()`
//!   * rows produced by different converters
//!   * the data type / physical layout of decoded arrays (dictionaries are
//!     documented to come back as plain values; only logical content is compared;
//!     type changes are counted in `decoded_type_differs`)
//!   * converter construction or conversion failing with not implemented / not
//!     supported (rejection)

use super::c10::{
    OPTS, Slice, UnionRule, cols_tag, contains, gen_one, is_null_under, kind, model_cmp_rows, norm, oname,
    tclass,
};
use crate::build::{build, realise};
use crate::extract::extract;
use crate::gens::{TypeCfg, gen_column, gen_type};
use crate::mon::{Ctx, guard, is_rejection_msg};
use crate::rng::Rng;
use crate::val::{Val, dump_vals};
use crate::validate::check_array;
use arrow_array::{Array, ArrayRef};
use arrow_ord::ord::make_comparator;
use arrow_row::{OwnedRow, Row, RowConverter, Rows, SortField};
use arrow_schema::{DataType, Field, Fields, SortOptions};
use std::cmp::Ordering;
use std::hash::{Hash, Hasher};
use std::sync::Arc;

const RULE: UnionRule = UnionRule::TypeIdFirst;

pub struct Table {
    pub dts: Vec<DataType>,
    pub opts: Vec<SortOptions>,
    /// per column
    pub t1: Vec<Vec<Val>>,
    pub t2: Vec<Vec<Val>>,
}

impl Table {
    fn column(&self, c: usize) -> Table {
        Table {
            dts: vec![self.dts[c].clone()],
            opts: vec![self.opts[c]],
            t1: vec![self.t1[c].clone()],
            t2: vec![self.t2[c].clone()],
        }
    }
    fn dump(&self) -> String {
        let mut s = String::new();
        for c in 0..self.dts.len() {
            s.push_str(&format!(
                "field {c}: {} {:?}\n  table1 {}\n  table2 {}\n",
                self.dts[c],
                self.opts[c],
                dump_vals(&self.t1[c]),
                dump_vals(&self.t2[c])
            ));
        }
        s
    }
}

pub enum Res {
    Held(Stats),
    Reject(String),
    /// (stage|what, detail)
    Viol(String, String),
}

#[derive(Default)]
pub struct Stats {
    pub pairs: u64,
    pub equal_pairs: u64,
    pub union_rule_pairs: u64,
    pub decoded_rows: u64,
    pub type_differs: u64,
    pub type_differs_nodict: u64,
}

fn rejection(m: &str) -> bool {
    is_rejection_msg(m)
}

#[allow(deprecated)]
fn hash_of(r: &Row<'_>) -> u64 {
    let mut h = std::hash::SipHasher::new();
    r.hash(&mut h);
    h.finish()
}

macro_rules! try_arrow {
    ($e:expr, $stage:expr) => {
        match $e {
            Ok(v) => v,
            Err(e) => {
                let m = e.to_string();
                return if rejection(&m) {
                    Res::Reject(m)
                } else {
                    Res::Viol(format!("{}|Err", $stage), format!("{} returned Err: {m}", $stage))
                };
            }
        }
    };
}

/// decoded arrays against expected per-column values
fn check_decoded(
    stage: &str,
    got: &[ArrayRef],
    tb: &Table,
    expect: &dyn Fn(usize, usize) -> Val,
    nrows: usize,
    st: &mut Stats,
) -> Option<(String, String)> {
    if got.len() != tb.dts.len() {
        return Some((format!("{stage}|columns"), format!("{} arrays for {} fields", got.len(), tb.dts.len())));
    }
    for (c, a) in got.iter().enumerate() {
        if let Err(e) = check_array(a.as_ref()) {
            return Some((format!("{stage}|invalid-array"), format!("field {c}: decoded array fails independent validation: {e}")));
        }
        if a.data_type() != &tb.dts[c] {
            st.type_differs += 1;
            if !contains(&tb.dts[c], &|x| matches!(x, DataType::Dictionary(_, _))) {
                st.type_differs_nodict += 1;
            }
        }
        let vals = extract(a.as_ref());
        if vals.len() != nrows {
            return Some((format!("{stage}|length"), format!("field {c}: {} rows decoded, expected {nrows}", vals.len())));
        }
        for r in 0..nrows {
            let w = expect(c, r);
            if vals[r] != w {
                return Some((
                    format!("{stage}|values"),
                    format!("field {c} ({}) row {r}: decoded {:?}, original {:?}\ndecoded column {}", tb.dts[c], vals[r], w, dump_vals(&vals)),
                ));
            }
        }
        st.decoded_rows += nrows as u64;
    }
    None
}

pub fn check_table(rng: &mut Rng, tb: &Table) -> Res {
    let nc = tb.dts.len();
    let n1 = tb.t1[0].len();
    let n2 = tb.t2[0].len();
    let mut st = Stats::default();
    let fields: Vec<SortField> = (0..nc)
        .map(|c| SortField::new_with_options(tb.dts[c].clone(), tb.opts[c]))
        .collect();
    let conv = try_arrow!(RowConverter::new(fields), "new");
    // conversion 1: one call
    let a1: Vec<ArrayRef> = (0..nc).map(|c| realise(rng, &tb.dts[c], &tb.t1[c])).collect();
    let rows1 = try_arrow!(conv.convert_columns(&a1), "convert_columns");
    if rows1.num_rows() != n1 {
        return Res::Viol("convert_columns|num_rows".into(), format!("{} rows for {n1} input rows", rows1.num_rows()));
    }
    // conversion 1b: same values, other layout => identical bytes
    let canonical = rng.chance(1, 3);
    let a1b: Vec<ArrayRef> = (0..nc)
        .map(|c| if canonical { build(&tb.dts[c], &tb.t1[c]) } else { realise(rng, &tb.dts[c], &tb.t1[c]) })
        .collect();
    let rows1b = try_arrow!(conv.convert_columns(&a1b), "convert_columns");
    if rows1b.num_rows() != n1 {
        return Res::Viol("convert_columns|num_rows".into(), format!("{} rows for {n1} input rows", rows1b.num_rows()));
    }
    for i in 0..n1 {
        if rows1.row(i).as_ref() != rows1b.row(i).as_ref() {
            return Res::Viol(
                "layout-dependent-bytes".into(),
                format!(
                    "row {i} of table1 encodes differently from two physical layouts of the same values\n  {:02x?}\n  {:02x?}\n  values {:?}",
                    rows1.row(i).as_ref(),
                    rows1b.row(i).as_ref(),
                    (0..nc).map(|c| tb.t1[c][i].clone()).collect::<Vec<_>>()
                ),
            );
        }
    }
    // conversion 2: appended in chunks
    let mut rows2 = conv.empty_rows(rng.below(n2 + 2), rng.below(64));
    let mut start = 0;
    while start < n2 {
        let cap = *rng.pick(&[1usize, 3, 8, 64]);
        let len = 1 + rng.below((n2 - start).min(cap));
        let chunk: Vec<ArrayRef> = (0..nc)
            .map(|c| realise(rng, &tb.dts[c], &tb.t2[c][start..start + len]))
            .collect();
        try_arrow!(conv.append(&mut rows2, &chunk), "append");
        start += len;
        if rows2.num_rows() != start {
            return Res::Viol("append|num_rows".into(), format!("{} rows after appending {start}", rows2.num_rows()));
        }
    }
    // all rows / all values
    let n = n1 + n2;
    let row_at = |i: usize| -> Row<'_> { if i < n1 { rows1.row(i) } else { rows2.row(i - n1) } };
    let all: Vec<Vec<Val>> = (0..nc)
        .map(|c| tb.t1[c].iter().chain(tb.t2[c].iter()).cloned().collect())
        .collect();
    let normed: Vec<Vec<Val>> = all.iter().map(|col| col.iter().map(|v| norm(v, RULE)).collect()).collect();
    // tuple of real comparators over the concatenated columns
    let cat: Vec<ArrayRef> = (0..nc).map(|c| build(&tb.dts[c], &all[c])).collect();
    let mut cmps = Vec::new();
    for c in 0..nc {
        match make_comparator(cat[c].as_ref(), cat[c].as_ref(), tb.opts[c]) {
            Ok(f) => cmps.push(f),
            Err(e) => return Res::Reject(format!("make_comparator: {e}")),
        }
    }
    let has_union = tb.dts.iter().any(|d| contains(d, &|x| matches!(x, DataType::Union(_, _))));
    let hashes: Vec<u64> = (0..n).map(|i| hash_of(&row_at(i))).collect();
    for i in 0..n {
        let ri = row_at(i);
        if ri.as_ref() != ri.data() {
            return Res::Viol("row|as_ref".into(), "Row::as_ref() != Row::data()".into());
        }
        for j in i..n {
            let rj = row_at(j);
            let got = ri.cmp(&rj);
            if got != ri.as_ref().cmp(rj.as_ref()) || rj.cmp(&ri) != got.reverse() || (ri == rj) != (got == Ordering::Equal) {
                return Res::Viol("row|ord-impl".into(), format!("Row Ord/Eq inconsistent with its bytes for rows {i},{j}"));
            }
            let want = model_cmp_rows(&tb.dts, &tb.opts, &all, i, &all, j, RULE);
            st.pairs += 1;
            let vals = || {
                format!(
                    "row {i}: {:?}\nrow {j}: {:?}\nbytes {i}: {:02x?}\nbytes {j}: {:02x?}",
                    (0..nc).map(|c| all[c][i].clone()).collect::<Vec<_>>(),
                    (0..nc).map(|c| all[c][j].clone()).collect::<Vec<_>>(),
                    ri.as_ref(),
                    rj.as_ref()
                )
            };
            if got != want {
                return Res::Viol(
                    "order-mismatch".into(),
                    format!("Row::cmp = {got:?}, reference order of the values = {want:?}\n{}", vals()),
                );
            }
            let eq = (0..nc).all(|c| normed[c][i] == normed[c][j]);
            if (got == Ordering::Equal) != eq {
                return Res::Viol(
                    "byte-equality-vs-logical-equality".into(),
                    format!("rows byte-equal = {}, values logically equal = {eq}\n{}", got == Ordering::Equal, vals()),
                );
            }
            if eq {
                st.equal_pairs += 1;
                if hashes[i] != hashes[j] {
                    return Res::Viol("row|hash".into(), format!("equal rows {i},{j} hash differently"));
                }
            }
            // real comparator
            let mut t = Ordering::Equal;
            for f in &cmps {
                t = f(i, j);
                if t != Ordering::Equal {
                    break;
                }
            }
            if t != got {
                let explained = has_union
                    && model_cmp_rows(&tb.dts, &tb.opts, &all, i, &all, j, UnionRule::LogicalNull) == t;
                if explained {
                    st.union_rule_pairs += 1;
                } else {
                    return Res::Viol(
                        "row-vs-make_comparator".into(),
                        format!("Row::cmp = {got:?}, tuple of make_comparator = {t:?}\n{}", vals()),
                    );
                }
            }
        }
    }
    // decode: everything, and an arbitrary selection
    let val_at = |c: usize, i: usize| all[c][i].clone();
    let dec1 = try_arrow!(conv.convert_rows(&rows1), "convert_rows");
    if let Some((s, d)) = check_decoded("convert_rows", &dec1, tb, &|c, r| val_at(c, r), n1, &mut st) {
        return Res::Viol(s, d);
    }
    let dec2 = try_arrow!(conv.convert_rows(&rows2), "convert_rows");
    if let Some((s, d)) = check_decoded("convert_rows-appended", &dec2, tb, &|c, r| val_at(c, n1 + r), n2, &mut st) {
        return Res::Viol(s, d);
    }
    if n > 0 {
        let k = rng.below(n + 6);
        let sel: Vec<usize> = (0..k).map(|_| rng.below(n)).collect();
        let dec = try_arrow!(conv.convert_rows(sel.iter().map(|&i| row_at(i))), "convert_rows");
        if let Some((s, d)) = check_decoded("convert_rows-selection", &dec, tb, &|c, r| val_at(c, sel[r]), k, &mut st) {
            return Res::Viol(s, d);
        }
        // pushed (owned) rows
        let mut pushed: Rows = conv.empty_rows(0, 0);
        let owned: Vec<OwnedRow> = sel.iter().map(|&i| row_at(i).owned()).collect();
        for (o, &i) in owned.iter().zip(sel.iter()) {
            if o.row() != row_at(i) || o.as_ref() != row_at(i).as_ref() {
                return Res::Viol("owned-row".into(), format!("OwnedRow of row {i} differs from the row"));
            }
            pushed.push(o.row());
        }
        let dec = try_arrow!(conv.convert_rows(&pushed), "convert_rows");
        if let Some((s, d)) = check_decoded("convert_rows-pushed", &dec, tb, &|c, r| val_at(c, sel[r]), k, &mut st) {
            return Res::Viol(s, d);
        }
    }
    // binary round trip + parser
    let which2 = n2 > 0 && rng.bool();
    let (src, base, cnt) = if which2 { (rows2.clone(), n1, n2) } else { (rows1.clone(), 0, n1) };
    let bytes: Vec<Vec<u8>> = (0..cnt).map(|i| src.row(i).as_ref().to_vec()).collect();
    let bin = try_arrow!(src.try_into_binary(), "try_into_binary");
    if bin.len() != cnt || bin.null_count() != 0 {
        return Res::Viol("try_into_binary|shape".into(), format!("{} rows ({} nulls) for {cnt}", bin.len(), bin.null_count()));
    }
    for i in 0..cnt {
        if bin.value(i) != bytes[i].as_slice() {
            return Res::Viol("try_into_binary|bytes".into(), format!("row {i} changed in the BinaryArray"));
        }
    }
    let parser = conv.parser();
    let parsed: Vec<Row<'_>> = (0..cnt).map(|i| parser.parse(bin.value(i))).collect();
    for i in 0..cnt {
        if parsed[i] != row_at(base + i) || parsed[i].cmp(&row_at(base + i)) != Ordering::Equal {
            return Res::Viol("parser|row".into(), format!("parsed row {i} != original row"));
        }
    }
    let dec = try_arrow!(conv.convert_rows(parsed.iter().copied()), "convert_rows(parsed)");
    if let Some((s, d)) = check_decoded("convert_rows-parsed", &dec, tb, &|c, r| val_at(c, base + r), cnt, &mut st) {
        return Res::Viol(s, d);
    }
    let back = conv.from_binary(bin.clone());
    if back.num_rows() != cnt {
        return Res::Viol("from_binary|num_rows".into(), format!("{} rows for {cnt}", back.num_rows()));
    }
    for i in 0..cnt {
        if back.row(i).as_ref() != bytes[i].as_slice() {
            return Res::Viol("from_binary|bytes".into(), format!("row {i} changed through the binary round trip"));
        }
    }
    let dec = try_arrow!(conv.convert_rows(&back), "convert_rows(from_binary)");
    if let Some((s, d)) = check_decoded("convert_rows-from_binary", &dec, tb, &|c, r| val_at(c, base + r), cnt, &mut st) {
        return Res::Viol(s, d);
    }
    Res::Held(st)
}

/// signature tag of one field type: every type that contains a union is one
/// class (the union codec is what such failures have in common)
fn field_tag(dt: &DataType) -> String {
    if contains(dt, &|x| matches!(x, DataType::Union(_, _))) {
        "Union*".to_string()
    } else {
        kind(dt)
    }
}

/// the decode stages share one signature class
fn sig_what(what: &str) -> String {
    if what.starts_with("convert_rows") {
        match what.split_once('|') {
            Some((_, rest)) => format!("decode|{rest}"),
            None => "decode".to_string(),
        }
    } else {
        what.to_string()
    }
}

/// Some((signature, detail)) if the table refutes the property
fn failure(rng: &mut Rng, tb: &Table, multi_ok: bool) -> Result<Result<Stats, Option<(String, String)>>, String> {
    let desc = |o: SortOptions| if o.descending { "desc" } else { "asc" };
    let single = tb.dts.len() == 1;
    if !single && !multi_ok {
        return Err("model: failure() on multi".into());
    }
    let tag = if single {
        format!("{}|{}", field_tag(&tb.dts[0]), desc(tb.opts[0]))
    } else {
        format!("multi:{}", cols_tag(&tb.dts))
    };
    match guard(|| check_table(rng, tb)) {
        Ok(Res::Held(st)) => Ok(Ok(st)),
        Ok(Res::Reject(_)) => Ok(Err(None)),
        Ok(Res::Viol(what, detail)) => Ok(Err(Some((
            format!("C11|{tag}|{}", sig_what(&what)),
            format!("stage {what}\n{detail}\n{}", tb.dump()),
        )))),
        Err(p) => {
            if p.is_model() {
                Err(format!("model panic: {} @ {}", p.msg, p.loc))
            } else if p.is_rejection() {
                Ok(Err(None))
            } else {
                Ok(Err(Some((
                    format!("C11|{tag}|panic|{}|{}", p.file(), crate::mon::strip_digits(&p.msg)),
                    format!("panic: {} @ {}\n{}", p.msg, p.loc, tb.dump()),
                ))))
            }
        }
    }
}

/// run one table; a failure of a multi-field table is localised to a single field
fn run_table(ctx: &mut Ctx, rng: &mut Rng, tb: &Table, section: &str) {
    let mut r1 = rng.fork();
    let n = tb.t1[0].len() + tb.t2[0].len();
    match failure(&mut r1, tb, true) {
        Err(why) => ctx.inconclusive(&why),
        Ok(Ok(st)) => {
            if n > 0 {
                ctx.eval();
                ctx.count("row_pairs", st.pairs);
                ctx.count("equal_row_pairs", st.equal_pairs);
                ctx.count("union_null_rule_pairs", st.union_rule_pairs);
                ctx.count("decoded_values", st.decoded_rows);
                ctx.count("decoded_type_differs", st.type_differs);
                ctx.count("decoded_type_differs_without_dictionary", st.type_differs_nodict);
                for c in 0..tb.dts.len() {
                    ctx.class(format!("{section}|{}|{}|f{}", tclass(&tb.dts[c]), oname(tb.opts[c]), tb.dts.len().min(3)));
                }
                ctx.sample(|| format!("{section}\n{}", tb.dump()));
            }
        }
        Ok(Err(None)) => ctx.reject(),
        Ok(Err(Some((sig, detail)))) => {
            if tb.dts.len() > 1 {
                for c in 0..tb.dts.len() {
                    let one = tb.column(c);
                    let mut r2 = rng.fork();
                    if let Ok(Err(Some((s1, d1)))) = failure(&mut r2, &one, false) {
                        ctx.violation(&s1, format!("{d1}\n(field {c} alone, localised from a {}-field table)", tb.dts.len()));
                        return;
                    }
                }
            }
            ctx.violation(&sig, detail);
        }
    }
}

// ------------------------------------------------------------------ rows

fn sec_rows(ctx: &mut Ctx) {
    let total = ctx.tier.pick(24, 160_000, 4_800_000);
    let slice = Slice::new(ctx, 0.65);
    for i in ctx.cases("rows", total) {
        if ctx.out_of_time() || slice.over() {
            break;
        }
        let mut rng = ctx.begin("rows", i);
        let nc = *rng.pick(&[1usize, 1, 1, 2, 2, 3, 4, 5]);
        let n1 = if rng.chance(1, 10) { 0 } else { rng.usize_in(1, if nc == 1 { 40 } else { 28 }) };
        let n2 = rng.usize_in(0, 20);
        let mut tb = Table {
            dts: vec![],
            opts: vec![],
            t1: vec![],
            t2: vec![],
        };
        for c in 0..nc {
            let depth = *rng.pick(&[0u32, 0, 0, 1, 1, 2, 2, 3]);
            let mut cfg = TypeCfg::all().depth(depth);
            cfg.empty_struct = rng.chance(1, 4);
            let dt = gen_type(&mut rng, &cfg);
            let v1 = if c + 1 < nc && rng.chance(1, 2) {
                let k = *rng.pick(&[1usize, 2, 3, 5]);
                let pool: Vec<Val> = (0..k).map(|_| gen_one(&mut rng, &dt, &cfg)).collect();
                (0..n1).map(|_| rng.pick(&pool).clone()).collect()
            } else {
                gen_column(&mut rng, &dt, n1, true, &cfg)
            };
            let v2: Vec<Val> = gen_column(&mut rng, &dt, n2, true, &cfg);
            tb.dts.push(dt);
            tb.opts.push(*rng.pick(&OPTS));
            tb.t1.push(v1);
            tb.t2.push(v2);
        }
        // table 2 shares whole rows / single values with table 1
        if n1 > 0 {
            for r in 0..n2 {
                match rng.below(4) {
                    0 | 1 => {
                        let s = rng.below(n1);
                        for c in 0..nc {
                            tb.t2[c][r] = tb.t1[c][s].clone();
                        }
                    }
                    2 => {
                        let s = rng.below(n1);
                        for c in 0..nc {
                            if rng.bool() {
                                tb.t2[c][r] = tb.t1[c][s].clone();
                            }
                        }
                    }
                    _ => {}
                }
            }
        }
        run_table(ctx, &mut rng, &tb, "rows");
    }
}

// ------------------------------------------------------------------ varlen

/// a family of related byte strings around one base value
fn byte_family(rng: &mut Rng, utf8: bool) -> Vec<Vec<u8>> {
    let l = if rng.chance(1, 12) {
        *rng.pick(&[95usize, 96, 97, 127, 128, 129, 160, 161])
    } else {
        rng.below(71)
    };
    let base: Vec<u8> = if utf8 {
        const A: [&str; 9] = ["\0", "\u{1}", "a", "b", "\u{7f}", "é", "\u{FFFF}", "\u{10FFFF}", "z"];
        let mut s = String::new();
        let ascii_only = rng.chance(2, 3);
        while s.len() < l {
            let c = if ascii_only { *rng.pick(&A[..5]) } else { *rng.pick(&A[..]) };
            if s.len() + c.len() > l {
                s.push_str(if rng.bool() { "\0" } else { "a" });
            } else {
                s.push_str(c);
            }
        }
        s.into_bytes()
    } else {
        match rng.below(3) {
            0 => (0..l).map(|_| *rng.pick(&[0u8, 0xFF])).collect(),
            1 => (0..l).map(|_| *rng.pick(&[0u8, 0xFF, 1, 0xFE, 0x80, 0x7F])).collect(),
            _ => rng.bytes(l),
        }
    };
    let mut fam: Vec<Vec<u8>> = vec![base.clone(), vec![]];
    let is_ok = |b: &[u8]| !utf8 || std::str::from_utf8(b).is_ok();
    for cut in [1usize, 7, 8, 9, 15, 16, 17, 23, 24, 25, 31, 32, 33, 63, 64, 65, 95, 96, 97] {
        if cut < base.len() && is_ok(&base[..cut]) && rng.chance(1, 2) {
            fam.push(base[..cut].to_vec());
        }
    }
    if !base.is_empty() {
        let cut = rng.below(base.len());
        if is_ok(&base[..cut]) {
            fam.push(base[..cut].to_vec());
        }
    }
    for ext in if utf8 { vec![vec![0u8], vec![0x7F], "\u{10FFFF}".as_bytes().to_vec(), vec![1]] } else { vec![vec![0u8], vec![0xFF], vec![1], vec![0, 0], vec![0xFF, 0xFF]] } {
        let mut v = base.clone();
        v.extend(ext);
        fam.push(v);
    }
    if !base.is_empty() {
        // change one byte (at the end / at a block boundary)
        for pos in [base.len() - 1, 7usize.min(base.len() - 1), 31usize.min(base.len() - 1), rng.below(base.len())] {
            let mut v = base.clone();
            v[pos] = if utf8 {
                if v[pos] < 0x7F { v[pos] + 1 } else { v[pos] }
            } else {
                v[pos].wrapping_add(*rng.pick(&[1u8, 0xFF]))
            };
            if is_ok(&v) {
                fam.push(v);
            }
        }
    }
    fam
}

fn leaf_val(b: &[u8], utf8: bool) -> Val {
    if utf8 {
        Val::Str(String::from_utf8(b.to_vec()).expect("model: family is utf8"))
    } else {
        Val::Bytes(b.to_vec())
    }
}

fn sec_varlen(ctx: &mut Ctx) {
    use DataType::*;
    let total = ctx.tier.pick(16, 100_000, 3_000_000);
    let slice = Slice::new(ctx, 0.35);
    for i in ctx.cases("varlen", total) {
        if ctx.out_of_time() || slice.over() {
            break;
        }
        let mut rng = ctx.begin("varlen", i);
        let nc = *rng.pick(&[1usize, 1, 1, 2]);
        let n1 = rng.usize_in(1, 36);
        let n2 = rng.usize_in(0, 16);
        let mut tb = Table {
            dts: vec![],
            opts: vec![],
            t1: vec![],
            t2: vec![],
        };
        for _ in 0..nc {
            let leaf = rng.pick(&[Utf8, LargeUtf8, Utf8View, Binary, LargeBinary, BinaryView]).clone();
            let utf8 = matches!(leaf, Utf8 | LargeUtf8 | Utf8View);
            let fams: Vec<Vec<Vec<u8>>> = (0..1 + rng.below(3)).map(|_| byte_family(&mut rng, utf8)).collect();
            let wrap = rng.below(10);
            let item = |t: DataType| Arc::new(Field::new("item", t, true));
            let dt = match wrap {
                0..=3 => leaf.clone(),
                4 => List(item(leaf.clone())),
                5 => rng.pick(&[ListView(item(leaf.clone())), LargeList(item(leaf.clone())), LargeListView(item(leaf.clone()))]).clone(),
                6 => FixedSizeList(item(leaf.clone()), 2),
                7 => Struct(Fields::from(vec![Field::new("a", leaf.clone(), true), Field::new("b", leaf.clone(), true)])),
                8 => Dictionary(Box::new(rng.pick(&[Int8, Int16, UInt32, Int64]).clone()), Box::new(leaf.clone())),
                _ => RunEndEncoded(
                    Arc::new(Field::new("run_ends", rng.pick(&[Int16, Int32, Int64]).clone(), false)),
                    Arc::new(Field::new("values", leaf.clone(), true)),
                ),
            };
            let one = |rng: &mut Rng| -> Val {
                let leafv = |rng: &mut Rng| -> Val {
                    if rng.chance(1, 8) {
                        Val::Null
                    } else {
                        let f = rng.pick(&fams);
                        leaf_val(rng.pick(f.as_slice()).as_slice(), utf8)
                    }
                };
                match wrap {
                    0..=3 | 8 | 9 => leafv(rng),
                    4 | 5 => {
                        if rng.chance(1, 8) {
                            Val::Null
                        } else {
                            let k = *rng.pick(&[0usize, 1, 1, 2, 3]);
                            Val::List((0..k).map(|_| leafv(rng)).collect())
                        }
                    }
                    6 => {
                        if rng.chance(1, 8) {
                            Val::Null
                        } else {
                            Val::List(vec![leafv(rng), leafv(rng)])
                        }
                    }
                    _ => {
                        if rng.chance(1, 8) {
                            Val::Null
                        } else {
                            Val::Struct(vec![leafv(rng), leafv(rng)])
                        }
                    }
                }
            };
            let v1: Vec<Val> = (0..n1).map(|_| one(&mut rng)).collect();
            let v2: Vec<Val> = (0..n2).map(|_| one(&mut rng)).collect();
            tb.dts.push(dt);
            tb.opts.push(*rng.pick(&OPTS));
            tb.t1.push(v1);
            tb.t2.push(v2);
        }
        let _ = is_null_under;
        run_table(ctx, &mut rng, &tb, "varlen");
    }
}

pub fn run(ctx: &mut Ctx) {
    sec_rows(ctx);
    sec_varlen(ctx);
}

// ------------------------------------------------------------------ minimal reproducers
// `vcore-run C11REPRO`: outcome of the minimal reproducers of the findings (not part of the check)
pub fn repro(_ctx: &mut Ctx) {
    use arrow_array::{DictionaryArray, Int32Array, UnionArray};
    use arrow_buffer::ScalarBuffer;
    use arrow_schema::{UnionFields, UnionMode};
    let show = |name: &str, r: Result<String, crate::mon::PanicInfo>| match r {
        Ok(s) => eprintln!("{name}: {s}"),
        Err(p) => eprintln!("{name}: PANIC {} @ {}", p.msg, p.loc),
    };
    let desc = SortOptions {
        descending: true,
        nulls_first: true,
    };
    // 1. descending union: values of one type id are not reversed
    let uf = UnionFields::try_new(vec![0], vec![Field::new("a", DataType::Int32, true)]).unwrap();
    let u: ArrayRef = Arc::new(
        UnionArray::try_new(uf.clone(), ScalarBuffer::from(vec![0i8, 0, 0]), None, vec![Arc::new(Int32Array::from(vec![Some(1), Some(2), None]))]).unwrap(),
    );
    show("descending sparse union {0: Int32} rows for [1, 2, NULL]", guard(|| {
        let c = RowConverter::new(vec![SortField::new_with_options(DataType::Union(uf.clone(), UnionMode::Sparse), desc)]).unwrap();
        let r = c.convert_columns(&[u.clone()]).unwrap();
        format!(
            "row(1).cmp(row(2)) = {:?} (descending: 2 must sort before 1, i.e. Greater); row(NULL).cmp(row(1)) = {:?} (nulls_first: Less); bytes {:02x?} {:02x?} {:02x?}",
            r.row(0).cmp(&r.row(1)),
            r.row(2).cmp(&r.row(0)),
            r.row(0).as_ref(),
            r.row(1).as_ref(),
            r.row(2).as_ref()
        )
    }));
    // 2. dense union whose type ids are not the field positions
    let uf5 = UnionFields::try_new(vec![5], vec![Field::new("a", DataType::Int32, true)]).unwrap();
    let u5: ArrayRef = Arc::new(
        UnionArray::try_new(uf5.clone(), ScalarBuffer::from(vec![5i8]), Some(ScalarBuffer::from(vec![0i32])), vec![Arc::new(Int32Array::from(vec![1]))]).unwrap(),
    );
    show("dense union {5: Int32}: convert_rows(convert_columns([1]))", guard(|| {
        let c = RowConverter::new(vec![SortField::new(DataType::Union(uf5.clone(), UnionMode::Dense))]).unwrap();
        let r = c.convert_columns(&[u5.clone()]).unwrap();
        format!("{:?}", c.convert_rows(&r).map(|v| v[0].len()))
    }));
    // 3. union with a dictionary child decodes to an inconsistent array
    let dt = DataType::Dictionary(Box::new(DataType::Int8), Box::new(DataType::Int32));
    let ufd = UnionFields::try_new(vec![0], vec![Field::new("a", dt.clone(), true)]).unwrap();
    let d: ArrayRef = Arc::new(DictionaryArray::<arrow_array::types::Int8Type>::new(arrow_array::Int8Array::from(vec![0]), Arc::new(Int32Array::from(vec![9]))));
    let ud: ArrayRef = Arc::new(UnionArray::try_new(ufd.clone(), ScalarBuffer::from(vec![0i8]), None, vec![d]).unwrap());
    show("sparse union {0: Dictionary(Int8, Int32)} decoded", guard(|| {
        let c = RowConverter::new(vec![SortField::new(DataType::Union(ufd.clone(), UnionMode::Sparse))]).unwrap();
        let r = c.convert_columns(&[ud.clone()]).unwrap();
        let back = c.convert_rows(&r).unwrap();
        let ua = back[0].as_any().downcast_ref::<UnionArray>().unwrap();
        format!(
            "array type {} ; child(0) type {} ; independent validation: {:?} ; ArrayData::validate_full: {:?}",
            back[0].data_type(),
            ua.child(0).data_type(),
            check_array(back[0].as_ref()),
            back[0].to_data().validate_full().map_err(|e| e.to_string())
        )
    }));
}
