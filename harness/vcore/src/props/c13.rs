//! C13 — casts preserve representable values; strict/safe modes agree; text
//! round-trips; `DataType` Display -> FromStr.
//!
//! Sections
//! * `grid`  : every ordered pair of the finite type grid (`c13_grid::grid_types`):
//!             `can_cast_types` vs dispatch on an empty / all-null array, then
//!             the deterministic boundary column (canonical, random and masked
//!             layout) under the strict/safe duality, the exact reference model
//!             and the inverse cast. `gridr`: random columns for the same pairs.
//! * `exh`   : every value of the 8/16-bit sources against every flat grid target.
//! * `rand`  : random (nested, parameterised) type pairs.
//! * `text`  : format -> parse round trip for every type castable both ways to
//!             the string types, default and custom `FormatOptions`.
//! * `dtype` : `DataType::to_string().parse() == dt`.
//! * `sparse`: hand-built dictionaries with more than twice as many entries as
//!             rows (the per-dictionary-value cast path), split / invalid UTF-8.
//!
//! not asserted:
//! * casts *to* `DataType::Null` (everything becomes null by definition);
//! * Time32/Time64 values outside one day, Date64 values that are not whole days;
//! * NaN payloads / NaN sign (all NaNs of one width are identified);
//! * rounding direction of lossy conversions that arrow documents only as
//!   "precision lost" (temporal unit reductions of negative values, float
//!   narrowing through f32, Timestamp -> Date64 day truncation);
//! * named time zones (the harness builds without chrono-tz: rejected);
//! * dictionary key capacity (more distinct values than the key type holds);
//! * errors of arrow-select's `take` on run-end encoded arrays;
//! * nullability errors of struct / list casts (all generated fields are nullable);
//! * the converse of (1): `can_cast_types == false` pairs are not cast.

use crate::build::{build, realise};
use crate::extract::extract;
use crate::gens::{self, gen_column, gen_type};
use crate::mon::{Ctx, Outcome, is_rejection_msg, run_op, strip_digits};
use crate::rng::Rng;
use crate::val::{Val, dump_vals};
use crate::validate::check_array;
use arrow_array::{Array, ArrayRef};
use arrow_cast::cast::{CastOptions, can_cast_types, cast_with_options};
use arrow_cast::display::FormatOptions;
use arrow_schema::{DataType, Field, Fields, IntervalUnit, TimeUnit, UnionFields};
use std::collections::{BTreeSet, HashMap};
use std::str::FromStr;
use std::sync::Arc;

use super::c13_grid::*;
use super::c13_model::*;

const P: &str = "C13";

/// Oracle self-test switch (`C13_SABOTAGE=<mode>`): deliberately wrong
/// expectations, used only to confirm that the monitors can fire.
fn sabotage() -> &'static str {
    static S: std::sync::OnceLock<String> = std::sync::OnceLock::new();
    S.get_or_init(|| std::env::var("C13_SABOTAGE").unwrap_or_default()).as_str()
}

#[derive(Clone, Debug)]
pub struct Finding {
    pub kind: String,
    pub detail: String,
}

#[derive(Default)]
pub struct CastRun {
    pub findings: Vec<Finding>,
    pub rejected: Option<&'static str>,
    pub outcome: &'static str,
    pub nulled: usize,
    pub exact_rows: usize,
    pub safe: Option<(ArrayRef, Vec<Val>)>,
    /// rows the safe cast kept (no nulling, no mismatch)
    pub clean: Vec<bool>,
    pub model_panic: Option<String>,
}

/// Message class of an error / panic: run-specific data (values, quoted
/// input) and everything that only names the types involved (type names,
/// units, parameters) is removed, so that one defect has one class whatever
/// the type pair it is observed on.
fn msg_class(m: &str) -> String {
    if m.contains("dictionary packing") {
        return "dictionary-packing".into();
    }
    if m.contains("Casting from") && m.contains("not supported") {
        return "casting-not-supported".into();
    }
    // quoted input
    let mut out = String::new();
    let mut quote: Option<char> = None;
    let mut depth = 0usize;
    for c in m.chars() {
        match quote {
            Some(q) => {
                if c == q {
                    quote = None;
                    if depth == 0 {
                        out.push('_');
                    }
                }
            }
            None => {
                if c == '\'' || c == '"' {
                    quote = Some(c);
                } else if c == '(' {
                    depth += 1;
                } else if c == ')' {
                    depth = depth.saturating_sub(1);
                } else if depth == 0 {
                    out.push(c);
                }
            }
        }
    }
    let s = strip_digits(&out).replace("-#", "#").replace("#.#", "#").replace("#e#", "#");
    // type words
    const TYPES: &[&str] = &[
        "Int#", "UInt#", "Float#", "Utf#", "LargeUtf#", "Utf#View", "Binary", "LargeBinary", "BinaryView", "FixedSizeBinary",
        "Decimal#", "Date#", "Time#", "Timestamp", "Duration", "Interval", "Boolean", "Null", "List", "LargeList", "ListView",
        "LargeListView", "FixedSizeList", "Struct", "Map", "Union", "Dictionary", "RunEndEncoded",
    ];
    let mut res = String::new();
    let mut tok = String::new();
    let flush = |tok: &mut String, res: &mut String| {
        if tok.is_empty() {
            return;
        }
        let unit = ["Second", "Millisecond", "Microsecond", "Nanosecond"];
        let mut t = tok.clone();
        for u in unit {
            // e.g. TimestampMicrosecondType
            if let Some(i) = t.find(u) {
                if i > 0 {
                    t.replace_range(i..i + u.len(), "*");
                    break;
                }
            }
        }
        if TYPES.contains(&t.as_str()) {
            res.push('T');
        } else {
            res.push_str(&t);
        }
        tok.clear();
    };
    for c in s.chars() {
        if c.is_alphanumeric() || c == '#' || c == '_' {
            tok.push(c);
        } else {
            flush(&mut tok, &mut res);
            res.push(c);
        }
    }
    flush(&mut tok, &mut res);
    let res: String = res.split_whitespace().collect::<Vec<_>>().join(" ");
    res.chars().take(72).collect()
}

/// type family used in signatures (no widths, units, zones, parameters)
fn fam(dt: &DataType) -> &'static str {
    use DataType::*;
    match dt {
        Null => "Null",
        Boolean => "Bool",
        Int8 | Int16 | Int32 | Int64 | UInt8 | UInt16 | UInt32 | UInt64 => "Int",
        Float16 | Float32 | Float64 => "Float",
        Decimal32(_, _) | Decimal64(_, _) | Decimal128(_, _) | Decimal256(_, _) => "Decimal",
        Date32 | Date64 => "Date",
        Time32(_) | Time64(_) => "Time",
        Timestamp(_, _) => "Timestamp",
        Duration(_) => "Duration",
        Interval(_) => "Interval",
        Utf8 | LargeUtf8 | Utf8View => "String",
        Binary | LargeBinary | BinaryView | FixedSizeBinary(_) => "Binary",
        Dictionary(_, _) => "Dictionary",
        RunEndEncoded(_, _) => "RunEndEncoded",
        List(_) | LargeList(_) | ListView(_) | LargeListView(_) => "List",
        FixedSizeList(_, _) => "FixedSizeList",
        Struct(_) => "Struct",
        Map(_, _) => "Map",
        Union(_, _) => "Union",
    }
}

/// phenomenon class used to compare observations across nesting levels
fn coarse(kind: &str) -> String {
    let k = kind.strip_suffix("|layout-dependent").unwrap_or(kind);
    match k.split('|').next().unwrap_or(k) {
        "wrong-value" | "null-for-representable" | "value-for-unrepresentable" | "wrong-shape" | "strict-subset-differs"
        | "strict-subset-err" | "strict-ok-but-safe-nulled" | "strict-differs-from-safe" => "wrong-result".into(),
        "result-len" | "result-type" | "result-invalid" => "result-shape".into(),
        _ => k.to_string(),
    }
}

fn is_err_kind(k: &str) -> bool {
    k.starts_with("safe-err") || k.starts_with("panic") || k.starts_with("can-cast-but-unsupported")
}

/// a null scalar wrapped into a list may come out as NULL or as [NULL]
fn nullish(v: &Val) -> bool {
    match v {
        Val::Null => true,
        Val::List(x) => x.len() == 1 && nullish(&x[0]),
        _ => false,
    }
}

fn loose_eq(a: &Val, b: &Val) -> bool {
    if val_eq(a, b) || (nullish(a) && nullish(b)) {
        return true;
    }
    match (a, b) {
        (Val::List(x), Val::List(y)) | (Val::Struct(x), Val::Struct(y)) => {
            x.len() == y.len() && x.iter().zip(y).all(|(p, q)| loose_eq(p, q))
        }
        _ => false,
    }
}

fn loose_vals_eq(a: &[Val], b: &[Val]) -> bool {
    a.len() == b.len() && a.iter().zip(b).all(|(x, y)| loose_eq(x, y))
}

/// panic location without machine-specific prefixes
fn panic_file(p: &crate::mon::PanicInfo) -> String {
    let f = p.file();
    // a checkout anywhere: keep the path from the crate directory on
    if let Some(i) = f.find("arrow-") {
        return f[i..].to_string();
    }
    match f.find(".cargo/registry/src/") {
        Some(i) => {
            let rest = &f[i + ".cargo/registry/src/".len()..];
            rest.split_once('/').map(|x| x.1).unwrap_or(rest).to_string()
        }
        None => f,
    }
}

fn can_cast(a: &DataType, b: &DataType) -> bool {
    can_cast_types(a, b)
}

fn opts<'a>(safe: bool, f: &FormatOptions<'a>) -> CastOptions<'a> {
    CastOptions { safe, format_options: f.clone() }
}

fn safe_err_rejection(msg: &str, b: &DataType, a: &DataType) -> Option<&'static str> {
    if msg.contains("Invalid timezone") {
        return Some("named-timezone");
    }
    let dictish = |t: &DataType| format!("{t:?}").contains("Dictionary");
    if (dictish(b) || dictish(a))
        && (msg.contains("dictionary indexes")
            || msg.contains("DictionaryKeyOverflowError")
            || msg.contains("Dictionary key bigger")
            || msg.contains("dictionary keys in"))
    {
        return Some("dict-capacity");
    }
    if msg.contains("non-nullable") {
        return Some("nullability");
    }
    if msg.contains("out of bounds for RunArray") {
        // not asserted: arrow-select's `take` on run-end encoded arrays (an
        // empty RunArray taken with null indices errs); reached through
        // dictionary unpacking / union extraction, it is not a cast rule
        return Some("run-array-take");
    }
    let reeish = |t: &DataType| format!("{t:?}").contains("RunEndEncoded");
    if (reeish(b) || reeish(a)) && msg.contains("Run end index out of range") {
        return Some("ree-capacity");
    }
    None
}

/// `run_pair` under the panic monitor: a panic outside the monitored casts is
/// the harness' own (model / builder) and makes the case inconclusive.
pub fn run_pair(a: &DataType, b: &DataType, vals: &[Val], arr: &ArrayRef, fo: &FormatOptions, rng: &mut Rng) -> CastRun {
    match crate::mon::guard(|| run_pair_inner(a, b, vals, arr, fo, rng)) {
        Ok(r) => r,
        Err(p) => {
            let mut r = CastRun::default();
            if p.is_model() || p.loc.contains("/vcore/src/") {
                r.rejected = Some("model-panic");
                r.model_panic = Some(format!("{} @ {}", p.msg, p.loc));
            } else {
                r.findings.push(Finding {
                    kind: format!("panic|result-access|{}|{}", panic_file(&p), msg_class(&p.msg)),
                    detail: format!("panic while reading the cast result: {} @ {}", p.msg, p.loc),
                });
            }
            r
        }
    }
}

/// The cast oracle for one array: duality, reference model, result validity.
fn run_pair_inner(a: &DataType, b: &DataType, vals: &[Val], arr: &ArrayRef, fo: &FormatOptions, rng: &mut Rng) -> CastRun {
    let mut r = CastRun::default();
    let add = |r: &mut CastRun, kind: &str, detail: String| {
        if !r.findings.iter().any(|f| f.kind == kind) {
            r.findings.push(Finding { kind: kind.to_string(), detail });
        }
    };
    let to_null = matches!(b, DataType::Null);
    let safe = run_op(|| cast_with_options(arr.as_ref(), b, &opts(true, fo)));
    let strict_flag = sabotage() == "strict-is-safe";
    let strict = run_op(|| cast_with_options(arr.as_ref(), b, &opts(strict_flag, fo)));
    // ---- safe mode
    let sa = match safe {
        Outcome::Panic(p) => {
            if p.is_model() {
                r.rejected = Some("model-panic");
                return r;
            }
            if p.msg.contains("DictionaryKeyOverflowError") {
                // not asserted: dictionary key capacity
                r.rejected = Some("dict-capacity");
                return r;
            }
            add(
                &mut r,
                &format!("panic|{}|{}", panic_file(&p), msg_class(&p.msg)),
                format!("panic: {} @ {}", p.msg, p.loc),
            );
            r.outcome = "safe-panic";
            None
        }
        Outcome::Err(m) => {
            if let Some(why) = safe_err_rejection(&m, b, a) {
                r.rejected = Some(why);
                return r;
            }
            if is_rejection_msg(&m) {
                add(
                    &mut r,
                    &format!("can-cast-but-unsupported|{}", msg_class(&m)),
                    format!("can_cast_types says true, cast (safe) says: {m}"),
                );
            } else {
                add(&mut r, &format!("safe-err|{}", msg_class(&m)), format!("safe=true returned Err: {m}"));
            }
            r.outcome = "safe-err";
            None
        }
        Outcome::Ok(x) => Some(x),
    };
    let mut exps: Vec<Exp> = vals.iter().map(|v| ref_cast(a, b, v, &can_cast)).collect();
    match sabotage() {
        "exp-plus-one" => {
            for e in exps.iter_mut() {
                if let Exp::V(Val::Int(x)) = e {
                    *x += 1;
                }
            }
        }
        "all-representable" => {
            for e in exps.iter_mut() {
                if matches!(e, Exp::Unrep) {
                    *e = Exp::NonNull;
                }
            }
        }
        "none-representable" => {
            for e in exps.iter_mut() {
                if matches!(e, Exp::V(Val::Int(_)) | Exp::V(Val::Str(_))) {
                    *e = Exp::Unrep;
                }
            }
        }
        _ => {}
    }
    r.exact_rows = exps.iter().filter(|e| is_exact(e)).count();
    let mut row_nulled = vec![0usize; vals.len()];
    let mut row_bad = vec![false; vals.len()];
    let mut got: Option<Vec<Val>> = None;
    if let Some(x) = &sa {
        if x.data_type() != b {
            add(&mut r, "result-type", format!("safe result has type {} instead of {b}", x.data_type()));
        } else if x.len() != vals.len() {
            add(&mut r, "result-len", format!("safe result has {} rows, input {}", x.len(), vals.len()));
        } else if let Err(e) = check_array(x.as_ref()) {
            add(&mut r, "result-invalid", format!("safe result is not a valid array: {e}"));
        } else {
            let g = extract(x.as_ref());
            for (i, (e, v)) in exps.iter().zip(g.iter()).enumerate() {
                match match_exp(e, v) {
                    Ok(n) => row_nulled[i] = n,
                    Err((m, s)) => {
                        row_bad[i] = true;
                        add(
                            &mut r,
                            m.name(),
                            format!("row {i}: input {:?}: {s} (safe=true)", vals[i]),
                        );
                    }
                }
            }
            got = Some(g);
        }
    }
    r.nulled = row_nulled.iter().sum();
    r.clean = (0..vals.len()).map(|i| row_nulled[i] == 0 && !row_bad[i]).collect();
    // ---- strict mode
    match strict {
        Outcome::Panic(p) => {
            if !p.is_model() && !p.msg.contains("DictionaryKeyOverflowError") {
                add(
                    &mut r,
                    &format!("panic|{}|{}", panic_file(&p), msg_class(&p.msg)),
                    format!("panic: {} @ {}", p.msg, p.loc),
                );
            }
        }
        Outcome::Ok(t) => {
            if r.outcome.is_empty() {
                r.outcome = "both-ok";
            }
            if t.data_type() != b || t.len() != vals.len() {
                add(&mut r, "result-type", format!("strict result has type {} / {} rows", t.data_type(), t.len()));
            } else if let Err(e) = check_array(t.as_ref()) {
                add(&mut r, "result-invalid", format!("strict result is not a valid array: {e}"));
            } else if let Some(g) = &got {
                let gt = extract(t.as_ref());
                if r.nulled > 0 && !to_null {
                    let i = row_nulled.iter().position(|n| *n > 0).unwrap();
                    add(
                        &mut r,
                        "strict-ok-but-safe-nulled",
                        format!(
                            "safe=true nulled row {i} (input {:?}, safe {:?}) but safe=false returned Ok with {:?}",
                            vals[i], g[i], gt[i]
                        ),
                    );
                } else if !loose_vals_eq(g, &gt) {
                    let i = (0..g.len()).find(|i| !loose_eq(&g[*i], &gt[*i])).unwrap_or(0);
                    add(
                        &mut r,
                        "strict-differs-from-safe",
                        format!("row {i}: input {:?}: safe {:?} strict {:?}", vals[i], g[i], gt[i]),
                    );
                }
            } else if sa.is_none() {
                // safe failed, strict succeeded
                let gt = extract(t.as_ref());
                for (i, (e, v)) in exps.iter().zip(gt.iter()).enumerate() {
                    if let Err((m, s)) = match_exp(e, v) {
                        add(&mut r, m.name(), format!("row {i}: input {:?}: {s} (safe=false)", vals[i]));
                        break;
                    }
                }
            }
        }
        Outcome::Err(m) => {
            if r.outcome.is_empty() {
                r.outcome = "strict-err";
            }
            if let Some(g) = &got {
                if safe_err_rejection(&m, b, a).is_some() {
                    r.rejected = Some("capacity");
                } else if r.nulled == 0 || to_null {
                    if r.clean.iter().all(|c| *c) {
                        add(
                            &mut r,
                            "strict-err-but-safe-kept-all",
                            format!("safe=false returned Err ({m}) although safe=true introduced no null"),
                        );
                    }
                } else {
                    // strict on the rows safe kept must succeed and agree
                    let keep: Vec<usize> = (0..vals.len()).filter(|i| r.clean[*i]).collect();
                    let sub: Vec<Val> = keep.iter().map(|i| vals[*i].clone()).collect();
                    let sub_arr = build(a, &sub);
                    match run_op(|| cast_with_options(sub_arr.as_ref(), b, &opts(false, fo))) {
                        Outcome::Ok(t) => {
                            let gt = extract(t.as_ref());
                            let want: Vec<Val> = keep.iter().map(|i| g[*i].clone()).collect();
                            if t.data_type() != b || !loose_vals_eq(&want, &gt) {
                                let i = (0..want.len().min(gt.len())).find(|i| !loose_eq(&want[*i], &gt[*i])).unwrap_or(0);
                                add(
                                    &mut r,
                                    "strict-subset-differs",
                                    format!(
                                        "strict cast of the rows safe kept differs at kept row {i}: input {:?} safe {:?} strict {:?}",
                                        sub.get(i),
                                        want.get(i),
                                        gt.get(i)
                                    ),
                                );
                            }
                        }
                        Outcome::Err(m2) => {
                            // the sub-array is a column in its own right: if safe
                            // mode fails on it too, that is the finding
                            match run_op(|| cast_with_options(sub_arr.as_ref(), b, &opts(true, fo))) {
                                Outcome::Err(m3) if safe_err_rejection(&m3, b, a).is_none() => {
                                    let kind = if is_rejection_msg(&m3) {
                                        format!("can-cast-but-unsupported|{}", msg_class(&m3))
                                    } else {
                                        format!("safe-err|{}", msg_class(&m3))
                                    };
                                    add(
                                        &mut r,
                                        &kind,
                                        format!("safe=true returned Err on the rows it kept from the full column: {m3}; rows {}", dump_vals(&sub)),
                                    );
                                }
                                Outcome::Err(_) => {}
                                _ => add(
                                    &mut r,
                                    "strict-subset-err",
                                    format!("safe=false fails on the sub-array of rows that safe=true kept: {m2}; kept rows {}", dump_vals(&sub)),
                                ),
                            }
                        }
                        Outcome::Panic(p) => add(
                            &mut r,
                            &format!("panic|{}|{}", panic_file(&p), msg_class(&p.msg)),
                            format!("panic: {} @ {}", p.msg, p.loc),
                        ),
                    }
                }
            }
        }
    }
    let _ = rng;
    if let (Some(x), Some(g)) = (sa, got) {
        r.safe = Some((x, g));
    }
    r
}

// ------------------------------------------------------------ signatures

/// one step of the model's container recursion
fn peel(a: &DataType, b: &DataType) -> Option<(DataType, DataType, &'static str)> {
    use DataType::*;
    if a == b {
        return None;
    }
    Some(match (a, b) {
        (Null, _) => return None,
        (RunEndEncoded(_, x), _) => (x.data_type().clone(), b.clone(), "REE>"),
        (_, RunEndEncoded(_, y)) => (a.clone(), y.data_type().clone(), ">REE"),
        (Union(fs, _), _) => {
            let (_, c) = resolve_union_child(fs, b, &can_cast)?;
            (c.clone(), b.clone(), "Union>")
        }
        (_, Union(_, _)) => return None,
        (Dictionary(_, x), Dictionary(_, y)) => ((**x).clone(), (**y).clone(), "Dict>Dict"),
        (Dictionary(_, x), _) => ((**x).clone(), b.clone(), "Dict>"),
        (_, Dictionary(_, y)) => (a.clone(), (**y).clone(), ">Dict"),
        _ if is_list_family(a) && is_list_family(b) => {
            (list_child(a).unwrap().clone(), list_child(b).unwrap().clone(), "List>List")
        }
        _ if is_list_family(a) && is_string(b) => (list_child(a).unwrap().clone(), b.clone(), "List>Str"),
        (FixedSizeList(x, _), _) if is_list_family(b) => (x.data_type().clone(), list_child(b).unwrap().clone(), "FSL>List"),
        (_, FixedSizeList(y, _)) if is_list_family(a) => (list_child(a).unwrap().clone(), y.data_type().clone(), "List>FSL"),
        (FixedSizeList(x, n), FixedSizeList(y, m)) if n == m => (x.data_type().clone(), y.data_type().clone(), "FSL>FSL"),
        _ if is_list_family(b) => (a.clone(), list_child(b).unwrap().clone(), ">List"),
        (_, FixedSizeList(y, 1)) => (a.clone(), y.data_type().clone(), ">FSL1"),
        (FixedSizeList(x, 1), _) => (x.data_type().clone(), b.clone(), "FSL1>"),
        _ => return None,
    })
}

/// the pair and everything the model's recursion peels off it; each level
/// carries the tag of the step that leads to the next one ("" for the last)
fn levels(a: &DataType, b: &DataType) -> Vec<(DataType, DataType, &'static str)> {
    let mut out = vec![];
    let (mut x, mut y) = (a.clone(), b.clone());
    while let Some((p, q, t)) = peel(&x, &y) {
        out.push((x, y, t));
        x = p;
        y = q;
        if out.len() > 8 {
            break;
        }
    }
    out.push((x, y, ""));
    out
}

fn full_peel(a: &DataType, b: &DataType) -> (DataType, DataType, String) {
    let lv = levels(a, b);
    let tag = if lv.len() > 1 { lv[0].2.to_string() } else { String::new() };
    let (x, y, _) = lv.last().unwrap().clone();
    (x, y, tag)
}

pub struct Book {
    /// phenomenon classes a pair shows on its own deterministic columns
    /// (boundary column in canonical, masked and sliced layouts)
    probes: HashMap<(String, String), BTreeSet<String>>,
    /// attribution is computed once per (pair, kind)
    sig_cache: HashMap<(String, String, String), String>,
    reported: BTreeSet<String>,
}

/// values that are physically valid for the type but outside its declared
/// domain: what may sit under a null or in an unused dictionary slot
fn wild_vals(dt: &DataType) -> Vec<Val> {
    use DataType::*;
    match dt {
        Decimal32(_, _) => vec![Val::Int(i32::MAX as i128), Val::Int(i32::MIN as i128)],
        Decimal64(_, _) => vec![Val::Int(i64::MAX as i128), Val::Int(i64::MIN as i128)],
        Decimal128(_, _) => vec![Val::Int(i128::MAX), Val::Int(i128::MIN)],
        Decimal256(_, _) => vec![Val::Big(arrow_buffer::i256::MAX), Val::Big(arrow_buffer::i256::MIN)],
        Time32(_) => vec![Val::Int(-1), Val::Int(i32::MAX as i128)],
        Time64(_) => vec![Val::Int(-1), Val::Int(i64::MAX as i128)],
        Dictionary(_, v) => wild_vals(v),
        RunEndEncoded(_, v) => wild_vals(v.data_type()),
        List(c) | LargeList(c) | ListView(c) | LargeListView(c) => {
            wild_vals(c.data_type()).into_iter().map(|w| Val::List(vec![w])).collect()
        }
        FixedSizeList(c, 1) => wild_vals(c.data_type()).into_iter().map(|w| Val::List(vec![w])).collect(),
        Union(fs, _) => fs
            .iter()
            .flat_map(|(t, f)| wild_vals(f.data_type()).into_iter().map(move |w| Val::Union(t, Box::new(w))))
            .collect(),
        _ => vec![],
    }
}

/// Deterministic adversarial layouts of a logical column: all rows masked
/// (with out-of-domain values added underneath), odd rows masked, and a slice
/// at a non-zero offset. Each item: (name, array, logical values).
fn adversarial(a: &DataType, vals: &[Val]) -> Vec<(&'static str, ArrayRef, Vec<Val>)> {
    let mut out = vec![];
    if vals.is_empty() {
        return out;
    }
    let mut with_wild = vals.to_vec();
    with_wild.extend(wild_vals(a));
    if let Ok(full) = crate::mon::guard(|| build(a, &with_wild)) {
        if let Some(arr) = mask_rows(&full, |_| false) {
            let logical = extract(arr.as_ref());
            out.push(("masked-all", arr, logical));
        }
    }
    if let Ok(full) = crate::mon::guard(|| build(a, vals)) {
        if let Some(arr) = mask_rows(&full, |i| i % 2 == 0) {
            let logical = extract(arr.as_ref());
            out.push(("masked-odd", arr, logical));
        }
    }
    // a slice: three leading rows that are not part of the column
    let k = 3.min(vals.len());
    let mut padded: Vec<Val> = vals[vals.len() - k..].to_vec();
    padded.extend_from_slice(vals);
    let mut padded_c = padded.clone();
    if has_small_dict(a) && padded_c.len() > 100 {
        padded_c.truncate(100);
    }
    if let Ok(full) = crate::mon::guard(|| build(a, &padded_c)) {
        let n = padded_c.len() - k;
        let arr = full.slice(k, n);
        out.push(("sliced", arr, padded_c[k..].to_vec()));
    }
    out
}

/// one-row columns for every value: a whole-array failure (Err / panic)
/// hides what the other rows would do
fn singletons_kinds(a: &DataType, b: &DataType, vals: &[Val], into: &mut Vec<Finding>) {
    let fo = FormatOptions::default();
    let mut rng = Rng::new(7);
    for v in vals {
        let one = [v.clone()];
        let Ok(arr) = crate::mon::guard(|| build(a, &one)) else { continue };
        let r = run_pair(a, b, &one, &arr, &fo, &mut rng);
        for f in r.findings {
            if !into.iter().any(|g| g.kind == f.kind) {
                into.push(Finding { kind: f.kind, detail: format!("single value {v:?}: {}", f.detail) });
            }
        }
    }
}

fn whole_array_failure(r: &CastRun) -> bool {
    r.findings.iter().any(|f| f.kind.starts_with("safe-err") || f.kind.starts_with("panic"))
}

impl Book {
    fn new() -> Self {
        Book { probes: HashMap::new(), sig_cache: HashMap::new(), reported: BTreeSet::new() }
    }

    fn probe(&mut self, a: &DataType, b: &DataType) -> &BTreeSet<String> {
        let key = (format!("{a}"), format!("{b}"));
        if !self.probes.contains_key(&key) {
            let mut kinds = BTreeSet::new();
            if can_cast(a, b) {
                let mut vals = boundary_vals(a);
                if (has_small_dict(a) || has_small_dict(b)) && vals.len() > 90 {
                    // 8-bit dictionary keys: the whole boundary column, in pieces
                    kinds.extend(Self::kinds_on(a, b, &vals));
                }
                cap_rows(a, b, &mut vals);
                let fo = FormatOptions::default();
                let mut rng = Rng::new(7);
                let mut all: Vec<Finding> = vec![];
                for (arr, v) in [(build(a, &[]), &vals[..0]), (build(a, &vals), &vals[..])] {
                    let r = run_pair(a, b, v, &arr, &fo, &mut rng);
                    if whole_array_failure(&r) && !v.is_empty() {
                        singletons_kinds(a, b, v, &mut all);
                    }
                    all.extend(r.findings);
                }
                for (name, arr, logical) in adversarial(a, &vals) {
                    let r = run_pair(a, b, &logical, &arr, &fo, &mut rng);
                    if name == "masked-all" && whole_array_failure(&r) {
                        // one hidden value at a time
                        for v in vals.iter().filter(|v| !v.is_null()) {
                            let Ok(one) = crate::mon::guard(|| build(a, std::slice::from_ref(v))) else { continue };
                            let Some(m) = mask_rows(&one, |_| false) else { break };
                            let lg = extract(m.as_ref());
                            for f in run_pair(a, b, &lg, &m, &fo, &mut rng).findings {
                                if !all.iter().any(|g| g.kind == f.kind) {
                                    all.push(f);
                                }
                            }
                        }
                    }
                    all.extend(r.findings);
                }
                // physically valid values outside the declared domain, as they
                // occur under nulls and in unused dictionary / run slots
                let wild = wild_vals(a);
                if !wild.is_empty() {
                    singletons_kinds(a, b, &wild, &mut all);
                }
                for f in all {
                    kinds.insert(f.kind.strip_suffix("|layout-dependent").unwrap_or(&f.kind).to_string());
                }
            }
            self.probes.insert(key.clone(), kinds);
        }
        &self.probes[&key]
    }

    /// classes `(a, b)` shows on the given logical column (canonical layout)
    fn kinds_on(a: &DataType, b: &DataType, col: &[Val]) -> BTreeSet<String> {
        let mut kinds = BTreeSet::new();
        if (has_small_dict(a) || has_small_dict(b)) && col.len() > 90 {
            // 8-bit dictionary keys: the column in pieces
            for chunk in col.chunks(89) {
                kinds.extend(Self::kinds_on(a, b, chunk));
            }
            return kinds;
        }
        let col = col.to_vec();
        let fo = FormatOptions::default();
        let mut rng = Rng::new(7);
        if let Ok(arr) = crate::mon::guard(|| build(a, &col)) {
            let r = run_pair(a, b, &col, &arr, &fo, &mut rng);
            let mut all = vec![];
            if whole_array_failure(&r) && col.len() <= 400 {
                singletons_kinds(a, b, &col, &mut all);
            }
            all.extend(r.findings);
            for f in all {
                kinds.insert(f.kind);
            }
        }
        kinds
    }

    /// Defect-level signature of a finding of `kind` observed on `(a, b)`.
    ///
    /// The key is computed from the observation only: the phenomenon, the
    /// type-free message class (errors, panics) and the *locus* - the family
    /// pair of the innermost level of the cast that shows the same phenomenon
    /// on its own deterministic columns or on its part of the witness, or the
    /// container step that introduces it. Exact types, units, zones and the
    /// container path stay in the detail text.
    fn sig(&mut self, a: &DataType, b: &DataType, kind: &str, vals: &[Val]) -> String {
        let k = kind.strip_suffix("|layout-dependent").unwrap_or(kind);
        if k == "strict-err-but-safe-kept-all" && k != kind {
            // strict mode fails on values that are not part of the logical
            // column (under nulls, unused dictionary values, outside a slice)
            return format!("{P}|strict-err-on-hidden-values");
        }
        self.descend(a, b, k, vals)
    }

    fn descend(&mut self, a: &DataType, b: &DataType, k: &str, vals: &[Val]) -> String {
        let cls = coarse(k);
        let (subs, tag) = sub_columns(a, b, vals);
        if subs.is_empty() {
            return format!("{P}|{k}|{}->{}", fam(a), fam(b));
        }
        if is_err_kind(k) && struct_name_trap(a, b) {
            return format!("{P}|can-cast-but-unsupported|struct-matched-by-position-cast-by-name");
        }
        for (x, y, col) in &subs {
            if !can_cast(x, y) {
                continue;
            }
            if self.probe(x, y).contains(k) || Self::kinds_on(x, y, col).contains(k) {
                return self.descend(x, y, k, col);
            }
        }
        if k.starts_with("can-cast-but-unsupported") {
            format!("{P}|{k}|via={tag}")
        } else if is_err_kind(k) {
            format!("{P}|{k}|container")
        } else {
            format!("{P}|{cls}|via={tag}")
        }
    }
}

/// `can_cast_types` falls back to matching struct fields by position where
/// `cast` matches them by name: a pair that is castable only positionally
fn struct_name_trap(a: &DataType, b: &DataType) -> bool {
    let (DataType::Struct(fa), DataType::Struct(fb)) = (a, b) else { return false };
    if fa.len() != fb.len() {
        return false;
    }
    let same_order = fa.iter().zip(fb.iter()).all(|(x, y)| x.name() == y.name());
    let by_name = !same_order && fb.iter().all(|t| fa.iter().any(|f| f.name() == t.name()));
    by_name
        && fb.iter().any(|t| {
            let f = fa.iter().find(|f| f.name() == t.name()).unwrap();
            !can_cast(f.data_type(), t.data_type())
        })
}

fn flatten_lists(vals: &[Val]) -> Vec<Val> {
    let mut out = vec![];
    for v in vals {
        if let Val::List(xs) = v {
            out.extend(xs.iter().cloned());
        }
    }
    out
}

/// `sub_pairs` with the part of the input column each sub-pair receives
fn sub_columns(a: &DataType, b: &DataType, vals: &[Val]) -> (Vec<(DataType, DataType, Vec<Val>)>, &'static str) {
    use DataType::*;
    let (pairs, tag) = sub_pairs(a, b);
    let mut out = vec![];
    for (k, (x, y)) in pairs.into_iter().enumerate() {
        let col: Vec<Val> = match tag {
            "Union>" => {
                let tid = match a {
                    Union(fs, _) => resolve_union_child(fs, b, &can_cast).map(|(t, _)| t),
                    _ => None,
                };
                vals.iter()
                    .map(|v| match v {
                        Val::Union(t, inner) if Some(*t) == tid => (**inner).clone(),
                        _ => Val::Null,
                    })
                    .collect()
            }
            "List>List" | "FSL>List" | "List>FSL" | "FSL>FSL" | "List>Str" => flatten_lists(vals),
            "FSL1>" => vals
                .iter()
                .map(|v| match v {
                    Val::List(xs) if xs.len() == 1 => xs[0].clone(),
                    _ => Val::Null,
                })
                .collect(),
            "Struct>Struct" => {
                // column of the source field that feeds target field k
                let (Struct(fa), Struct(fb)) = (a, b) else { return (vec![], "") };
                let same_order = fa.iter().zip(fb.iter()).all(|(p, q)| p.name() == q.name());
                let by_name = !same_order && fb.iter().all(|t| fa.iter().any(|f| f.name() == t.name()));
                let i = if by_name { fa.iter().position(|f| f.name() == fb[k].name()).unwrap_or(k) } else { k };
                vals.iter()
                    .map(|v| match v {
                        Val::Struct(xs) if i < xs.len() => xs[i].clone(),
                        _ => Val::Null,
                    })
                    .collect()
            }
            "Map>Map" => flatten_lists(vals)
                .into_iter()
                .map(|e| match e {
                    Val::Struct(kv) if k < kv.len() => kv[k].clone(),
                    _ => Val::Null,
                })
                .collect(),
            _ => vals.to_vec(),
        };
        out.push((x, y, col));
    }
    (out, tag)
}

/// the pairs the model recurses into, and the name of that step
fn sub_pairs(a: &DataType, b: &DataType) -> (Vec<(DataType, DataType)>, &'static str) {
    use DataType::*;
    if let Some((x, y, t)) = peel(a, b) {
        return (vec![(x, y)], t);
    }
    match (a, b) {
        (Struct(fa), Struct(fb)) if fa.len() == fb.len() && !fa.is_empty() && a != b => {
            let same_order = fa.iter().zip(fb.iter()).all(|(x, y)| x.name() == y.name());
            let by_name = !same_order && fb.iter().all(|t| fa.iter().any(|f| f.name() == t.name()));
            let v = fb
                .iter()
                .enumerate()
                .map(|(j, t)| {
                    let i = if by_name { fa.iter().position(|f| f.name() == t.name()).unwrap() } else { j };
                    (fa[i].data_type().clone(), t.data_type().clone())
                })
                .collect();
            (v, "Struct>Struct")
        }
        (Map(ea, _), Map(eb, _)) if a != b => match (ea.data_type(), eb.data_type()) {
            (Struct(x), Struct(y)) if x.len() == 2 && y.len() == 2 => (
                vec![
                    (x[0].data_type().clone(), y[0].data_type().clone()),
                    (x[1].data_type().clone(), y[1].data_type().clone()),
                ],
                "Map>Map",
            ),
            _ => (vec![], ""),
        },
        _ => (vec![], ""),
    }
}

fn report(ctx: &mut Ctx, book: &mut Book, a: &DataType, b: &DataType, vals: &[Val], layout: &str, r: &CastRun) {
    for f in &r.findings {
        let key = (format!("{a}"), format!("{b}"), f.kind.clone());
        let sig = match book.sig_cache.get(&key) {
            Some(s) => s.clone(),
            None => {
                let s = book.sig(a, b, &f.kind, vals);
                book.sig_cache.insert(key, s.clone());
                s
            }
        };
        if !book.reported.insert(sig.clone()) && !ctx.verbose {
            // only counted: the witness of a signature is written once per shard
            ctx.violation(&sig, String::new());
            continue;
        }
        ctx.violation(
            &sig,
            format!(
                "cast {a} -> {b} ({layout} layout, {} rows)\n{}\ninput {}",
                vals.len(),
                f.detail,
                dump_vals(vals)
            ),
        );
    }
}

fn classify(ctx: &mut Ctx, a: &DataType, b: &DataType, layout: &str, r: &CastRun) {
    if let Some(m) = &r.model_panic {
        ctx.inconclusive(&format!("harness panic for {a} -> {b}: {m}"));
        return;
    }
    if let Some(why) = r.rejected {
        ctx.reject();
        ctx.count(&format!("rejected:{why}"), 1);
        return;
    }
    ctx.eval();
    ctx.count("rows_exact_reference", r.exact_rows as u64);
    ctx.count("rows_nulled_by_safe", r.nulled as u64);
    ctx.class(format!(
        "cast|{}->{}|{layout}|{}|{}",
        gens::type_class(a),
        gens::type_class(b),
        r.outcome,
        if r.nulled > 0 { "nulled" } else { "kept" }
    ));
}

/// inverse cast of the safe result back to `a`
fn inverse(ctx: &mut Ctx, book: &mut Book, a: &DataType, b: &DataType, vals: &[Val], r: &CastRun, rng: &mut Rng) {
    let Some((sa, got)) = &r.safe else { return };
    if !can_cast(b, a) || matches!(a, DataType::Null) || matches!(b, DataType::Null) {
        return;
    }
    if !r.findings.is_empty() || !got.iter().all(|v| in_domain(b, v)) {
        return;
    }
    let r2 = run_checked(b, a, got, sa, false, rng);
    if r2.rejected.is_some() {
        ctx.count("inverse_rejected", 1);
        return;
    }
    ctx.count("inverse_casts", 1);
    report(ctx, book, b, a, got, "cast-produced", &r2);
    if lossless(a, b) && r2.findings.is_empty() {
        if let Some((_, z)) = &r2.safe {
            ctx.count("inverse_lossless_checked", 1);
            for i in 0..vals.len() {
                if r.clean[i] && r2.clean[i] && !contains_nan(&vals[i]) && !val_eq(&z[i], &vals[i]) {
                    let (la, lb, _) = full_peel(a, b);
                    let sig = format!("{P}|inverse-not-identity|{}->{}->{}", fam(&la), fam(&lb), fam(&la));
                    ctx.violation(
                        &sig,
                        format!(
                            "cast {a} -> {b} -> {a} is not the identity at row {i}: {:?} -> {:?} -> {:?}\ninput {}",
                            vals[i],
                            got[i],
                            z[i],
                            dump_vals(vals)
                        ),
                    );
                    break;
                }
            }
        }
    }
}

/// `run_pair`, with every finding that the canonical layout of the same
/// logical column does not reproduce marked `layout-dependent`
fn run_checked(a: &DataType, b: &DataType, vals: &[Val], arr: &ArrayRef, canonical: bool, rng: &mut Rng) -> CastRun {
    let fo = FormatOptions::default();
    let mut r = run_pair(a, b, vals, arr, &fo, rng);
    if !canonical && !r.findings.is_empty() {
        let canon = match crate::mon::guard(|| build(a, vals)) {
            Ok(c) => c,
            Err(_) => return r,
        };
        let rc = run_pair(a, b, vals, &canon, &fo, rng);
        for f in r.findings.iter_mut() {
            if !rc.findings.iter().any(|g| g.kind == f.kind) {
                f.kind = format!("{}|layout-dependent", f.kind);
            }
        }
    }
    r
}

/// The same buffers with the validity of the rows `!keep(i)` cleared: the
/// values stay in the buffers (children, dictionary) but are logically null.
fn mask_rows(arr: &ArrayRef, keep: impl Fn(usize) -> bool) -> Option<ArrayRef> {
    use DataType::*;
    if matches!(arr.data_type(), Null | Union(_, _) | RunEndEncoded(_, _)) || arr.is_empty() {
        return None;
    }
    let valid: Vec<bool> = (0..arr.len()).map(|i| keep(i) && arr.is_valid(i)).collect();
    let nulls = arrow_buffer::NullBuffer::from(valid);
    let data = arr.to_data().into_builder().nulls(Some(nulls)).build().ok()?;
    Some(arrow_array::make_array(data))
}

/// deterministic adversarial layouts of the boundary column (masked, sliced)
fn masked_columns(ctx: &mut Ctx, book: &mut Book, a: &DataType, b: &DataType, vals: &[Val], rng: &mut Rng) {
    let what = format!("adversarial {a} -> {b}");
    guarded(ctx, &what, |ctx| {
        for (name, arr, logical) in adversarial(a, vals) {
            let r = run_checked(a, b, &logical, &arr, false, rng);
            classify(ctx, a, b, name, &r);
            report(ctx, book, a, b, &logical, name, &r);
        }
    });
}

/// one-row columns of the boundary values when the whole column fails
fn singleton_columns(ctx: &mut Ctx, book: &mut Book, a: &DataType, b: &DataType, vals: &[Val]) {
    let what = format!("singletons {a} -> {b}");
    guarded(ctx, &what, |ctx| {
        let fo = FormatOptions::default();
        let mut rng = Rng::new(7);
        let full = build(a, vals);
        let r = run_pair(a, b, vals, &full, &fo, &mut rng);
        if !whole_array_failure(&r) {
            return;
        }
        let mut found: Vec<Finding> = vec![];
        singletons_kinds(a, b, vals, &mut found);
        ctx.count("singleton_sweeps", 1);
        let r2 = CastRun { findings: found, ..Default::default() };
        report(ctx, book, a, b, vals, "single-row", &r2);
    });
}

fn cap_rows(a: &DataType, b: &DataType, vals: &mut Vec<Val>) {
    if (has_small_dict(a) || has_small_dict(b)) && vals.len() > 90 {
        let last = vals.pop();
        vals.truncate(89);
        vals.extend(last);
    }
}

/// all checks for one castable pair and one logical column
fn check_column(
    ctx: &mut Ctx,
    book: &mut Book,
    a: &DataType,
    b: &DataType,
    vals: &[Val],
    canonical: bool,
    rng: &mut Rng,
) {
    let what = format!("{a} -> {b}");
    guarded(ctx, &what, |ctx| check_column_inner(ctx, book, a, b, vals, canonical, rng));
}

fn check_column_inner(
    ctx: &mut Ctx,
    book: &mut Book,
    a: &DataType,
    b: &DataType,
    vals: &[Val],
    canonical: bool,
    rng: &mut Rng,
) {
    let (arr, layout) = if canonical { (build(a, vals), "canonical") } else { (realise(rng, a, vals), "random") };
    let r = run_checked(a, b, vals, &arr, canonical, rng);
    classify(ctx, a, b, layout, &r);
    report(ctx, book, a, b, vals, layout, &r);
    inverse(ctx, book, a, b, vals, &r, rng);
    ctx.sample(|| format!("{a} -> {b} [{layout}] outcome={} nulled={} input {}", r.outcome, r.nulled, dump_vals(vals)));
}

fn random_column(rng: &mut Rng, a: &DataType, b: &DataType, max: usize) -> Vec<Val> {
    let cfg = c13_cfg(3);
    let n = if has_small_dict(a) || has_small_dict(b) { rng.len_biased(max.min(60)) } else { rng.len_biased(max) };
    let mut vals = gen_column(rng, a, n, true, &cfg);
    let (la, lb, _) = full_peel(a, b);
    if is_string(&la) && !is_string(&lb) && !is_binary(&lb) && !lb.is_nested() {
        retarget_strings(rng, &lb, &mut vals, has_small_dict(a) || has_small_dict(b));
    }
    vals
}

// ------------------------------------------------------------ sections

/// run one case body under the panic monitor: a panic that escapes the
/// monitored arrow-rs calls is the harness' own and makes the case inconclusive
fn guarded(ctx: &mut Ctx, what: &str, f: impl FnOnce(&mut Ctx)) {
    if let Err(p) = crate::mon::guard(|| f(ctx)) {
        ctx.inconclusive(&format!("harness panic in {what}: {} @ {}", p.msg, p.loc));
    }
}

/// `random == false`: section `grid`, the deterministic part (can_cast vs
/// dispatch on empty / all-null arrays, boundary column in canonical, random
/// and masked layouts). `random == true`: section `gridr`, random columns for
/// the same pairs, bounded by its own soft time cap so that the later sections
/// always get their turn.
fn section_grid(ctx: &mut Ctx, book: &mut Book, random: bool) {
    let types = grid_types();
    let n = types.len() as u64;
    let name = if random { "gridr" } else { "grid" };
    let reps = ctx.tier.pick(1, 30, 2500);
    let cap = std::time::Duration::from_secs(ctx.tier.pick(5, 15, 300));
    let start = std::time::Instant::now();
    if !random {
        ctx.count("grid_types", n);
    }
    // random columns: several passes over the pairs so that a cut is even
    let passes: u64 = if random { reps.min(10) } else { 1 };
    for pass in 0..passes {
        for idx in ctx.cases(name, n * n) {
            if ctx.out_of_time() || (random && start.elapsed() > cap) {
                return;
            }
            if ctx.tier == crate::mon::Tier::Tiny && idx % 41 != 0 {
                continue; // smoke / Miri tier: a thin slice of the grid
            }
            let a = &types[(idx / n) as usize];
            let b = &types[(idx % n) as usize];
            if random {
                if !can_cast(a, b) {
                    continue;
                }
                // case index of a pass: replayable as `--section gridr --case idx`
                let mut rng = ctx.begin(name, idx);
                for _ in 0..pass {
                    rng = rng.fork();
                }
                for _ in 0..(reps / passes).max(1) {
                    let vals = random_column(&mut rng, a, b, 80);
                    check_column(ctx, book, a, b, &vals, false, &mut rng);
                }
                continue;
            }
            let mut rng = ctx.begin(name, idx);
            ctx.count("pairs_seen", 1);
            let cc = crate::mon::guard(|| can_cast_types(a, b));
            let cc = match cc {
                Ok(x) => x,
                Err(p) => {
                    ctx.panic_violation("can_cast_types", &p, format!("{a} -> {b}"));
                    continue;
                }
            };
            if !cc {
                ctx.count("pairs_not_castable", 1);
                continue;
            }
            ctx.count("pairs_castable", 1);
            // (1) empty and all-null arrays
            check_column(ctx, book, a, b, &[], true, &mut rng);
            if gens::can_be_null(a) {
                check_column(ctx, book, a, b, &vec![Val::Null; 5], true, &mut rng);
            }
            // deterministic boundary column: canonical, random and masked layouts
            let mut bv = boundary_vals(a);
            cap_rows(a, b, &mut bv);
            check_column(ctx, book, a, b, &bv, true, &mut rng);
            check_column(ctx, book, a, b, &bv, false, &mut rng);
            masked_columns(ctx, book, a, b, &bv, &mut rng);
            singleton_columns(ctx, book, a, b, &bv);
        }
    }
}

fn all_values(a: &DataType) -> Vec<Val> {
    use DataType::*;
    let mut v: Vec<Val> = match a {
        Int8 => (i8::MIN as i128..=i8::MAX as i128).map(Val::Int).collect(),
        UInt8 => (0..=u8::MAX as i128).map(Val::Int).collect(),
        Int16 => (i16::MIN as i128..=i16::MAX as i128).map(Val::Int).collect(),
        UInt16 => (0..=u16::MAX as i128).map(Val::Int).collect(),
        Float16 => (0..=u16::MAX).map(Val::F16).collect(),
        _ => vec![],
    };
    v.push(Val::Null);
    v
}

fn section_exh(ctx: &mut Ctx, book: &mut Book) {
    use DataType::*;
    let sources = [Int8, UInt8, Int16, UInt16, Float16];
    let targets: Vec<DataType> = grid_types()
        .into_iter()
        .filter(|t| !t.is_nested() && !matches!(t, Dictionary(_, _) | RunEndEncoded(_, _) | Null))
        .collect();
    let nt = targets.len() as u64;
    for idx in ctx.cases("exh", sources.len() as u64 * nt) {
        if ctx.out_of_time() {
            break;
        }
        if ctx.tier == crate::mon::Tier::Tiny && (idx / nt >= 2 || idx % 5 != 0) {
            continue; // smoke / Miri tier: 8-bit sources, every fifth target
        }
        let mut rng = ctx.begin("exh", idx);
        let a = &sources[(idx / nt) as usize];
        let b = &targets[(idx % nt) as usize];
        if a == b || !can_cast(a, b) {
            continue;
        }
        let what = format!("exhaustive {a} -> {b}");
        guarded(ctx, &what, |ctx| {
            let vals = all_values(a);
            let fo = FormatOptions::default();
            let arr = build(a, &vals);
            let r = run_pair(a, b, &vals, &arr, &fo, &mut rng);
            classify(ctx, a, b, "exhaustive", &r);
            ctx.count("exhaustive_values", vals.len() as u64 - 1);
            report(ctx, book, a, b, &vals, "exhaustive", &r);
            inverse(ctx, book, a, b, &vals, &r, &mut rng);
        });
    }
}

fn has_union_with_encoded_child(dt: &DataType) -> bool {
    use DataType::*;
    match dt {
        Union(fs, _) => fs.iter().any(|(_, f)| matches!(f.data_type(), RunEndEncoded(_, _) | Union(_, _)) || has_union_with_encoded_child(f.data_type())),
        List(x) | LargeList(x) | ListView(x) | LargeListView(x) | FixedSizeList(x, _) | Map(x, _) => has_union_with_encoded_child(x.data_type()),
        Struct(fs) => fs.iter().any(|f| has_union_with_encoded_child(f.data_type())),
        Dictionary(_, v) => has_union_with_encoded_child(v),
        RunEndEncoded(_, v) => has_union_with_encoded_child(v.data_type()),
        _ => false,
    }
}

fn section_rand(ctx: &mut Ctx, book: &mut Book) {
    let total = ctx.tier.pick(40, 200_000, 24_000_000);
    for idx in ctx.cases("rand", total) {
        if ctx.out_of_time() {
            break;
        }
        let mut rng = ctx.begin("rand", idx);
        // one container level over (possibly encoded) flat types: casts are
        // compositional and deeper nesting only blurs the attribution
        let cfg = c13_cfg(1);
        let mut a = gen_type(&mut rng, &cfg);
        while has_union_with_encoded_child(&a) {
            a = gen_type(&mut rng, &cfg);
        }
        let b = if rng.chance(1, 6) { gen_type(&mut rng, &cfg) } else { related_type(&mut rng, &a, 1) };
        if has_union_with_encoded_child(&b) {
            continue;
        }
        ctx.count("pairs_seen", 1);
        let cc = match crate::mon::guard(|| can_cast_types(&a, &b)) {
            Ok(x) => x,
            Err(p) => {
                ctx.panic_violation("can_cast_types", &p, format!("{a} -> {b}"));
                continue;
            }
        };
        if !cc {
            ctx.count("pairs_not_castable", 1);
            continue;
        }
        ctx.count("pairs_castable", 1);
        check_column(ctx, book, &a, &b, &[], true, &mut rng);
        if rng.chance(1, 3) {
            let mut bv = boundary_vals(&a);
            cap_rows(&a, &b, &mut bv);
            if bv.len() <= 400 {
                let canonical = rng.bool();
                check_column(ctx, book, &a, &b, &bv, canonical, &mut rng);
                masked_columns(ctx, book, &a, &b, &bv, &mut rng);
            }
        }
        for _ in 0..2 {
            let vals = random_column(&mut rng, &a, &b, 60);
            check_column(ctx, book, &a, &b, &vals, false, &mut rng);
        }
    }
}

// ------------------------------------------------------------ text round trip

struct Fmt {
    name: &'static str,
    date: Option<&'static str>,
    datetime: Option<&'static str>,
    ts: Option<&'static str>,
    ts_tz: Option<&'static str>,
    time: Option<&'static str>,
}

const FMTS: &[Fmt] = &[
    Fmt { name: "default", date: None, datetime: None, ts: None, ts_tz: None, time: None },
    Fmt {
        name: "iso-T-frac",
        date: Some("%Y-%m-%d"),
        datetime: Some("%Y-%m-%dT%H:%M:%S%.f"),
        ts: Some("%Y-%m-%dT%H:%M:%S%.f"),
        ts_tz: Some("%Y-%m-%dT%H:%M:%S%.f%:z"),
        time: Some("%H:%M:%S%.f"),
    },
    Fmt {
        name: "space-9f",
        date: Some("%Y%m%d"),
        datetime: Some("%Y-%m-%d %H:%M:%S%.9f"),
        ts: Some("%Y-%m-%d %H:%M:%S%.9f"),
        ts_tz: Some("%Y-%m-%d %H:%M:%S%.9f %:z"),
        time: Some("%H:%M:%S%.9f"),
    },
    Fmt {
        name: "ampm-z",
        date: Some("%Y-%m-%d"),
        datetime: Some("%Y-%m-%dT%H:%M:%S%.3f"),
        ts: Some("%Y-%m-%dT%H:%M:%S%.9fZ"),
        ts_tz: Some("%Y-%m-%dT%H:%M:%S%.9f%z"),
        time: Some("%I:%M:%S%.9f %p"),
    },
];

fn text_types() -> Vec<DataType> {
    use DataType::*;
    use TimeUnit::*;
    let mut v = vec![
        Boolean, Int8, Int16, Int32, Int64, UInt8, UInt16, UInt32, UInt64, Float16, Float32, Float64, Date32, Date64,
        Time32(Second), Time32(Millisecond), Time64(Microsecond), Time64(Nanosecond),
        Interval(IntervalUnit::YearMonth), Interval(IntervalUnit::DayTime), Interval(IntervalUnit::MonthDayNano),
        Decimal32(9, 2), Decimal32(9, 9), Decimal32(5, 0), Decimal32(1, 1), Decimal64(18, 4), Decimal64(18, 18),
        Decimal64(10, 0), Decimal128(38, 10), Decimal128(38, 0), Decimal128(38, 38), Decimal128(20, 19),
        Decimal256(76, 20), Decimal256(76, 76), Decimal256(76, 0), Decimal256(40, 5),
    ];
    for u in [Second, Millisecond, Microsecond, Nanosecond] {
        for z in [None, tz("+00:00"), tz("+05:30"), tz("-08:00"), tz("+14:00"), tz("-12:00")] {
            v.push(Timestamp(u, z));
        }
    }
    v
}

/// values of `t` whose default textual form is within the documented domain
fn text_domain(t: &DataType, v: &Val) -> bool {
    use DataType::*;
    match (t, v) {
        (_, Val::Null) => true,
        (Date32, Val::Int(d)) => (-719_162..=2_932_896).contains(d),
        (Date64, Val::Int(ms)) => ms % 86_400_000 == 0 && (-719_162..=2_932_896).contains(&(ms / 86_400_000)),
        (Timestamp(u, z), Val::Int(x)) => {
            let off = z.as_ref().and_then(|z| tz_offset_secs(z)).unwrap_or(0) as i128;
            let local = x.div_euclid(unit_mult(u)) + off;
            (-62_135_596_800..=253_402_300_799).contains(&local)
        }
        _ => true,
    }
}

fn text_values(rng: &mut Rng, t: &DataType, random: usize) -> Vec<Val> {
    let cfg = c13_cfg(0);
    let mut v: Vec<Val> = boundary_vals(t).into_iter().filter(|x| text_domain(t, x)).collect();
    let mut tries = 0;
    let want = v.len() + random;
    while v.len() < want && tries < random * 20 {
        tries += 1;
        let x = gens::gen_value(rng, t, &cfg);
        if text_domain(t, &x) {
            v.push(x);
        }
    }
    v
}

fn section_text(ctx: &mut Ctx) {
    let types = text_types();
    let strs = [DataType::Utf8, DataType::LargeUtf8, DataType::Utf8View];
    let reps = ctx.tier.pick(1, 60, 3000) as u64;
    let per = FMTS.len() as u64 * reps;
    for idx in ctx.cases("text", types.len() as u64 * per) {
        if ctx.out_of_time() {
            break;
        }
        let mut rng = ctx.begin("text", idx);
        let what = format!("text case {idx}");
        guarded(ctx, &what, |ctx| {
        let t = &types[(idx / per) as usize];
        let fmt = &FMTS[((idx % per) / reps) as usize];
        let temporal_fmt = matches!(t, DataType::Date32 | DataType::Date64 | DataType::Time32(_) | DataType::Time64(_) | DataType::Timestamp(_, _));
        if fmt.name != "default" && !temporal_fmt {
            return;
        }
        // a custom format with fewer sub-second digits than the type cannot express every value
        if fmt.name == "ampm-z" && matches!(t, DataType::Date64) {
            // Date64 values are whole days: %.3f is exact
        }
        let fo = FormatOptions::default()
            .with_date_format(fmt.date)
            .with_datetime_format(fmt.datetime)
            .with_timestamp_format(fmt.ts)
            .with_timestamp_tz_format(fmt.ts_tz)
            .with_time_format(fmt.time)
            .with_null(if rng.bool() { "" } else { "NULL" })
            .with_display_error(rng.bool())
            .with_types_info(rng.bool())
            .with_quoted_strings(rng.bool())
            .with_duration_format(if rng.bool() {
                arrow_cast::display::DurationFormat::ISO8601
            } else {
                arrow_cast::display::DurationFormat::Pretty
            });
        let vals = text_values(&mut rng, t, 40);
        let arr = if rng.bool() { build(t, &vals) } else { realise(&mut rng, t, &vals) };
        // outcome per string type
        let mut fails: Vec<(String, String)> = vec![];
        for s in &strs {
            if !can_cast(t, s) || !can_cast(s, t) {
                ctx.count("text_not_castable_both_ways", 1);
                continue;
            }
            let out = run_op(|| cast_with_options(arr.as_ref(), s, &opts(true, &fo)));
            let (class, detail) = match out {
                Outcome::Panic(p) => (format!("format-panic|{}", msg_class(&p.msg)), format!("panic {} @ {}", p.msg, p.loc)),
                Outcome::Err(m) => (format!("format-err|{}", msg_class(&m)), m),
                Outcome::Ok(text) => {
                    let tv = extract(text.as_ref());
                    if let Some(i) = (0..vals.len()).find(|i| !vals[*i].is_null() && tv[*i].is_null()) {
                        ("format-null".to_string(), format!("value {:?} formatted as NULL", vals[i]))
                    } else {
                        match run_op(|| cast_with_options(text.as_ref(), t, &opts(true, &fo))) {
                            Outcome::Panic(p) => (format!("parse-panic|{}", msg_class(&p.msg)), format!("panic {} @ {}", p.msg, p.loc)),
                            Outcome::Err(m) => (format!("parse-err|{}", msg_class(&m)), m),
                            Outcome::Ok(back) => {
                                let mut bv = extract(back.as_ref());
                                if sabotage() == "text-skew" {
                                    if let Some(Val::Int(x)) = bv.iter_mut().find(|v| matches!(v, Val::Int(_))) {
                                        *x += 1;
                                    }
                                }
                                match (0..vals.len()).find(|i| !val_eq(&bv[*i], &vals[*i])) {
                                    None => {
                                        ctx.eval();
                                        ctx.count("text_values_round_tripped", vals.len() as u64);
                                        ctx.class(format!("text|{}|{s}|{}|ok", gens::type_class(t), fmt.name));
                                        continue;
                                    }
                                    Some(i) => {
                                        let class = if bv[i].is_null() { "parse-null" } else { "value-changed" };
                                        (
                                            class.to_string(),
                                            format!("value {:?} formatted as {:?} parses back as {:?}", vals[i], tv[i], bv[i]),
                                        )
                                    }
                                }
                            }
                        }
                    }
                }
            };
            ctx.eval();
            fails.push((format!("{s}|{class}"), detail));
        }
        if fails.is_empty() {
            ctx.sample(|| format!("text {t} fmt={} {}", fmt.name, dump_vals(&vals)));
            return;
        }
        let classes: BTreeSet<&str> = fails.iter().map(|(c, _)| c.split_once('|').unwrap().1).collect();
        if fails.len() == 3 && classes.len() == 1 {
            let c = classes.iter().next().unwrap();
            ctx.violation(
                &format!("{P}|text-roundtrip|{}|{c}", match t { DataType::Interval(u) => format!("Interval({u:?})"), _ => fam(t).to_string() }),
                format!("{t} -> Utf8/LargeUtf8/Utf8View -> {t} with format {}: {}\ninput {}", fmt.name, fails[0].1, dump_vals(&vals)),
            );
        } else {
            for (c, d) in &fails {
                ctx.violation(
                    &format!("{P}|text-roundtrip|{}|{c}", match t { DataType::Interval(u) => format!("Interval({u:?})"), _ => fam(t).to_string() }),
                    format!("{t} -> string -> {t} with format {}: {d}\ninput {}", fmt.name, dump_vals(&vals)),
                );
            }
        }
            });
}
}

// ------------------------------------------------------------ DataType Display -> FromStr

const NAMES: &[&str] = &["item", "a", "f0", "some field", "é", "", "x'y", "x\"y", "a,b", "a(b)", "a: b", "non-null", "\\", "\n"];

fn name_class(n: &str) -> &'static str {
    if n.is_empty() {
        "empty"
    } else if n.chars().all(|c| c.is_ascii_alphanumeric() || c == '_') {
        "plain"
    } else if n.contains('\'') {
        "single-quote"
    } else if n.contains('"') {
        "double-quote"
    } else if n.contains('\\') || n.contains('\n') {
        "escape"
    } else if !n.is_ascii() {
        "unicode"
    } else {
        "punct"
    }
}

/// vary field names / nullability / map sortedness of a generated type
fn vary_type(rng: &mut Rng, dt: &DataType, exotic: Option<&str>) -> DataType {
    use DataType::*;
    let fld = |rng: &mut Rng, x: &Field, keep_name: bool| -> Field {
        let name = if keep_name || !rng.chance(1, 3) {
            x.name().to_string()
        } else if let Some(n) = exotic {
            // one unusual name per type so that a failure has one cause
            n.to_string()
        } else {
            rng.pick(&NAMES[..3]).to_string()
        };
        let c = vary_type(rng, x.data_type(), exotic);
        let nullable = if matches!(c, Null | Union(_, _)) { true } else { x.is_nullable() ^ rng.chance(1, 5) };
        Field::new(name, c, nullable)
    };
    match dt {
        List(x) => List(Arc::new(fld(rng, x, false))),
        LargeList(x) => LargeList(Arc::new(fld(rng, x, false))),
        ListView(x) => ListView(Arc::new(fld(rng, x, false))),
        LargeListView(x) => LargeListView(Arc::new(fld(rng, x, false))),
        FixedSizeList(x, n) => FixedSizeList(Arc::new(fld(rng, x, false)), *n),
        Struct(fs) => {
            let mut out: Vec<Field> = vec![];
            for x in fs.iter() {
                let mut y = fld(rng, x, false);
                if out.iter().any(|o| o.name() == y.name()) {
                    y = y.with_name(x.name());
                }
                out.push(y);
            }
            Struct(Fields::from(out))
        }
        Map(e, _) => {
            let Struct(kv) = e.data_type() else { return dt.clone() };
            let (kk, kv1) = (!rng.chance(1, 4), !rng.chance(1, 4));
            let k = fld(rng, &kv[0], kk).with_nullable(false);
            let mut v = fld(rng, &kv[1], kv1);
            if v.name() == k.name() {
                v = v.with_name("value");
            }
            let en = if rng.chance(1, 4) { "key_value" } else { e.name().as_str() };
            Map(Arc::new(Field::new(en, Struct(Fields::from(vec![k, v])), false)), rng.chance(1, 3))
        }
        Union(fs, m) => {
            let mut ids = vec![];
            let mut out: Vec<Field> = vec![];
            for (t, x) in fs.iter() {
                ids.push(t);
                let mut y = fld(rng, x, false).with_nullable(true);
                if out.iter().any(|o| o.name() == y.name()) {
                    y = y.with_name(x.name());
                }
                out.push(y);
            }
            match UnionFields::try_new(ids, out) {
                Ok(u) => Union(u, *m),
                Err(_) => dt.clone(),
            }
        }
        Dictionary(k, v) => Dictionary(k.clone(), Box::new(vary_type(rng, v, exotic))),
        RunEndEncoded(r, v) => {
            let rn = if rng.chance(1, 4) { "ends" } else { r.name().as_str() };
            let keep = !rng.chance(1, 4);
            let vf = fld(rng, v, keep);
            RunEndEncoded(Arc::new(Field::new(rn, r.data_type().clone(), false)), Arc::new(vf))
        }
        other => other.clone(),
    }
}

fn dtype_roundtrip(dt: &DataType) -> Result<(), (String, String)> {
    let s = match crate::mon::guard(|| dt.to_string()) {
        Ok(s) => s,
        Err(p) => return Err(("display-panic".into(), format!("{} @ {}", p.msg, p.loc))),
    };
    match crate::mon::guard(|| DataType::from_str(&s)) {
        Err(p) => Err(("parse-panic".into(), format!("{s:?}: {} @ {}", p.msg, p.loc))),
        Ok(Err(e)) => Err(("parse-err".into(), format!("{s:?}: {e}"))),
        Ok(Ok(back)) => {
            if &back == dt && sabotage() != "dtype-skew" {
                Ok(())
            } else {
                Err(("parsed-different".into(), format!("{s:?} parses as {back:?}, original {dt:?}")))
            }
        }
    }
}

fn children(dt: &DataType) -> Vec<DataType> {
    use DataType::*;
    match dt {
        List(x) | LargeList(x) | ListView(x) | LargeListView(x) | FixedSizeList(x, _) | Map(x, _) => vec![x.data_type().clone()],
        Struct(fs) => fs.iter().map(|x| x.data_type().clone()).collect(),
        Union(fs, _) => fs.iter().map(|(_, x)| x.data_type().clone()).collect(),
        Dictionary(k, v) => vec![(**k).clone(), (**v).clone()],
        RunEndEncoded(r, v) => vec![r.data_type().clone(), v.data_type().clone()],
        _ => vec![],
    }
}

fn field_names(dt: &DataType) -> Vec<String> {
    use DataType::*;
    match dt {
        List(x) | LargeList(x) | ListView(x) | LargeListView(x) | FixedSizeList(x, _) | Map(x, _) => vec![x.name().clone()],
        Struct(fs) => fs.iter().map(|x| x.name().clone()).collect(),
        Union(fs, _) => fs.iter().map(|(_, x)| x.name().clone()).collect(),
        RunEndEncoded(r, v) => vec![r.name().clone(), v.name().clone()],
        _ => vec![],
    }
}

fn constructor(dt: &DataType) -> String {
    let s = format!("{dt:?}");
    s.split(['(', ' ', '{']).next().unwrap_or("?").to_string()
}

/// smallest sub-type that fails on its own while all its children pass
fn minimal_failing(dt: &DataType) -> Option<(DataType, String, String)> {
    let Err((c, d)) = dtype_roundtrip(dt) else { return None };
    for ch in children(dt) {
        if let Some(x) = minimal_failing(&ch) {
            return Some(x);
        }
    }
    Some((dt.clone(), c, d))
}

/// every container constructor with every unusual field name
fn named_types() -> Vec<DataType> {
    use DataType::*;
    let mut out = vec![];
    for n in &NAMES[3..] {
        let f = |dt: DataType| Arc::new(Field::new(*n, dt, true));
        out.push(List(f(Int32)));
        out.push(LargeList(f(Utf8)));
        out.push(ListView(f(Int32)));
        out.push(LargeListView(f(Int32)));
        out.push(FixedSizeList(f(Int32), 3));
        out.push(Struct(Fields::from(vec![Field::new(*n, Int32, true), Field::new("b", Utf8, false)])));
        if let Ok(u) = UnionFields::try_new(vec![0, 5], vec![Field::new(*n, Int32, true), Field::new("b", Utf8, true)]) {
            out.push(Union(u.clone(), arrow_schema::UnionMode::Dense));
            out.push(Union(u, arrow_schema::UnionMode::Sparse));
        }
        let kv = |k: &str, v: &str| Struct(Fields::from(vec![Field::new(k, Utf8, false), Field::new(v, Int32, true)]));
        out.push(Map(Arc::new(Field::new(*n, kv("key", "value"), false)), false));
        out.push(Map(Arc::new(Field::new("entries", kv(n, "value"), false)), true));
        if *n != "key" {
            out.push(Map(Arc::new(Field::new("entries", kv("key", n), false)), false));
        }
        out.push(RunEndEncoded(Arc::new(Field::new(*n, Int32, false)), Arc::new(Field::new("values", Utf8, true))));
        out.push(RunEndEncoded(Arc::new(Field::new("run_ends", Int16, false)), f(Utf8)));
    }
    out
}

fn section_dtype(ctx: &mut Ctx) {
    let total = ctx.tier.pick(700, 200_000, 10_000_000);
    // the grid itself first (deterministic)
    let mut grid = grid_types();
    grid.extend(named_types());
    for idx in ctx.cases("dtype", total) {
        if ctx.out_of_time() {
            break;
        }
        let mut rng = ctx.begin("dtype", idx);
        let mut cfg = gens::TypeCfg::all();
        cfg.max_depth = 3;
        cfg.empty_struct = true;
        let exotic: Option<&str> = if idx % 4 == 3 { Some(NAMES[3 + (idx as usize / 4) % (NAMES.len() - 3)]) } else { None };
        let dt = if (idx as usize) < grid.len() {
            grid[idx as usize].clone()
        } else {
            let t = gen_type(&mut rng, &cfg);
            if idx % 2 == 0 { t } else { vary_type(&mut rng, &t, exotic) }
        };
        ctx.eval();
        match minimal_failing(&dt) {
            None => {
                ctx.class(format!("dtype|{}|{}", constructor(&dt), exotic.map(name_class).unwrap_or("std")));
                ctx.sample(|| format!("{dt}"));
            }
            Some((sub, class, detail)) => {
                let names: BTreeSet<&'static str> = field_names(&sub).iter().map(|n| name_class(n)).collect();
                let names: Vec<&str> = names.into_iter().filter(|c| *c != "plain").collect();
                // an unusual field name is the cause whatever the constructor
                let sig = if names.is_empty() {
                    format!("{P}|dtype-roundtrip|{}|{class}", constructor(&sub))
                } else {
                    format!("{P}|dtype-roundtrip|field-name={}|{class}", names.join("+"))
                };
                ctx.violation(&sig, format!("DataType Display -> FromStr: {detail}\nsmallest failing sub-type {sub:?}\nwhole type {dt:?}"));
            }
        }
    }
}

/// `sparse`: dictionaries with far more dictionary entries than rows (cast
/// kernels switch to a per-dictionary-value path when `keys.len() <
/// values.len() / 2`), built by hand because the layout generator only adds a
/// few unused entries. Dictionary values include multi-byte characters, byte
/// values that are only valid UTF-8 when concatenated with their neighbour,
/// plain invalid bytes and nulls; keys hit a random subset, with null keys.
fn sparse_dict(rng: &mut Rng, kt: &DataType, vt: &DataType) -> (ArrayRef, Vec<Val>) {
    use arrow_array::types::*;
    use arrow_array::{DictionaryArray, PrimitiveArray};
    let binary = is_binary(vt);
    let nkeys = rng.below(7);
    let ndict = 2 * nkeys + 3 + rng.below(12);
    let pool: [&[u8]; 10] = [b"", b"a", "\u{e9}".as_bytes(), "\u{65e5}\u{672c}".as_bytes(), b"0123456789abcdef", b"12", b"-7", "\u{1F600}x".as_bytes(), b"true", b"1.5"];
    let mut dict: Vec<Val> = Vec::with_capacity(ndict);
    while dict.len() < ndict {
        let c = rng.below(10);
        if binary && c == 0 && dict.len() + 2 <= ndict {
            // a character split over two adjacent dictionary values
            dict.push(Val::Bytes(vec![b'x', 0xC3]));
            dict.push(Val::Bytes(vec![0xA9, b'y']));
        } else if binary && c == 1 {
            dict.push(Val::Bytes(vec![0xFF, b'z']));
        } else if c == 2 {
            dict.push(Val::Null);
        } else {
            let b = pool[rng.below(pool.len())];
            dict.push(if binary { Val::Bytes(b.to_vec()) } else { Val::Str(String::from_utf8(b.to_vec()).unwrap()) });
        }
    }
    let values = build(vt, &dict);
    let mut ks: Vec<Option<usize>> = Vec::with_capacity(nkeys);
    let mut vals: Vec<Val> = Vec::with_capacity(nkeys);
    for _ in 0..nkeys {
        if rng.chance(1, 5) {
            ks.push(None);
            vals.push(Val::Null);
        } else {
            let k = rng.below(ndict);
            ks.push(Some(k));
            vals.push(dict[k].clone());
        }
    }
    macro_rules! mk {
        ($t:ty) => {{
            let keys: PrimitiveArray<$t> = ks.iter().map(|k| k.map(|k| k as <$t as ArrowPrimitiveType>::Native)).collect();
            Arc::new(DictionaryArray::<$t>::try_new(keys, values).expect("sparse dictionary")) as ArrayRef
        }};
    }
    let arr = match kt {
        DataType::Int8 => mk!(Int8Type),
        DataType::UInt16 => mk!(UInt16Type),
        DataType::Int32 => mk!(Int32Type),
        _ => mk!(Int64Type),
    };
    (arr, vals)
}

fn section_sparse(ctx: &mut Ctx, book: &mut Book) {
    use DataType::*;
    let kts = [Int8, UInt16, Int32, Int64];
    let vts = [Binary, LargeBinary, Utf8, LargeUtf8, BinaryView, Utf8View];
    let tts = [Utf8View, BinaryView, Utf8, LargeUtf8, Binary, LargeBinary, Int32, Boolean, Float64];
    let reps = ctx.tier.pick(1, 40, 1500);
    let total = (kts.len() * vts.len() * tts.len()) as u64;
    for idx in ctx.cases("sparse", total) {
        if ctx.out_of_time() {
            break;
        }
        let mut rng = ctx.begin("sparse", idx);
        let i = idx as usize;
        let kt = &kts[i % kts.len()];
        let vt = &vts[(i / kts.len()) % vts.len()];
        let b = &tts[i / (kts.len() * vts.len())];
        let a = Dictionary(Box::new(kt.clone()), Box::new(vt.clone()));
        if !can_cast(&a, b) {
            continue;
        }
        for _ in 0..reps {
            let what = format!("sparse {a} -> {b}");
            guarded(ctx, &what, |ctx| {
                let (arr, vals) = sparse_dict(&mut rng, kt, vt);
                let r = run_checked(&a, b, &vals, &arr, false, &mut rng);
                classify(ctx, &a, b, "sparse", &r);
                report(ctx, book, &a, b, &vals, "sparse", &r);
                ctx.count("sparse_dictionaries", 1);
                ctx.sample(|| format!("{a} -> {b} [sparse] outcome={} nulled={} input {}", r.outcome, r.nulled, dump_vals(&vals)));
            });
        }
    }
}

pub fn run(ctx: &mut Ctx) {
    let mut book = Book::new();
    // cheap deterministic sections first: the wall-clock deadline only ever
    // cuts the random exploration at the end
    section_dtype(ctx);
    section_text(ctx);
    section_sparse(ctx, &mut book);
    section_grid(ctx, &mut book, false);
    section_exh(ctx, &mut book);
    section_grid(ctx, &mut book, true);
    section_rand(ctx, &mut book);
    ctx.exhaustive = !ctx.out_of_time();
}
