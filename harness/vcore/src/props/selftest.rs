//! Harness self-test: generator -> realisations -> extractor -> validators.
use crate::build::{build, realise};
use crate::extract::extract;
use crate::gens::{TypeCfg, gen_column, gen_type, type_class};
use crate::mon::{Ctx, guard};
use crate::val::dump_vals;
use crate::validate::check_and_exercise;

pub fn run(ctx: &mut Ctx) {
    let total = ctx.tier.pick(50, 5_000, 100_000);
    for i in ctx.cases("self", total) {
        let mut rng = ctx.begin("self", i);
        let cfg = TypeCfg::all();
        let dt = gen_type(&mut rng, &cfg);
        let n = rng.len_biased(80);
        let vals = gen_column(&mut rng, &dt, n, true, &cfg);
        ctx.eval();
        for k in 0..3 {
            let r = guard(|| {
                let a = if k == 0 { build(&dt, &vals) } else { realise(&mut rng, &dt, &vals) };
                let back = extract(a.as_ref());
                if back != vals {
                    return Err(format!("extract != model: {} vs {}", dump_vals(&back), dump_vals(&vals)));
                }
                check_and_exercise(&a)
            });
            match r {
                Ok(Ok(())) => ctx.class(format!("{}|k{}", type_class(&dt), k.min(1))),
                Ok(Err(e)) => ctx.violation(&format!("SELF|{}", crate::mon::strip_digits(&e)), format!("type {dt}\nvals {}\n{e}", dump_vals(&vals))),
                Err(p) => ctx.violation(&format!("SELF|panic|{}|{}", p.file(), crate::mon::strip_digits(&p.msg)), format!("type {dt}\nvals {}\npanic {} @ {}", dump_vals(&vals), p.msg, p.loc)),
            }
        }
        ctx.sample(|| format!("{dt}: {}", dump_vals(&vals)));
    }
}
