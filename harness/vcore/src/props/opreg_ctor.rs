//! Registry family "ctor": builders (`finish`, `finish_cloned`, `finish_preserve_values`),
//! `FromIterator` / `From<Vec>`, typed `try_new` from `into_parts`, `slice`, `new_null_array`,
//! `new_empty_array`, `ArrayData` round trips, `MutableArrayData`, typed conversions.

use super::*;
use crate::build::default_val;
use crate::mon::guard;
use crate::{few_prims, key_dispatch, run_dispatch};
use arrow_array::builder::*;
use arrow_array::cast::AsArray;
use arrow_buffer::NullBuffer;
use arrow_data::transform::MutableArrayData;
use arrow_data::{ArrayData, ArrayDataBuilder};
use arrow_schema::{Field, Schema, UnionMode};

// ------------------------------------------------------------------ dyn builders

macro_rules! kv_inner {
    ($V:ty, $K:ty, $f:ident, ($($a:expr),*)) => {
        $f::<$K, $V>($($a),*)
    };
}
macro_rules! kv_outer {
    ($K:ty, $v:tt, $f:ident, $args:tt, $fb:tt) => {
        few_prims!($v, kv_inner, ($K, $f, $args), $fb)
    };
}

fn mk_prim_dict<K: ArrowDictionaryKeyType, V: ArrowPrimitiveType>(vt: &DataType) -> Box<dyn ArrayBuilder> {
    Box::new(PrimitiveDictionaryBuilder::<K, V>::new_from_empty_builders(
        PrimitiveBuilder::<K>::new(),
        PrimitiveBuilder::<V>::new().with_data_type(vt.clone()),
    ))
}
fn mk_prim_run<R: RunEndIndexType, V: ArrowPrimitiveType>(vt: &DataType) -> Box<dyn ArrayBuilder> {
    Box::new(PrimitiveRunBuilder::<R, V>::new().with_data_type(vt.clone()))
}
fn app_prim_dict<K: ArrowDictionaryKeyType, V: ArrowPrimitiveType>(b: &mut dyn ArrayBuilder, v: &Val) -> Result<(), String>
where
    V::Native: Nat,
{
    let pb = b.as_any_mut().downcast_mut::<PrimitiveDictionaryBuilder<K, V>>().ok_or("downcast PrimitiveDictionaryBuilder")?;
    match opt_nat::<V::Native>(v) {
        Some(x) => pb.append(x).map(|_| ()).map_err(|e| e.to_string()),
        None => {
            pb.append_null();
            Ok(())
        }
    }
}
fn app_prim_run<R: RunEndIndexType, V: ArrowPrimitiveType>(b: &mut dyn ArrayBuilder, v: &Val) -> Result<(), String>
where
    V::Native: Nat,
{
    let pb = b.as_any_mut().downcast_mut::<PrimitiveRunBuilder<R, V>>().ok_or("downcast PrimitiveRunBuilder")?;
    pb.append_option(opt_nat::<V::Native>(v));
    Ok(())
}
fn s_of(v: &Val) -> Option<&str> {
    v.as_str()
}
fn b_of(v: &Val) -> Option<&[u8]> {
    v.as_bytes()
}
fn app_bytes_dict<K: ArrowDictionaryKeyType, T: ByteArrayType>(b: &mut dyn ArrayBuilder, v: &Val, conv: for<'a> fn(&'a Val) -> Option<&'a T::Native>) -> Result<(), String> {
    let pb = b.as_any_mut().downcast_mut::<GenericByteDictionaryBuilder<K, T>>().ok_or("downcast GenericByteDictionaryBuilder")?;
    if v.is_null() {
        pb.append_null();
        return Ok(());
    }
    let x = conv(v).ok_or("model: bytes expected")?;
    pb.append(x).map(|_| ()).map_err(|e| e.to_string())
}
fn app_bytes_run<R: RunEndIndexType, T: ByteArrayType>(b: &mut dyn ArrayBuilder, v: &Val, conv: for<'a> fn(&'a Val) -> Option<&'a T::Native>) -> Result<(), String> {
    let pb = b.as_any_mut().downcast_mut::<GenericByteRunBuilder<R, T>>().ok_or("downcast GenericByteRunBuilder")?;
    if v.is_null() {
        pb.append_null();
        return Ok(());
    }
    let x = conv(v).ok_or("model: bytes expected")?;
    pb.append_value(x);
    Ok(())
}

/// which value types the harness can drive through a dictionary / run-end builder
fn enc_value_ok(vt: &DataType, dict: bool) -> bool {
    use DataType::*;
    is_few_prim(vt) || matches!(vt, Utf8 | LargeUtf8 | Binary | LargeBinary) || (dict && matches!(vt, FixedSizeBinary(w) if *w > 0))
}

/// `make_builder` can build the nested type (its inner dictionaries are limited)
fn nested_ok(dt: &DataType) -> bool {
    use DataType::*;
    match dt {
        Dictionary(k, v) => matches!(**k, Int8 | Int16 | Int32 | Int64) && matches!(**v, Utf8 | LargeUtf8 | Binary | LargeBinary),
        RunEndEncoded(_, _) | Union(_, _) => false,
        List(f) | LargeList(f) | ListView(f) | LargeListView(f) | FixedSizeList(f, _) | Map(f, _) => nested_ok(f.data_type()),
        Struct(fs) => !fs.is_empty() && fs.iter().all(|f| nested_ok(f.data_type())),
        _ => true,
    }
}

pub fn builder_supported(dt: &DataType) -> bool {
    use DataType::*;
    match dt {
        Dictionary(_, v) => enc_value_ok(v, true),
        RunEndEncoded(_, v) => enc_value_ok(v.data_type(), false),
        other => nested_ok(other),
    }
}

pub fn mk_builder(dt: &DataType, cap: usize) -> Result<Box<dyn ArrayBuilder>, String> {
    use DataType::*;
    match dt {
        Dictionary(k, v) => {
            let vt: &DataType = v;
            macro_rules! bytes_dict {
                ($K:ty, $T:ty) => {
                    Ok(Box::new(GenericByteDictionaryBuilder::<$K, $T>::new()) as Box<dyn ArrayBuilder>)
                };
            }
            macro_rules! fsb_dict {
                ($K:ty, $w:expr) => {
                    Ok(Box::new(FixedSizeBinaryDictionaryBuilder::<$K>::new($w)) as Box<dyn ArrayBuilder>)
                };
            }
            match vt {
                Utf8 => key_dispatch!(**k, bytes_dict, Utf8Type),
                LargeUtf8 => key_dispatch!(**k, bytes_dict, LargeUtf8Type),
                Binary => key_dispatch!(**k, bytes_dict, BinaryType),
                LargeBinary => key_dispatch!(**k, bytes_dict, LargeBinaryType),
                FixedSizeBinary(w) => {
                    let w = *w;
                    key_dispatch!(**k, fsb_dict, w)
                }
                p if is_few_prim(p) => Ok(key_dispatch!(**k, kv_outer, (*p), mk_prim_dict, (p), (unreachable!()))),
                o => Err(format!("harness: not supported: dictionary builder for {o}")),
            }
        }
        RunEndEncoded(r, v) => {
            let vt = v.data_type();
            macro_rules! bytes_run {
                ($R:ty, $T:ty) => {
                    Ok(Box::new(GenericByteRunBuilder::<$R, $T>::new()) as Box<dyn ArrayBuilder>)
                };
            }
            match vt {
                Utf8 => run_dispatch!(*r.data_type(), bytes_run, Utf8Type),
                LargeUtf8 => run_dispatch!(*r.data_type(), bytes_run, LargeUtf8Type),
                Binary => run_dispatch!(*r.data_type(), bytes_run, BinaryType),
                LargeBinary => run_dispatch!(*r.data_type(), bytes_run, LargeBinaryType),
                p if is_few_prim(p) => Ok(run_dispatch!(*r.data_type(), kv_outer, (*p), mk_prim_run, (p), (unreachable!()))),
                o => Err(format!("harness: not supported: run builder for {o}")),
            }
        }
        Union(_, _) => Err("harness: not supported: union through dyn builders".into()),
        other => guard(|| make_builder(other, cap)).map_err(|p| p.msg),
    }
}

macro_rules! app_prim {
    ($t:ty, $b:expr, $v:expr) => {{
        let pb = $b.as_any_mut().downcast_mut::<PrimitiveBuilder<$t>>().ok_or("downcast PrimitiveBuilder")?;
        pb.append_option(opt_nat::<<$t as ArrowPrimitiveType>::Native>($v));
        Ok(())
    }};
}

/// Append one logical value through the public builder API.
pub fn append_val(b: &mut dyn ArrayBuilder, dt: &DataType, nullable: bool, v: &Val) -> Result<(), String> {
    use DataType::*;
    let _ = nullable;
    macro_rules! bytes_b {
        ($B:ty, $conv:expr) => {{
            let pb = b.as_any_mut().downcast_mut::<$B>().ok_or("downcast bytes builder")?;
            match v {
                Val::Null => pb.append_null(),
                x => pb.append_value($conv(x).ok_or("model: bytes expected")?),
            }
            Ok(())
        }};
    }
    fn s(v: &Val) -> Option<&str> {
        v.as_str()
    }
    fn by(v: &Val) -> Option<&[u8]> {
        v.as_bytes()
    }
    match dt {
        Null => {
            b.as_any_mut().downcast_mut::<NullBuilder>().ok_or("downcast NullBuilder")?.append_null();
            Ok(())
        }
        Boolean => {
            let pb = b.as_any_mut().downcast_mut::<BooleanBuilder>().ok_or("downcast BooleanBuilder")?;
            pb.append_option(v.as_bool());
            Ok(())
        }
        Utf8 => bytes_b!(GenericStringBuilder<i32>, s),
        LargeUtf8 => bytes_b!(GenericStringBuilder<i64>, s),
        Binary => bytes_b!(GenericBinaryBuilder<i32>, by),
        LargeBinary => bytes_b!(GenericBinaryBuilder<i64>, by),
        Utf8View => bytes_b!(StringViewBuilder, s),
        BinaryView => bytes_b!(BinaryViewBuilder, by),
        FixedSizeBinary(_) => {
            let pb = b.as_any_mut().downcast_mut::<FixedSizeBinaryBuilder>().ok_or("downcast FixedSizeBinaryBuilder")?;
            match v {
                Val::Null => {
                    pb.append_null();
                    Ok(())
                }
                x => pb.append_value(x.as_bytes().ok_or("model: bytes expected")?).map_err(|e| e.to_string()),
            }
        }
        List(f) | LargeList(f) | ListView(f) | LargeListView(f) => {
            macro_rules! lst {
                ($B:ty) => {{
                    let lb = b.as_any_mut().downcast_mut::<$B>().ok_or("downcast list builder")?;
                    match v {
                        Val::Null => lb.append(false),
                        Val::List(xs) => {
                            for x in xs {
                                append_val(&mut **lb.values(), f.data_type(), f.is_nullable(), x)?;
                            }
                            lb.append(true);
                        }
                        o => return Err(format!("model: list expected, got {o:?}")),
                    }
                    Ok(())
                }};
            }
            match dt {
                List(_) => lst!(GenericListBuilder<i32, Box<dyn ArrayBuilder>>),
                LargeList(_) => lst!(GenericListBuilder<i64, Box<dyn ArrayBuilder>>),
                ListView(_) => lst!(GenericListViewBuilder<i32, Box<dyn ArrayBuilder>>),
                _ => lst!(GenericListViewBuilder<i64, Box<dyn ArrayBuilder>>),
            }
        }
        FixedSizeList(f, n) => {
            let lb = b.as_any_mut().downcast_mut::<FixedSizeListBuilder<Box<dyn ArrayBuilder>>>().ok_or("downcast FixedSizeListBuilder")?;
            match v {
                Val::Null => {
                    let d = default_val(f.data_type(), f.is_nullable());
                    for _ in 0..*n {
                        append_val(&mut **lb.values(), f.data_type(), f.is_nullable(), &d)?;
                    }
                    lb.append(false);
                }
                Val::List(xs) => {
                    for x in xs {
                        append_val(&mut **lb.values(), f.data_type(), f.is_nullable(), x)?;
                    }
                    lb.append(true);
                }
                o => return Err(format!("model: list expected, got {o:?}")),
            }
            Ok(())
        }
        Struct(fs) => {
            let sb = b.as_any_mut().downcast_mut::<StructBuilder>().ok_or("downcast StructBuilder")?;
            for (i, f) in fs.iter().enumerate() {
                let d;
                let x = match v {
                    Val::Struct(xs) => &xs[i],
                    _ => {
                        d = default_val(f.data_type(), f.is_nullable());
                        &d
                    }
                };
                append_val(&mut *sb.field_builders_mut()[i], f.data_type(), f.is_nullable(), x)?;
            }
            sb.append(!v.is_null());
            Ok(())
        }
        Map(entries, _) => {
            let mb = b.as_any_mut().downcast_mut::<MapBuilder<Box<dyn ArrayBuilder>, Box<dyn ArrayBuilder>>>().ok_or("downcast MapBuilder")?;
            let Struct(kv) = entries.data_type() else { return Err("model: map entries".into()) };
            match v {
                Val::Null => mb.append(false).map_err(|e| e.to_string()),
                Val::List(es) => {
                    for e in es {
                        let Val::Struct(pair) = e else { return Err("model: map entry".into()) };
                        append_val(&mut **mb.keys(), kv[0].data_type(), false, &pair[0])?;
                        append_val(&mut **mb.values(), kv[1].data_type(), kv[1].is_nullable(), &pair[1])?;
                    }
                    mb.append(true).map_err(|e| e.to_string())
                }
                o => Err(format!("model: map expected, got {o:?}")),
            }
        }
        Dictionary(k, vt) => {
            macro_rules! bd {
                ($K:ty, $T:ty, $c:ident) => {
                    app_bytes_dict::<$K, $T>(b, v, $c)
                };
            }
            macro_rules! fd {
                ($K:ty) => {{
                    let pb = b.as_any_mut().downcast_mut::<FixedSizeBinaryDictionaryBuilder<$K>>().ok_or("downcast FixedSizeBinaryDictionaryBuilder")?;
                    match v {
                        Val::Null => {
                            pb.append_null();
                            Ok(())
                        }
                        x => pb.append(x.as_bytes().ok_or("model: bytes expected")?).map(|_| ()).map_err(|e| e.to_string()),
                    }
                }};
            }
            match &**vt {
                Utf8 => key_dispatch!(**k, bd, Utf8Type, s_of),
                LargeUtf8 => key_dispatch!(**k, bd, LargeUtf8Type, s_of),
                Binary => key_dispatch!(**k, bd, BinaryType, b_of),
                LargeBinary => key_dispatch!(**k, bd, LargeBinaryType, b_of),
                FixedSizeBinary(_) => key_dispatch!(**k, fd),
                p if is_few_prim(p) => key_dispatch!(**k, kv_outer, (*p), app_prim_dict, (b, v), (unreachable!())),
                o => Err(format!("harness: not supported: dictionary builder for {o}")),
            }
        }
        RunEndEncoded(r, vf) => {
            macro_rules! br {
                ($R:ty, $T:ty, $c:ident) => {
                    app_bytes_run::<$R, $T>(b, v, $c)
                };
            }
            match vf.data_type() {
                Utf8 => run_dispatch!(*r.data_type(), br, Utf8Type, s_of),
                LargeUtf8 => run_dispatch!(*r.data_type(), br, LargeUtf8Type, s_of),
                Binary => run_dispatch!(*r.data_type(), br, BinaryType, b_of),
                LargeBinary => run_dispatch!(*r.data_type(), br, LargeBinaryType, b_of),
                p if is_few_prim(p) => run_dispatch!(*r.data_type(), kv_outer, (*p), app_prim_run, (b, v), (unreachable!())),
                o => Err(format!("harness: not supported: run builder for {o}")),
            }
        }
        Union(_, _) => Err("harness: not supported: union through dyn builders".into()),
        prim => {
            downcast_primitive! {
                prim => (app_prim, b, v),
                o => Err(format!("harness: not supported: builder for {o}"))
            }
        }
    }
}

fn unsupported(e: String) -> ArrowError {
    if e.starts_with("model:") {
        panic!("{e}");
    }
    ArrowError::NotYetImplemented(e)
}

/// builder -> append all -> finish
pub fn via_builder(dt: &DataType, vals: &[Val]) -> Result<ArrayRef, ArrowError> {
    let mut b = mk_builder(dt, vals.len().min(8)).map_err(unsupported)?;
    for v in vals {
        append_val(&mut *b, dt, true, v).map_err(unsupported)?;
    }
    Ok(b.finish())
}

/// one builder used twice: `first` -> finish(), then `second` -> finish() (a finished builder
/// must be empty again)
pub fn via_builder_reuse(dt: &DataType, first: &[Val], second: &[Val]) -> Result<(ArrayRef, ArrayRef), ArrowError> {
    let mut b = mk_builder(dt, 4).map_err(unsupported)?;
    for v in first {
        append_val(&mut *b, dt, true, v).map_err(unsupported)?;
    }
    let a1 = b.finish();
    for v in second {
        append_val(&mut *b, dt, true, v).map_err(unsupported)?;
    }
    Ok((a1, b.finish()))
}

// ------------------------------------------------------------------ FromIterator / From<Vec>

macro_rules! from_iter_prim {
    ($t:ty, $dt:expr, $vals:expr, $mode:expr) => {{
        type N = <$t as ArrowPrimitiveType>::Native;
        let a: PrimitiveArray<$t> = match $mode {
            0 => $vals.iter().map(|v| opt_nat::<N>(v)).collect(),
            1 => PrimitiveArray::<$t>::from($vals.iter().map(|v| opt_nat::<N>(v)).collect::<Vec<Option<N>>>()),
            2 => PrimitiveArray::<$t>::from_iter_values_with_nulls(
                $vals.iter().map(|v| N::from_val(v)),
                if $vals.iter().any(|v| v.is_null()) { Some(NullBuffer::from($vals.iter().map(|v| !v.is_null()).collect::<Vec<bool>>())) } else { None },
            ),
            _ => {
                if $vals.iter().any(|v| v.is_null()) {
                    return nyi("from_iter_values with nulls");
                }
                if $mode == 3 { PrimitiveArray::<$t>::from_iter_values($vals.iter().map(|v| N::from_val(v))) } else { PrimitiveArray::<$t>::from($vals.iter().map(|v| N::from_val(v)).collect::<Vec<N>>()) }
            }
        };
        Ok(Arc::new(a.with_data_type($dt.clone())) as ArrayRef)
    }};
}

/// typed `FromIterator` / `From<Vec<..>>` constructors; `mode` selects the variant
pub fn via_from_iter(dt: &DataType, vals: &[Val], mode: u32) -> Result<ArrayRef, ArrowError> {
    use DataType::*;
    let has_null = vals.iter().any(|v| v.is_null());
    macro_rules! bytes_fi {
        ($A:ty, $get:ident) => {{
            let a: $A = match mode {
                0 | 2 => vals.iter().map(|v| v.$get()).collect(),
                1 => <$A>::from(vals.iter().map(|v| v.$get()).collect::<Vec<_>>()),
                _ => {
                    if has_null {
                        return nyi("from_iter_values with nulls");
                    }
                    <$A>::from_iter_values(vals.iter().map(|v| v.$get().unwrap()))
                }
            };
            Ok(Arc::new(a) as ArrayRef)
        }};
    }
    match dt {
        Boolean => {
            let a: BooleanArray = match mode {
                0 | 2 => vals.iter().map(|v| v.as_bool()).collect(),
                1 => BooleanArray::from(vals.iter().map(|v| v.as_bool()).collect::<Vec<Option<bool>>>()),
                _ => {
                    if has_null {
                        return nyi("BooleanArray::from(Vec<bool>) with nulls");
                    }
                    BooleanArray::from(vals.iter().map(|v| v.as_bool().unwrap()).collect::<Vec<bool>>())
                }
            };
            Ok(Arc::new(a))
        }
        Utf8 => bytes_fi!(GenericStringArray<i32>, as_str),
        LargeUtf8 => bytes_fi!(GenericStringArray<i64>, as_str),
        Binary => bytes_fi!(GenericBinaryArray<i32>, as_bytes),
        LargeBinary => bytes_fi!(GenericBinaryArray<i64>, as_bytes),
        Utf8View => bytes_fi!(StringViewArray, as_str),
        BinaryView => bytes_fi!(BinaryViewArray, as_bytes),
        FixedSizeBinary(w) => {
            if has_null || vals.is_empty() || mode % 2 == 0 {
                FixedSizeBinaryArray::try_from_sparse_iter_with_size(vals.iter().map(|v| v.as_bytes()), *w).map(|a| Arc::new(a) as ArrayRef)
            } else {
                FixedSizeBinaryArray::try_from_iter(vals.iter().map(|v| v.as_bytes().unwrap())).map(|a| Arc::new(a) as ArrayRef)
            }
        }
        Dictionary(k, v) if matches!(**v, Utf8) => {
            macro_rules! d {
                ($K:ty) => {{
                    let a: DictionaryArray<$K> = if has_null || mode % 2 == 0 { vals.iter().map(|v| v.as_str()).collect() } else { vals.iter().map(|v| v.as_str().unwrap()).collect() };
                    Ok(Arc::new(a) as ArrayRef)
                }};
            }
            key_dispatch!(**k, d)
        }
        RunEndEncoded(r, v) if matches!(v.data_type(), Utf8) => {
            macro_rules! d {
                ($R:ty) => {{
                    let a: RunArray<$R> = if has_null || mode % 2 == 0 { vals.iter().map(|v| v.as_str()).collect() } else { vals.iter().map(|v| v.as_str().unwrap()).collect() };
                    Ok(Arc::new(a) as ArrayRef)
                }};
            }
            run_dispatch!(*r.data_type(), d)
        }
        List(f) | LargeList(f) | ListView(f) | LargeListView(f) | FixedSizeList(f, _) if f.is_nullable() && f.name() == "item" && is_few_prim(f.data_type()) && !matches!(f.data_type(), Decimal128(_, _) | Timestamp(_, _)) => {
            macro_rules! lp {
                ($T:ty) => {{
                    type N = <$T as ArrowPrimitiveType>::Native;
                    let it = vals.iter().map(|v| match v {
                        Val::List(xs) => Some(xs.iter().map(|x| opt_nat::<N>(x)).collect::<Vec<Option<N>>>()),
                        _ => None,
                    });
                    let a: ArrayRef = match dt {
                        List(_) => Arc::new(GenericListArray::<i32>::from_iter_primitive::<$T, _, _>(it)),
                        LargeList(_) => Arc::new(GenericListArray::<i64>::from_iter_primitive::<$T, _, _>(it)),
                        ListView(_) => Arc::new(GenericListViewArray::<i32>::from_iter_primitive::<$T, _, _>(it)),
                        LargeListView(_) => Arc::new(GenericListViewArray::<i64>::from_iter_primitive::<$T, _, _>(it)),
                        FixedSizeList(_, n) => Arc::new(FixedSizeListArray::from_iter_primitive::<$T, _, _>(it, *n)),
                        _ => unreachable!(),
                    };
                    Ok(a)
                }};
            }
            few_prims!(*f.data_type(), lp, (), (nyi("from_iter_primitive")))
        }
        prim if prim.is_primitive() => {
            downcast_primitive! {
                prim => (from_iter_prim, prim, vals, mode),
                o => nyi(&format!("from_iter for {o}"))
            }
        }
        o => nyi(&format!("from_iter for {o}")),
    }
}

pub fn from_iter_supported(dt: &DataType) -> bool {
    use DataType::*;
    match dt {
        Boolean | Utf8 | LargeUtf8 | Binary | LargeBinary | Utf8View | BinaryView => true,
        FixedSizeBinary(w) => *w > 0,
        Dictionary(_, v) => matches!(**v, Utf8),
        RunEndEncoded(_, v) => matches!(v.data_type(), Utf8),
        List(f) | LargeList(f) | ListView(f) | LargeListView(f) | FixedSizeList(f, _) => f.is_nullable() && f.name() == "item" && is_few_prim(f.data_type()) && !matches!(f.data_type(), Decimal128(_, _) | Timestamp(_, _)),
        p => p.is_primitive(),
    }
}

// ------------------------------------------------------------------ into_parts -> try_new

macro_rules! parts_prim {
    ($t:ty, $a:expr) => {{
        let (dt, values, nulls) = $a.as_primitive::<$t>().clone().into_parts();
        let r = PrimitiveArray::<$t>::try_new(values, nulls)?;
        Ok(Arc::new(r.with_data_type(dt)) as ArrayRef)
    }};
}

pub fn via_parts(a: &ArrayRef) -> Result<ArrayRef, ArrowError> {
    use DataType::*;
    macro_rules! bytes_p {
        ($T:ty) => {{
            let (o, v, n) = a.as_bytes::<$T>().clone().into_parts();
            Ok(Arc::new(GenericByteArray::<$T>::try_new(o, v, n)?) as ArrayRef)
        }};
    }
    macro_rules! view_p {
        ($T:ty) => {{
            let (v, b, n) = a.as_byte_view::<$T>().clone().into_parts();
            Ok(Arc::new(GenericByteViewArray::<$T>::try_new(v, b.to_vec(), n)?) as ArrayRef)
        }};
    }
    match a.data_type() {
        Null => Ok(Arc::new(NullArray::new(a.len()))),
        Boolean => {
            let (v, n) = a.as_boolean().clone().into_parts();
            Ok(Arc::new(BooleanArray::new(v, n)))
        }
        Utf8 => bytes_p!(Utf8Type),
        LargeUtf8 => bytes_p!(LargeUtf8Type),
        Binary => bytes_p!(BinaryType),
        LargeBinary => bytes_p!(LargeBinaryType),
        Utf8View => view_p!(StringViewType),
        BinaryView => view_p!(BinaryViewType),
        FixedSizeBinary(_) => {
            let n0 = a.len();
            let (w, b, n) = a.as_fixed_size_binary().clone().into_parts();
            Ok(Arc::new(FixedSizeBinaryArray::try_new_with_len(w, b, n, n0)?))
        }
        List(_) => {
            let (f, o, v, n) = a.as_list::<i32>().clone().into_parts();
            Ok(Arc::new(GenericListArray::<i32>::try_new(f, o, v, n)?))
        }
        LargeList(_) => {
            let (f, o, v, n) = a.as_list::<i64>().clone().into_parts();
            Ok(Arc::new(GenericListArray::<i64>::try_new(f, o, v, n)?))
        }
        ListView(_) => {
            let (f, o, s, v, n) = a.as_list_view::<i32>().clone().into_parts();
            Ok(Arc::new(GenericListViewArray::<i32>::try_new(f, o, s, v, n)?))
        }
        LargeListView(_) => {
            let (f, o, s, v, n) = a.as_list_view::<i64>().clone().into_parts();
            Ok(Arc::new(GenericListViewArray::<i64>::try_new(f, o, s, v, n)?))
        }
        FixedSizeList(_, _) => {
            let n0 = a.len();
            let (f, w, v, n) = a.as_fixed_size_list().clone().into_parts();
            Ok(Arc::new(FixedSizeListArray::try_new_with_length(f, w, v, n, n0)?))
        }
        Struct(_) => {
            let n0 = a.len();
            let (f, c, n) = a.as_struct().clone().into_parts();
            Ok(Arc::new(StructArray::try_new_with_length(f, c, n, n0)?))
        }
        Map(_, _) => {
            let (f, o, e, n, ord) = a.as_map().clone().into_parts();
            Ok(Arc::new(MapArray::try_new(f, o, e, n, ord)?))
        }
        Union(_, _) => {
            let (f, t, o, c) = a.as_union().clone().into_parts();
            Ok(Arc::new(UnionArray::try_new(f, t, o, c)?))
        }
        Dictionary(k, _) => {
            macro_rules! d {
                ($K:ty) => {{
                    let (keys, values) = a.as_dictionary::<$K>().clone().into_parts();
                    Ok(Arc::new(DictionaryArray::<$K>::try_new(keys, values)?) as ArrayRef)
                }};
            }
            key_dispatch!(**k, d)
        }
        RunEndEncoded(_, _) => nyi("RunArray::into_parts -> try_new (run ends are a buffer, not an array)"),
        prim => {
            downcast_primitive! {
                prim => (parts_prim, a),
                o => nyi(&format!("into_parts for {o}"))
            }
        }
    }
}

// ------------------------------------------------------------------ planner

fn data_try_new(d: &ArrayData) -> Result<ArrayData, ArrowError> {
    // the fully validating constructor on the decomposed parts
    let nulls = d.nulls().cloned();
    let b = ArrayDataBuilder::new(d.data_type().clone()).len(d.len()).offset(d.offset()).buffers(d.buffers().to_vec()).child_data(d.child_data().to_vec()).nulls(nulls);
    b.build()
}

pub fn plan(def: &OpDef, rng: &mut Rng, dt: &DataType, vals: &[Val]) -> Option<P> {
    use DataType::*;
    let n = vals.len();
    let dtc = dt.clone();
    let valsc: Vec<Val> = vals.to_vec();
    match def.name {
        "builder.finish" => {
            if !builder_supported(dt) {
                return None;
            }
            let half = n / 2;
            p(String::new(), "-", vec![], vec![], move |_x, _a, _c| {
                let mut b = mk_builder(&dtc, 4).map_err(unsupported)?;
                for v in &valsc {
                    append_val(&mut *b, &dtc, true, v).map_err(unsupported)?;
                }
                let full = b.finish();
                // a finished builder is reusable
                for v in &valsc[..half] {
                    append_val(&mut *b, &dtc, true, v).map_err(unsupported)?;
                }
                let second = b.finish();
                Ok(vec![Out::Arr(full), Out::Side(second)])
            })
        }
        "builder.append_array" => {
            // values appended one by one (leaving an in-progress block / partial state), then the
            // rest of the column appended as a whole ARRAY in its physical layout, then finish
            if !matches!(dt, Utf8View | BinaryView | Utf8 | LargeUtf8 | Binary | LargeBinary | Boolean | Int32 | Int64 | Float64) {
                return None;
            }
            let half = *rng.pick(&[0usize, 1, n / 2, n.saturating_sub(1)]).min(&n);
            p(format!("head {half}"), "-", vec![], vec![], move |x, _a, _c| {
                use arrow_array::builder::*;
                use arrow_array::cast::AsArray;
                use arrow_array::types::*;
                let mut b = mk_builder(&dtc, 4).map_err(unsupported)?;
                for v in &valsc[..half] {
                    append_val(&mut *b, &dtc, true, v).map_err(unsupported)?;
                }
                let tail = x.slice(half, x.len() - half);
                let any = b.as_any_mut();
                match &dtc {
                    Utf8View => any.downcast_mut::<StringViewBuilder>().ok_or_else(|| unsupported("builder type".to_string()))?.append_array(tail.as_string_view()),
                    BinaryView => any.downcast_mut::<BinaryViewBuilder>().ok_or_else(|| unsupported("builder type".to_string()))?.append_array(tail.as_binary_view()),
                    Utf8 => any.downcast_mut::<StringBuilder>().ok_or_else(|| unsupported("builder type".to_string()))?.append_array(tail.as_string::<i32>())?,
                    LargeUtf8 => any.downcast_mut::<LargeStringBuilder>().ok_or_else(|| unsupported("builder type".to_string()))?.append_array(tail.as_string::<i64>())?,
                    Binary => any.downcast_mut::<BinaryBuilder>().ok_or_else(|| unsupported("builder type".to_string()))?.append_array(tail.as_binary::<i32>())?,
                    LargeBinary => any.downcast_mut::<LargeBinaryBuilder>().ok_or_else(|| unsupported("builder type".to_string()))?.append_array(tail.as_binary::<i64>())?,
                    Boolean => any.downcast_mut::<BooleanBuilder>().ok_or_else(|| unsupported("builder type".to_string()))?.append_array(tail.as_boolean()),
                    Int32 => any.downcast_mut::<Int32Builder>().ok_or_else(|| unsupported("builder type".to_string()))?.append_array(tail.as_primitive::<Int32Type>()),
                    Int64 => any.downcast_mut::<Int64Builder>().ok_or_else(|| unsupported("builder type".to_string()))?.append_array(tail.as_primitive::<Int64Type>()),
                    _ => any.downcast_mut::<Float64Builder>().ok_or_else(|| unsupported("builder type".to_string()))?.append_array(tail.as_primitive::<Float64Type>()),
                }
                let cl = b.finish_cloned();
                let full = b.finish();
                Ok(vec![Out::Arr(cl), Out::Arr(full)])
            })
        }
        "builder.finish_cloned" | "builder.finish_preserve_values" => {
            if !builder_supported(dt) {
                return None;
            }
            let half = n / 2;
            let preserve = def.name == "builder.finish_preserve_values";
            p(String::new(), "-", vec![], vec![], move |_x, _a, _c| {
                let mut b = mk_builder(&dtc, 4).map_err(unsupported)?;
                for v in &valsc[..half] {
                    append_val(&mut *b, &dtc, true, v).map_err(unsupported)?;
                }
                let part = if preserve { b.finish_preserve_values() } else { b.finish_cloned() };
                if preserve {
                    // rows restart, dictionary values are kept
                    for v in &valsc {
                        append_val(&mut *b, &dtc, true, v).map_err(unsupported)?;
                    }
                } else {
                    for v in &valsc[half..] {
                        append_val(&mut *b, &dtc, true, v).map_err(unsupported)?;
                    }
                }
                let cl = b.finish_cloned();
                let full = b.finish();
                Ok(vec![Out::Side(part), Out::Arr(cl), Out::Arr(full)])
            })
        }
        "from_iter" | "from_vec" => {
            if !from_iter_supported(dt) {
                return None;
            }
            let mode = if def.name == "from_iter" { *rng.pick(&[0u32, 2]) } else { *rng.pick(&[1u32, 3, 4]) };
            p(format!("mode {mode}"), &format!("m{mode}"), vec![], vec![], move |_x, _a, _c| one_ref(via_from_iter(&dtc, &valsc, mode)?))
        }
        "parts.try_new" => p(String::new(), "-", vec![], vec![], move |x, _a, _c| one_ref(via_parts(x)?)),
        "slice" => {
            let o = rng.below(n + 1);
            let l = rng.below(n - o + 1);
            let o2 = rng.below(l + 1);
            let l2 = rng.below(l - o2 + 1);
            p(format!("slice({o},{l}).slice({o2},{l2})"), if o % 8 == 0 { "aligned" } else { "unaligned" }, vec![], vec![], move |x, _a, _c| {
                let s1 = x.slice(o, l);
                let s2 = s1.slice(o2, l2);
                Ok(vec![Out::Arr(s1), Out::Arr(s2)])
            })
        }
        "new_null_array" => {
            let k = *rng.pick(&[0usize, 1, 7, 8, 9, 64, 65]);
            p(format!("len {k}"), "-", vec![], vec![], move |_x, _a, _c| one_ref(new_null_array(&dtc, k)))
        }
        "new_empty_array" => p(String::new(), "-", vec![], vec![], move |_x, _a, _c| one_ref(new_empty_array(&dtc))),
        "make_array.to_data" => p(String::new(), "-", vec![], vec![], move |x, _a, _c| {
            let d = x.to_data();
            let again = make_array(d.clone());
            let into: ArrayData = again.into_data();
            Ok(vec![Out::Data(d.clone()), Out::Data(into.clone()), Out::Arr(make_array(d)), Out::Arr(make_array(into))])
        }),
        "array_data.try_new" => p(String::new(), "-", vec![], vec![], move |x, _a, _c| {
            let d = data_try_new(&x.to_data())?;
            one_ref(make_array(d))
        }),
        "array_data.slice" => {
            let o = rng.below(n + 1);
            let l = rng.below(n - o + 1);
            p(format!("ArrayData::slice({o},{l})"), if o % 8 == 0 { "aligned" } else { "unaligned" }, vec![], vec![], move |x, _a, _c| {
                let d = x.to_data().slice(o, l);
                let mut out = vec![Out::Data(d.clone())];
                // (for struct data `make_array` of the slice panics on this tree when o > 0; the
                // ArrayData itself is judged above either way)
                if let Ok(a) = guard(|| make_array(d)) {
                    out.push(Out::Arr(a));
                }
                Ok(out)
            })
        }
        "mutable_array_data" => {
            if small_dict(dt) && n > 12 {
                return None;
            }
            let nsrc = 1 + rng.below(2);
            let cfg = TypeCfg::all();
            let mut aux: Vec<Col> = Vec::new();
            let mut lens = vec![n];
            for _ in 0..nsrc {
                let m = if small_dict(dt) { rng.len_biased(9) } else { rng.len_biased(20) };
                aux.push((dt.clone(), gen_column(rng, dt, m, true, &cfg)));
                lens.push(m);
            }
            let use_nulls = rng.bool();
            let mut script: Vec<(usize, usize, usize)> = Vec::new();
            for _ in 0..1 + rng.below(6) {
                if use_nulls && rng.chance(1, 4) {
                    script.push((usize::MAX, rng.below(4), 0));
                } else {
                    let s = rng.below(lens.len());
                    let a = rng.below(lens[s] + 1);
                    let b = a + rng.below(lens[s] - a + 1);
                    script.push((s, a, b));
                }
            }
            p(format!("use_nulls {use_nulls} script {script:?}"), if use_nulls { "nulls" } else { "nonulls" }, aux, vec![], move |x, a, _c| {
                let mut datas = vec![x.to_data()];
                datas.extend(a.iter().map(|r| r.to_data()));
                let refs: Vec<&ArrayData> = datas.iter().collect();
                let mut m = MutableArrayData::try_new(refs, use_nulls, 4)?;
                for (s, a, b) in &script {
                    if *s == usize::MAX {
                        m.try_extend_nulls(*a)?;
                    } else {
                        m.try_extend(*s, *a, *b)?;
                    }
                }
                let d = m.freeze();
                Ok(vec![Out::Data(d.clone()), Out::Arr(make_array(d))])
            })
        }
        "primitive.retype" => match dt {
            Int32 | Date32 | Time32(_) => {
                let to = rng.pick(&[Int32, Date32, Time32(TimeUnit::Second), Time32(TimeUnit::Millisecond)]).clone();
                p(format!("reinterpret_cast to {to}"), "reinterpret", vec![], vec![], move |x, _a, _c| {
                    macro_rules! rc {
                        ($S:ty) => {
                            match to {
                                Int32 => one(x.as_primitive::<$S>().reinterpret_cast::<Int32Type>()),
                                Date32 => one(x.as_primitive::<$S>().reinterpret_cast::<Date32Type>()),
                                Time32(TimeUnit::Second) => one(x.as_primitive::<$S>().reinterpret_cast::<Time32SecondType>()),
                                _ => one(x.as_primitive::<$S>().reinterpret_cast::<Time32MillisecondType>()),
                            }
                        };
                    }
                    match x.data_type() {
                        Int32 => rc!(Int32Type),
                        Date32 => rc!(Date32Type),
                        Time32(TimeUnit::Second) => rc!(Time32SecondType),
                        _ => rc!(Time32MillisecondType),
                    }
                })
            }
            Timestamp(u, _) => {
                let tz: Option<Arc<str>> = if rng.bool() { Some(Arc::from(*rng.pick(&gens::TZS))) } else { None };
                let u = *u;
                p(format!("with_timezone_opt({tz:?})"), "tz", vec![], vec![], move |x, _a, _c| {
                    let t = tz.clone();
                    match u {
                        TimeUnit::Second => one(x.as_primitive::<TimestampSecondType>().clone().with_timezone_opt(t)),
                        TimeUnit::Millisecond => one(x.as_primitive::<TimestampMillisecondType>().clone().with_timezone_opt(t)),
                        TimeUnit::Microsecond => one(x.as_primitive::<TimestampMicrosecondType>().clone().with_timezone_opt(t)),
                        TimeUnit::Nanosecond => one(x.as_primitive::<TimestampNanosecondType>().clone().with_timezone_opt(t)),
                    }
                })
            }
            Decimal128(_, _) => {
                let pr = 1 + rng.below(38) as u8;
                let sc = rng.below(pr as usize + 1) as i8;
                p(format!("with_precision_and_scale({pr},{sc})"), "decimal", vec![], vec![], move |x, _a, _c| one(x.as_primitive::<Decimal128Type>().clone().with_precision_and_scale(pr, sc)?))
            }
            _ => None,
        },
        "view.gc" => match dt {
            Utf8View => p(String::new(), "-", vec![], vec![], |x, _a, _c| one(x.as_string_view().gc())),
            BinaryView => p(String::new(), "-", vec![], vec![], |x, _a, _c| one(x.as_binary_view().gc())),
            _ => None,
        },
        "bytes.convert" => match dt {
            Utf8 => p("to view / binary".into(), "-", vec![], vec![], |x, _a, _c| {
                let s = x.as_string::<i32>();
                Ok(vec![Out::Arr(Arc::new(StringViewArray::from(s))), Out::Arr(Arc::new(GenericBinaryArray::<i32>::from(s.clone())))])
            }),
            LargeUtf8 => p("to view / binary".into(), "-", vec![], vec![], |x, _a, _c| {
                let s = x.as_string::<i64>();
                Ok(vec![Out::Arr(Arc::new(StringViewArray::from(s))), Out::Arr(Arc::new(GenericBinaryArray::<i64>::from(s.clone())))])
            }),
            Binary | LargeBinary => {
                let to_str = rng.bool();
                p(if to_str { "try_from_binary".into() } else { "to view".into() }, if to_str { "utf8" } else { "view" }, vec![], vec![], move |x, _a, _c| match (x.data_type(), to_str) {
                    (Binary, false) => one(BinaryViewArray::from(x.as_binary::<i32>())),
                    (Binary, true) => one(GenericStringArray::<i32>::try_from_binary(x.as_binary::<i32>().clone())?),
                    (_, false) => one(BinaryViewArray::from(x.as_binary::<i64>())),
                    (_, true) => one(GenericStringArray::<i64>::try_from_binary(x.as_binary::<i64>().clone())?),
                })
            }
            Utf8View => p("to_binary_view".into(), "-", vec![], vec![], |x, _a, _c| one(x.as_string_view().clone().to_binary_view())),
            BinaryView => p("to_string_view".into(), "-", vec![], vec![], |x, _a, _c| one(x.as_binary_view().clone().to_string_view()?)),
            _ => None,
        },
        "list.to_view" => match dt {
            List(_) => p("ListView::from(List)".into(), "-", vec![], vec![], |x, _a, _c| one(GenericListViewArray::<i32>::from(x.as_list::<i32>().clone()))),
            LargeList(_) => p("ListView::from(List)".into(), "-", vec![], vec![], |x, _a, _c| one(GenericListViewArray::<i64>::from(x.as_list::<i64>().clone()))),
            FixedSizeList(_, _) => p("List/ListView::from(FixedSizeList)".into(), "-", vec![], vec![], |x, _a, _c| {
                let f = x.as_fixed_size_list().clone();
                Ok(vec![
                    Out::Arr(Arc::new(GenericListArray::<i32>::from(f.clone()))),
                    Out::Arr(Arc::new(GenericListArray::<i64>::from(f.clone()))),
                    Out::Arr(Arc::new(GenericListViewArray::<i32>::from(f.clone()))),
                    Out::Arr(Arc::new(GenericListViewArray::<i64>::from(f))),
                ])
            }),
            _ => None,
        },
        "union_builder" => {
            if !is_few_prim(dt) || matches!(dt, Decimal128(_, _) | Timestamp(_, _)) {
                return None;
            }
            let dense = rng.bool();
            let which: Vec<u8> = (0..n).map(|_| rng.below(3) as u8).collect();
            p(format!("dense {dense}"), if dense { "dense" } else { "sparse" }, vec![], vec![], move |_x, _a, _c| {
                macro_rules! ub {
                    ($T:ty) => {{
                        type N = <$T as ArrowPrimitiveType>::Native;
                        let mut b = if dense { UnionBuilder::new_dense() } else { UnionBuilder::new_sparse() };
                        for (i, v) in valsc.iter().enumerate() {
                            match (which[i], opt_nat::<N>(v)) {
                                (0, Some(x)) => b.append::<$T>("a", x)?,
                                (0, None) => b.append_null::<$T>("a")?,
                                (1, _) => b.append::<Int32Type>("b", i as i32)?,
                                _ => b.append_null::<Float64Type>("c")?,
                            }
                        }
                        one(b.build()?)
                    }};
                }
                few_prims!(dtc, ub, (), (nyi("union builder value type")))
            })
        }
        "dict.with_values" => match dt {
            Dictionary(k, _) => {
                let k = (**k).clone();
                p("with_values(values re-sliced)".into(), "-", vec![], vec![], move |x, _a, _c| {
                    macro_rules! d {
                        ($K:ty) => {{
                            let da = x.as_dictionary::<$K>();
                            let v = da.values();
                            // same values, different physical array (round trip through ArrayData)
                            let v2 = make_array(v.to_data());
                            one(da.with_values(v2))
                        }};
                    }
                    key_dispatch!(k, d)
                })
            }
            _ => None,
        },
        "batch.try_new" => {
            let cfg = TypeCfg::all().depth(1);
            let dt2 = gens::gen_type(rng, &cfg);
            let c2 = gen_column(rng, &dt2, n, true, &cfg);
            let o = rng.below(n + 1);
            let l = rng.below(n - o + 1);
            let dt1 = dt.clone();
            p(format!("slice({o},{l}) project [1,0]"), "-", vec![(dt2.clone(), c2)], vec![], move |x, a, _c| {
                let schema = Arc::new(Schema::new(vec![Field::new("c0", dt1.clone(), true), Field::new("c1", dt2.clone(), true)]));
                let b = RecordBatch::try_new(schema, vec![x.clone(), a[0].clone()])?;
                let s = b.slice(o, l);
                let pr = s.project(&[1, 0])?;
                let st = StructArray::from(b.clone());
                let back = RecordBatch::from(&st);
                Ok(vec![Out::Batch(b), Out::Batch(s), Out::Batch(pr), Out::Arr(Arc::new(st)), Out::Batch(back)])
            })
        }
        other => panic!("model: unknown ctor op {other}"),
    }
}

#[allow(dead_code)]
fn _unused(_: UnionMode) {}
