//! C16 engine part 3: operations on uniquely owned things (mutable buffers,
//! vectors, builders: the harness writes into them and nobody else may see
//! it) and the C Data / C Stream interface.

use super::c16_h::*;
use super::c16_ops::*;
use super::c16_sup::*;
use crate::extract::extract;
use crate::mon::{guard, is_rejection_msg};
use crate::rng::Rng;
use crate::val::{Val, dump_vals};
use arrow_array::ffi::{FFI_ArrowArray, from_ffi, to_ffi};
use arrow_array::ffi_stream::{ArrowArrayStreamReader, FFI_ArrowArrayStream};
use arrow_array::*;
use arrow_buffer::{ArrowNativeType, Buffer};
use arrow_schema::{DataType, Field, Schema};
use std::sync::Arc;

impl World {
    pub(crate) fn exec_more(&mut self, op: &Op) {
        let name = op.name();
        let class = op.class();
        match *op {
            Op::MutWrite(i, seed) => {
                if !self.is_kind(i, "MutableBuffer") {
                    return;
                }
                if let H::Mut(m) = &mut self.slots[i].h {
                    Rng::new(seed).fill(m.as_slice_mut());
                }
                if sanity() == 1 {
                    // self-test: an "in-place" write that hits memory shared with another handle
                    for s in &self.slots {
                        if let H::Buf(b) = &s.h {
                            if !b.is_empty() && s.meta.roots.is_empty() && s.meta.src != "bytes-vec" {
                                unsafe { *(b.as_ptr() as *mut u8) ^= 0x5A };
                                break;
                            }
                        }
                    }
                }
                self.refresh(i);
                self.note(name, "MutableBuffer", self.slots[i].meta.src, "ok");
            }
            Op::MutGrow(i, n) => {
                if !self.is_kind(i, "MutableBuffer") {
                    return;
                }
                let extra = self.rng.bytes(n as usize);
                if let H::Mut(m) = &mut self.slots[i].h {
                    m.extend_from_slice(&extra);
                }
                self.rebirth(i);
                self.note(name, "MutableBuffer", "", "ok");
            }
            Op::MutTrunc(i, a) => {
                if !self.is_kind(i, "MutableBuffer") {
                    return;
                }
                if let H::Mut(m) = &mut self.slots[i].h {
                    let l = a as usize % (m.len() + 1);
                    m.truncate(l);
                }
                self.rebirth(i);
                self.note(name, "MutableBuffer", "", "ok");
            }
            Op::Freeze(i) => {
                if !self.is_kind(i, "MutableBuffer") {
                    return;
                }
                let s = self.take(i);
                let H::Mut(m) = s.h else { return };
                let b: Buffer = m.into();
                let k = self.put(H::Buf(b), "freeze", &[&s.meta]);
                self.same_snap(k, &s.snap, name, class, false);
                self.note(name, "MutableBuffer", s.meta.src, "ok");
            }
            Op::VecWrite(i, seed) => {
                if !self.is_kind(i, "Vec") {
                    return;
                }
                let mut r = Rng::new(seed);
                let push = r.chance(1, 3);
                if let H::Vec(v) = &mut self.slots[i].h {
                    match v {
                        V::U8(x) => {
                            r.fill(x.as_mut_slice());
                            if push {
                                x.push(r.u8());
                            }
                        }
                        V::I32(x) => {
                            x.iter_mut().for_each(|e| *e = r.u32() as i32);
                            if push {
                                x.push(r.u32() as i32);
                            }
                        }
                        V::I64(x) => {
                            x.iter_mut().for_each(|e| *e = r.u64() as i64);
                            if push {
                                x.push(r.u64() as i64);
                            }
                        }
                    }
                }
                self.rebirth(i);
                self.note(name, "Vec", "", if push { "write+push" } else { "write" });
            }
            Op::VecToBuf(i) => {
                if !self.is_kind(i, "Vec") {
                    return;
                }
                let s = self.take(i);
                let H::Vec(v) = s.h else { return };
                let b = match v {
                    V::U8(x) => Buffer::from_vec(x),
                    V::I32(x) => Buffer::from_vec(x),
                    V::I64(x) => Buffer::from_vec(x),
                };
                let k = self.put(H::Buf(b), "from_vec", &[&s.meta]);
                self.same_snap(k, &s.snap, name, class, false);
                self.note(name, "Vec", s.meta.src, "ok");
            }
            Op::BldWrite(i, seed) => {
                if i >= self.slots.len() {
                    return;
                }
                let mut r = Rng::new(seed);
                match &mut self.slots[i].h {
                    H::Bld(b) => crate::c16_with_pb!(b, x => {
                        for e in x.values_slice_mut().iter_mut() {
                            *e = ArrowNativeType::usize_as(r.below(251));
                        }
                        if let Some(v) = x.validity_slice_mut() {
                            // flip validity bits inside the builder's own bitmap
                            for e in v.iter_mut() {
                                *e ^= r.u8();
                            }
                        }
                    }),
                    H::BStr(b) => {
                        if let Some(v) = b.validity_slice_mut() {
                            for e in v.iter_mut() {
                                *e ^= r.u8();
                            }
                        }
                    }
                    _ => return,
                }
                self.rebirth(i);
                self.note(name, self.slots[i].h.kind(), "", "ok");
            }
            Op::BldAppend(i, n) => {
                if i >= self.slots.len() {
                    return;
                }
                match &mut self.slots[i].h {
                    H::Bld(b) => crate::c16_with_pb!(b, x => {
                        for q in 0..n as usize {
                            if q % 4 == 3 { x.append_null() } else { x.append_value(ArrowNativeType::usize_as(q)) }
                        }
                    }),
                    H::BStr(b) => {
                        for q in 0..n as usize {
                            if q % 4 == 3 { b.append_null() } else { b.append_value("appended") }
                        }
                    }
                    _ => return,
                }
                self.rebirth(i);
                self.note(name, self.slots[i].h.kind(), "", "ok");
            }
            Op::Finish(i) => {
                if i >= self.slots.len() || !self.slots[i].h.is_builder() {
                    return;
                }
                let s = self.take(i);
                let before = logical(&s.h);
                let kind = s.h.kind();
                let h2 = match s.h {
                    H::Bld(mut b) => H::Prim(match &mut b {
                        PB::I32(x) => P::I32(x.finish()),
                        PB::I64(x) => P::I64(x.finish()),
                        PB::U8(x) => P::U8(x.finish()),
                    }),
                    H::BStr(mut b) => H::Str(b.finish()),
                    _ => return,
                };
                let k = self.put(h2, "finish", &[&s.meta]);
                self.same_logical(k, &before, name, "finish-changed-content");
                self.note(name, kind, s.meta.src, "ok");
            }
            Op::Export(i, mv) => self.op_export(i, mv, name),
            Op::Import(i) => self.op_import(i, name),
            Op::StreamExport(i, nb) => self.op_stream_export(i, nb, name),
            Op::StreamOpen(i) => {
                if !self.is_kind(i, "FFI_ArrowArrayStream") {
                    return;
                }
                let s = self.take(i);
                let H::Stream(st) = s.h else { return };
                match ArrowArrayStreamReader::try_new(st.s) {
                    Ok(r) => {
                        self.put(H::Reader(ReaderH { r, m: st.m }), "stream_open", &[&s.meta]);
                        self.note(name, "FFI_ArrowArrayStream", s.meta.src, "ok");
                    }
                    Err(e) => {
                        let msg = e.to_string();
                        if is_rejection_msg(&msg) {
                            self.rejections += 1;
                            self.note(name, "FFI_ArrowArrayStream", s.meta.src, "rejected");
                        } else {
                            self.fault(
                                "C16|ffi|stream|open-error".to_string(),
                                format!("ArrowArrayStreamReader::try_new failed on a stream exported by arrow-rs: {msg}"),
                            );
                        }
                    }
                }
            }
            Op::ReaderNext(i) => self.op_reader_next(i, name),
            _ => {}
        }
    }

    /// The handle at `i` was changed in place by the harness (it is uniquely
    /// owned): log death + birth (addresses may have moved) and re-snapshot.
    fn rebirth(&mut self, i: usize) {
        let s = self.take(i);
        let k = self.put(s.h, s.origin, &[&s.meta]);
        self.slots[k].claimed = s.claimed;
        // keep position stable for scripted histories
        let moved = self.slots.remove(k);
        self.slots.insert(i.min(self.slots.len()), moved);
    }

    fn reject_or_fault(&mut self, name: &'static str, kind: &'static str, src: &'static str, sig: String, msg: String) {
        if is_rejection_msg(&msg) {
            self.rejections += 1;
            self.note(name, kind, src, "rejected");
        } else {
            self.fault(sig, msg);
        }
    }

    fn op_export(&mut self, i: usize, mv: bool, name: &'static str) {
        if i >= self.slots.len() {
            return;
        }
        let Some(d) = to_data(&self.slots[i].h) else { return };
        let kind = self.slots[i].h.kind();
        let m = World::holder_meta(&self.slots[i]);
        let dt = d.data_type().clone();
        let f = fam(&dt);
        let vals = match guard(|| extract(make_array(d.clone()).as_ref())) {
            Ok(v) => v,
            Err(p) => {
                self.sh.inconclusive(format!("model: extract before export panicked ({dt}): {} @ {}", p.msg, p.loc));
                return;
            }
        };
        if d.validate_full().is_err() {
            // only imports of empty arrays get here (counted as an observation at the import)
            return;
        }
        match to_ffi(&d) {
            Err(e) => {
                let msg = e.to_string();
                self.reject_or_fault(name, kind, m.src, format!("C16|ffi|export|{f}|error"), format!("to_ffi failed for {dt}: {msg}"));
            }
            Ok((arr, mut sch)) => {
                let mut boxed = Box::new(arr);
                let top = unsafe { wrap_arr(&mut *boxed as *mut FFI_ArrowArray, &self.sh, "top") };
                unsafe { wrap_sch(&mut sch as *mut _, &self.sh, "top") };
                if mv {
                    // C "move": the source struct is marked released without calling release
                    let moved = unsafe { FFI_ArrowArray::from_raw(&mut *boxed as *mut FFI_ArrowArray) };
                    boxed = Box::new(moved);
                }
                let shape = shape_of(&d);
                let mut vs = Vec::new();
                unsafe { c_views(&*boxed as *const FFI_ArrowArray, &shape, &mut vs) };
                if let Some(t) = top {
                    lock(&self.sh.exports).insert(t, vs.iter().map(|(p, l)| (*p as usize, *l)).collect());
                }
                drop(d);
                self.put(H::Ffi(FfiPair { arr: boxed, sch, top, shape, dt, vals }), "to_ffi", &[&m]);
                self.note(name, kind, f, "ok");
            }
        }
    }

    fn compare_import(&self, what: &'static str, f: &'static str, dt: &DataType, vals: &[Val], got: &arrow_data::ArrayData) {
        if got.data_type() != dt {
            self.fault(
                format!("C16|ffi|{what}|{f}|dtype-mismatch"),
                format!("exported {dt}\nimported {}", got.data_type()),
            );
            return;
        }
        if let Err(e) = got.validate_full() {
            // not asserted: validity of an *empty* imported (sub)array (arrow-rs imports the data
            // buffer of an empty variable-size array with length 0 whatever its first offset is);
            // the content cannot be read safely then, so the comparison is skipped and counted
            fn deepest_invalid(d: &arrow_data::ArrayData) -> &arrow_data::ArrayData {
                for c in d.child_data() {
                    if c.validate_full().is_err() {
                        return deepest_invalid(c);
                    }
                }
                d
            }
            if deepest_invalid(got).is_empty() {
                *lock(&self.sh.obs_invalid_empty) += 1;
            } else {
                let bad = deepest_invalid(got);
                let mut dump = String::new();
                for (bi, b) in bad.buffers().iter().enumerate() {
                    dump.push_str(&format!("\n  buffer {bi} (len {}, ptr%64 {}): {}", b.len(), b.as_ptr() as usize % 64, hex(b.as_slice())));
                }
                self.fault(
                    format!("C16|ffi|{what}|{f}|invalid-after-import"),
                    format!(
                        "type {dt}: imported data fails validate_full: {e}\nexported values: {}\ninvalid node: type {} len {} offset {} nulls {:?}{dump}",
                        dump_vals(vals),
                        bad.data_type(),
                        bad.len(),
                        bad.offset(),
                        bad.nulls().map(|n| n.null_count())
                    ),
                );
            }
            return;
        }
        match guard(|| extract(make_array(got.clone()).as_ref())) {
            Ok(v) => {
                if v.as_slice() != vals {
                    self.fault(
                        format!("C16|ffi|{what}|{f}|value-mismatch"),
                        format!("type {dt}\nexported {}\nimported {}", dump_vals(vals), dump_vals(&v)),
                    );
                }
            }
            Err(p) => self.fault(
                format!("C16|ffi|{what}|{f}|panic-on-read"),
                format!("type {dt}: reading the imported array panicked: {} @ {}", p.msg, p.loc),
            ),
        }
    }

    fn op_import(&mut self, i: usize, name: &'static str) {
        if !self.is_kind(i, "FFI_ArrowArray") {
            return;
        }
        let s = self.take(i);
        let H::Ffi(fp) = s.h else { return };
        let FfiPair { arr, sch, top, dt, vals, .. } = fp;
        let f = fam(&dt);
        let mut m = s.meta.clone();
        if let Some(t) = top {
            m.imports.push(t);
        }
        let mut vals = vals;
        if sanity() == 3 && !vals.is_empty() {
            // self-test: wrong expectation for "imported == exported"
            vals[0] = if vals[0].is_null() { Val::Bool(true) } else { Val::Null };
        }
        if sanity() == 4 {
            // self-test: the consumer forgets to release the schema
            std::mem::forget(sch);
            drop(arr);
            return;
        }
        let r = unsafe { from_ffi(*arr, &sch) };
        match r {
            Ok(data) => {
                self.compare_import("import", f, &dt, &vals, &data);
                let n = data.len();
                self.put(H::Data(data), "from_ffi", &[&m]);
                self.note(name, "FFI_ArrowArray", f, if n == 0 { "ok-empty" } else { "ok" });
            }
            Err(e) => {
                let msg = e.to_string();
                self.reject_or_fault(
                    name,
                    "FFI_ArrowArray",
                    f,
                    format!("C16|ffi|import|{f}|error"),
                    format!("from_ffi failed on an array exported by arrow-rs ({dt}): {msg}"),
                );
            }
        }
        drop(sch);
    }

    fn op_stream_export(&mut self, i: usize, nb: u8, name: &'static str) {
        if i >= self.slots.len() {
            return;
        }
        let Some(d) = to_data(&self.slots[i].h) else { return };
        let kind = self.slots[i].h.kind();
        let m = World::holder_meta(&self.slots[i]);
        let dt = d.data_type().clone();
        let f = fam(&dt);
        let arr = make_array(d.clone());
        let ncols = 1 + (self.serial as usize % 2);
        let fields: Vec<Field> = (0..ncols).map(|c| Field::new(format!("c{c}"), dt.clone(), true)).collect();
        let schema = Arc::new(Schema::new(fields));
        let nb = 1 + (nb as usize % 3);
        let len = arr.len();
        let mut batches = Vec::new();
        let mut expect = Vec::new();
        let mut held = Vec::new();
        for k in 0..nb {
            let (lo, hi) = (len * k / nb, len * (k + 1) / nb);
            let part = arr.slice(lo, hi - lo);
            let vals = match guard(|| extract(part.as_ref())) {
                Ok(v) => v,
                Err(p) => {
                    self.sh.inconclusive(format!("model: extract before stream export panicked: {}", p.msg));
                    return;
                }
            };
            let cols: Vec<ArrayRef> = (0..ncols).map(|_| part.clone()).collect();
            match RecordBatch::try_new(schema.clone(), cols) {
                Ok(b) => batches.push(Ok(b)),
                Err(e) => {
                    // the harness' own choice of schema is not accepted: not about the property
                    self.rejections += 1;
                    self.note(name, kind, f, "batch-rejected");
                    let _ = e;
                    return;
                }
            }
            expect.push(vec![vals; ncols]);
            let mut hv: Vec<(usize, usize)> = Vec::new();
            let pd = part.to_data();
            data_bufs(&pd, &mut |b: &Buffer| {
                if !b.is_empty() {
                    hv.push((b.as_ptr() as usize, b.len()));
                }
            });
            held.push(hv);
        }
        drop(arr);
        drop(d);
        let reader = RecordBatchIterator::new(batches, schema);
        let inner = FFI_ArrowArrayStream::new(Box::new(reader));
        let (s, _sid, handed) = wrap_stream(inner, &self.sh);
        let meta = StreamMeta { expect, dts: vec![dt; ncols], held, handed, next: 0 };
        self.put(H::Stream(StreamH { s, m: meta }), "stream_export", &[&m]);
        self.note(name, kind, f, "ok");
    }

    fn op_reader_next(&mut self, i: usize, name: &'static str) {
        if !self.is_kind(i, "ArrowArrayStreamReader") {
            return;
        }
        // the reader gives memory away inside `next`: it is re-registered afterwards with what it still holds
        let mut s = self.take(i);
        let meta0 = s.meta.clone();
        let (item, k, total, handed_sid, ranges, expect, dts, exhausted) = {
            let H::Reader(rh) = &mut s.h else { return };
            let item = rh.r.next();
            let k = rh.m.next;
            if item.is_some() {
                rh.m.next += 1;
            }
            let sid = lock(&rh.m.handed).get(k).copied();
            let total = rh.m.expect.len();
            (item, k, total, sid, rh.m.held.get(k).cloned(), rh.m.expect.get(k).cloned(), rh.m.dts.clone(), rh.m.next >= total)
        };
        match item {
            None => {
                if k < total {
                    self.fault(
                        "C16|ffi|stream|ended-early".to_string(),
                        format!("stream reader returned None after {k} of {total} exported batches"),
                    );
                }
                drop(s);
                self.note(name, "ArrowArrayStreamReader", meta0.src, "end");
            }
            Some(Err(e)) => {
                let msg = e.to_string();
                drop(s);
                self.reject_or_fault(
                    name,
                    "ArrowArrayStreamReader",
                    meta0.src,
                    "C16|ffi|stream|next-error".to_string(),
                    format!("stream reader failed on batch {k} of a stream exported by arrow-rs: {msg}"),
                );
            }
            Some(Ok(batch)) => {
                let mut m = meta0.clone();
                if let (Some(sid), Some(r)) = (handed_sid, ranges) {
                    lock(&self.sh.exports).insert(sid, r);
                    m.imports.push(sid);
                }
                match expect {
                    None => self.fault(
                        "C16|ffi|stream|extra-batch".to_string(),
                        format!("stream reader produced batch {k} but fewer were exported"),
                    ),
                    Some(exp) => {
                        if batch.num_columns() != exp.len() {
                            self.fault(
                                "C16|ffi|stream|column-count".to_string(),
                                format!("exported {} columns, imported {}", exp.len(), batch.num_columns()),
                            );
                        }
                        for (c, col) in batch.columns().iter().enumerate() {
                            if let (Some(ev), Some(dt)) = (exp.get(c), dts.get(c)) {
                                self.compare_import("stream", fam(dt), dt, ev, &col.to_data());
                            }
                        }
                    }
                }
                for col in batch.columns() {
                    self.put(H::Data(col.to_data()), "stream_next", &[&m]);
                }
                drop(batch);
                // once every exported batch has been handed out the reader holds no source memory
                let _ = exhausted;
                let kx = self.put(s.h, s.origin, &[&s.meta]);
                let moved = self.slots.remove(kx);
                self.slots.insert(i.min(self.slots.len()), moved);
                self.note(name, "ArrowArrayStreamReader", meta0.src, "batch");
            }
        }
    }
}
