//! C03 — selection kernels move exactly the selected rows, in order.
//!
//! Events: inputs and outputs of the arrow-select kernels and the call history
//! of a `BatchCoalescer`. Oracle: naive row-by-row definitions on `Vec<Val>`
//! (the logical model), compared through `extract`; for the coalescer an
//! online trace checker.
//!
//! Sections (all inputs are random physical realisations of a logical column)
//!   filter      filter / FilterBuilder (plain, optimize) / FilterPredicate reuse /
//!               filter_record_batch / FilterPredicate::{count, filter_nulls};
//!               predicate equal / shorter / longer than the array
//!   take        take / take_arrays / take_record_batch, 8 index types, null
//!               indices (garbage underneath), duplicates, empty, check_bounds,
//!               out-of-range indices
//!   concat      concat / concat_batches; independent inputs and slices of one
//!               array (shared dictionaries)
//!   interleave  interleave / interleave_record_batch
//!   zip         zip (array|scalar x array|scalar), ScalarZipper
//!   merge       merge (mask) and merge_n (usize / Option<usize> indices)
//!   nullif      nullif
//!   shift       window::shift, offsets around 0, +-len, i64::MIN/MAX
//!   slice       Array::slice / RecordBatch::slice (incl. slice of slice)
//!   gc          garbage_collect_dictionary / garbage_collect_any_dictionary
//!   coalesce    BatchCoalescer histories (push_batch / push_batch_with_filter /
//!               push_batch_with_indices / finish_buffered_batch /
//!               next_completed_batch) with an id column
//!
//! not asserted:
//!   * union x introduced null in take (null index) and merge_n (None): a union
//!     slot cannot encode the required null; the result must only be a valid
//!     array (any content in that row) or a failure. The same holds for a type
//!     that *contains* a union: Err / panic are accepted, an Ok result is compared.
//!   * out-of-range indices without `check_bounds`: Ok / Err / panic are all
//!     accepted (counted as `take_oob_unchecked`); with `check_bounds` the call
//!     must not return Ok.
//!   * a predicate longer than the array: only "not Ok when a selected bit lies
//!     beyond the array".
//!   * batch *sizes* of the coalescer when `biggest_coalesce_batch_size` is set
//!     (only the row sequence and conservation are checked).
//!   * dictionary key overflow (Err/panic mentioning "overflow") when the inputs'
//!     dictionaries together hold more values than an 8-bit key can address.
//!   * the physical layout of any result (only logical content, data type,
//!     length and validity of the returned array).
//!   * `Err`/panic saying "not supported / not implemented" are rejections.
//!
//! Signatures: `C03|<op>|<innermost type family>|<phenomenon>` for row mismatches
//! (the family is found by descending into the first differing row), `C03|<op>|err|<first
//! words of the message>` / `C03|<op>|panic|<file>|<first words>` for failures, and
//! `C03|<op>|zero-width|length-lost` for every whole-array symptom (wrong length, Err,
//! panic, invalid result) on a type that contains FixedSizeBinary(0) / FixedSizeList(_, 0):
//! those arrays cannot recover their length from their buffers and the symptom depends
//! only on the wrapper type. For record-batch forms the failing column is located by
//! re-running the single-array kernel per column. No values, lengths or field names.
//!
//! Oracle self-test: environment variable `VCORE_C03_SABOTAGE=<n>` breaks the
//! *model* (never arrow-rs): 1 null predicate selects, 2 null index takes row 0,
//! 3 coalescer model drops the last row of filtered pushes, 4 interleave model
//! off by one, 5 coalescer model forgets a 1-row remainder on finish.

use crate::build::{R, build, mk_bits, mk_nulls, realise};
use crate::extract::{extract, is_logical_null};
use crate::gens::{TypeCfg, gen_column, gen_primitive_type, gen_type, type_class};
use crate::mon::{Ctx, Outcome, PanicInfo, guard, is_rejection_msg, run_op};
use crate::rng::Rng;
use crate::val::{Val, dump_vals};
use crate::validate::{check_array, check_batch};
use arrow_array::cast::AsArray;
use arrow_array::{
    Array, ArrayRef, BooleanArray, Datum, RecordBatch, Scalar, downcast_dictionary_array,
};
use arrow_schema::{ArrowError, DataType, Field, Schema, SchemaRef, UnionMode};
use arrow_select::coalesce::BatchCoalescer;
use arrow_select::concat::{concat, concat_batches};
use arrow_select::dictionary::{garbage_collect_any_dictionary, garbage_collect_dictionary};
use arrow_select::filter::{FilterBuilder, filter, filter_record_batch};
use arrow_select::interleave::{interleave, interleave_record_batch};
use arrow_select::merge::{merge, merge_n};
use arrow_select::nullif::nullif;
use arrow_select::take::{TakeOptions, take, take_arrays, take_record_batch};
use arrow_select::window::shift;
use arrow_select::zip::{ScalarZipper, zip};
use std::collections::VecDeque;
use std::sync::{Arc, OnceLock};

const P: &str = "C03";

fn sabotage() -> u32 {
    static S: OnceLock<u32> = OnceLock::new();
    *S.get_or_init(|| {
        std::env::var("VCORE_C03_SABOTAGE")
            .ok()
            .and_then(|v| v.parse().ok())
            .unwrap_or(0)
    })
}

// ------------------------------------------------------------------ classes

/// coarse type family (signature / class component)
fn fam(dt: &DataType) -> &'static str {
    use DataType::*;
    match dt {
        Null => "null",
        Boolean => "bool",
        Utf8 | LargeUtf8 | Binary | LargeBinary => "bytes",
        Utf8View | BinaryView => "view",
        FixedSizeBinary(0) => "fsb0",
        FixedSizeBinary(_) => "fsb",
        List(_) | LargeList(_) => "list",
        ListView(_) | LargeListView(_) => "listview",
        FixedSizeList(_, 0) => "fsl0",
        FixedSizeList(_, _) => "fsl",
        Struct(_) => "struct",
        Map(_, _) => "map",
        Union(_, UnionMode::Sparse) => "union-sparse",
        Union(_, UnionMode::Dense) => "union-dense",
        Dictionary(_, _) => "dict",
        RunEndEncoded(_, _) => "ree",
        _ => "prim",
    }
}

fn children(dt: &DataType) -> Vec<&DataType> {
    use DataType::*;
    match dt {
        List(f) | LargeList(f) | ListView(f) | LargeListView(f) | FixedSizeList(f, _) | Map(f, _) => {
            vec![f.data_type()]
        }
        Struct(fs) => fs.iter().map(|f| f.data_type()).collect(),
        Union(ufs, _) => ufs.iter().map(|(_, f)| f.data_type()).collect(),
        Dictionary(_, v) => vec![v.as_ref()],
        RunEndEncoded(_, v) => vec![v.data_type()],
        _ => vec![],
    }
}

fn depth(dt: &DataType) -> u32 {
    match dt {
        DataType::Dictionary(_, _) | DataType::RunEndEncoded(_, _) => 0,
        _ => children(dt).iter().map(|c| 1 + depth(c)).max().unwrap_or(0),
    }
}

/// the type contains a fixed-size element of width 0 (FixedSizeBinary(0) / FixedSizeList(_, 0)):
/// the length of such an array is not recoverable from its buffers
fn zero_width(dt: &DataType) -> bool {
    matches!(dt, DataType::FixedSizeBinary(0) | DataType::FixedSizeList(_, 0)) || children(dt).iter().any(|c| zero_width(c))
}

/// family used for whole-array phenomena (length, validity, failure)
fn wfam(dt: &DataType) -> &'static str {
    if zero_width(dt) { "zero-width" } else { fam(dt) }
}

fn contains_union(dt: &DataType) -> bool {
    matches!(dt, DataType::Union(_, _)) || children(dt).iter().any(|c| contains_union(c))
}

/// evidence class of a type: exact class for flat types, family tree for nested
fn tclass(dt: &DataType) -> String {
    match dt {
        DataType::Dictionary(k, v) => format!("Dict<{k:?},{}>", fam(v)),
        DataType::RunEndEncoded(r, v) => format!("REE<{:?},{}>", r.data_type(), fam(v.data_type())),
        _ if depth(dt) == 0 => type_class(dt),
        _ => format!("{}/d{}", fam(dt), depth(dt)),
    }
}

/// key capacity of a top-level dictionary with 8-bit keys
fn small_dict_cap(dt: &DataType) -> Option<usize> {
    match dt {
        DataType::Dictionary(k, _) => match **k {
            DataType::Int8 => Some(128),
            DataType::UInt8 => Some(256),
            _ => None,
        },
        _ => None,
    }
}

fn dict_values_len(a: &dyn Array) -> usize {
    a.as_any_dictionary_opt().map(|d| d.values().len()).unwrap_or(0)
}

/// Err/panic "overflow" is legitimate iff the dictionaries together exceed the key space
fn overflow_ok(dt: &DataType, arrays: &[&ArrayRef]) -> bool {
    match small_dict_cap(dt) {
        Some(cap) => arrays.iter().map(|a| dict_values_len(a.as_ref())).sum::<usize>() > cap,
        None => false,
    }
}

/// first words of a message, letters only: the stable part of an error text
fn msg_class(m: &str) -> String {
    let mut out = String::new();
    let mut words = 0;
    let mut in_word = false;
    for c in m.chars() {
        if c.is_ascii_alphabetic() {
            out.push(c);
            in_word = true;
        } else if in_word {
            in_word = false;
            words += 1;
            if words >= 7 {
                break;
            }
            out.push(' ');
        }
    }
    out.trim_end().to_string()
}

// ------------------------------------------------------------------ inputs

#[derive(Clone)]
struct Col {
    vals: Vec<Val>,
    arr: ArrayRef,
}

/// A column of `n` rows in a random physical layout, verified to read back as the model.
fn mk_col_vals(rng: &mut Rng, dt: &DataType, vals: Vec<Val>) -> Result<Col, String> {
    let r = guard(|| {
        let arr = if rng.chance(1, 8) { build(dt, &vals) } else { realise(rng, dt, &vals) };
        let back = extract(arr.as_ref());
        (arr, back)
    });
    match r {
        Ok((arr, back)) => {
            if back != vals || arr.data_type() != dt {
                Err("harness: extract(realise(v)) != v".to_string())
            } else {
                Ok(Col { vals, arr })
            }
        }
        Err(p) => Err(format!("harness: input construction panicked: {} @ {}", p.msg, p.loc)),
    }
}

fn mk_col(rng: &mut Rng, dt: &DataType, n: usize) -> Result<Col, String> {
    let cfg = TypeCfg::all();
    let vals = match guard(|| gen_column(rng, dt, n, true, &cfg)) {
        Ok(v) => v,
        Err(p) => return Err(format!("harness: gen_column panicked: {} @ {}", p.msg, p.loc)),
    };
    mk_col_vals(rng, dt, vals)
}

fn gen_dt(rng: &mut Rng) -> DataType {
    let d = match rng.below(10) {
        0..=3 => 0,
        4..=6 => 1,
        7 | 8 => 2,
        _ => 3,
    };
    gen_type(rng, &TypeCfg::all().depth(d))
}

const LENS: [usize; 40] = [
    0, 1, 2, 3, 7, 8, 9, 15, 16, 17, 31, 32, 33, 63, 64, 65, 66, 79, 80, 81, 100, 127, 128, 129,
    130, 159, 160, 161, 191, 192, 193, 255, 256, 257, 320, 321, 511, 512, 513, 640,
];

fn len_cap(dt: &DataType) -> usize {
    match depth(dt) {
        0 => match fam(dt) {
            "prim" | "bool" | "null" | "fsb" | "fsb0" => 640,
            "dict" if small_dict_cap(dt).is_some() => 100,
            _ => 321,
        },
        1 => 130,
        2 => 66,
        _ => 33,
    }
}

fn pick_len(rng: &mut Rng, cap: usize) -> usize {
    if rng.chance(1, 4) {
        return rng.below(cap + 1);
    }
    loop {
        let l = *rng.pick(&LENS);
        if l <= cap {
            return l;
        }
    }
}

/// `parts` numbers >= `min` (when possible) summing to `total`
fn split(rng: &mut Rng, total: usize, parts: usize, min: usize) -> Vec<usize> {
    if parts == 0 {
        return vec![];
    }
    let min = if total >= parts * min { min } else { 0 };
    let rem = total - parts * min;
    let mut cuts: Vec<usize> = (0..parts - 1).map(|_| rng.below(rem + 1)).collect();
    cuts.sort();
    let mut out = Vec::with_capacity(parts);
    let mut prev = 0;
    for c in cuts {
        out.push(min + c - prev);
        prev = c;
    }
    out.push(min + rem - prev);
    out
}

/// a mask of `n` bits with exactly `k` set, random or run-structured
fn mask_with_count(rng: &mut Rng, n: usize, k: usize) -> Vec<bool> {
    let k = k.min(n);
    let mut m = vec![false; n];
    if k == 0 {
        return m;
    }
    if rng.bool() {
        let mut pos: Vec<usize> = (0..n).collect();
        rng.shuffle(&mut pos);
        for p in &pos[..k] {
            m[*p] = true;
        }
    } else {
        let r = 1 + rng.below(k.min(6));
        let runs = split(rng, k, r, 1);
        // keep the runs apart when there is room
        let inner = if n - k >= r - 1 { 1 } else { 0 };
        let mut gaps = split(rng, n - k - inner * (r - 1), r + 1, 0);
        for g in gaps.iter_mut().take(r).skip(1) {
            *g += inner;
        }
        let mut p = 0;
        for i in 0..r {
            p += gaps[i];
            for _ in 0..runs[i] {
                m[p] = true;
                p += 1;
            }
        }
    }
    m
}

fn add_mask_nulls(rng: &mut Rng, m: &[bool]) -> Vec<Option<bool>> {
    let mut out: Vec<Option<bool>> = m.iter().map(|b| Some(*b)).collect();
    match rng.below(7) {
        0 => {
            for x in out.iter_mut() {
                if *x == Some(false) && rng.bool() {
                    *x = None;
                }
            }
        }
        1 => {
            for x in out.iter_mut() {
                if rng.chance(1, 8) {
                    *x = None;
                }
            }
        }
        2 if rng.chance(1, 4) => {
            for x in out.iter_mut() {
                *x = None;
            }
        }
        _ => {}
    }
    out
}

/// mask with a selectivity at one of the strategy thresholds
fn gen_mask(rng: &mut Rng, n: usize) -> (Vec<Option<bool>>, &'static str) {
    if n == 0 {
        return (vec![], "empty");
    }
    let (k, name): (usize, &'static str) = match rng.below(12) {
        0 => (0, "none"),
        1 => (1, "one"),
        2 => ((n / 64).max(1), "1/64"),
        3 => ((n / 16 + rng.below(3)).saturating_sub(1), "1/16"),
        4 => (n / 2, "half"),
        5 | 6 => ((n * 4 / 5 + rng.below(4)).saturating_sub(1), "0.8"),
        7 => (n - 1, "all-but-one"),
        8 => (n, "all"),
        _ => (rng.below(n + 1), "rand"),
    };
    let m = mask_with_count(rng, n, k);
    (add_mask_nulls(rng, &m), name)
}

/// BooleanArray of the mask at a random bit offset; set bits under nulls
fn mk_mask(rng: &mut Rng, m: &[Option<bool>]) -> BooleanArray {
    let has_null = m.iter().any(|x| x.is_none());
    let bits: Vec<bool> = m
        .iter()
        .map(|x| match x {
            Some(b) => *b,
            None => rng.chance(3, 4),
        })
        .collect();
    let mut r = R { rng, chaos: true, depth: 0 };
    let values = mk_bits(&mut r, bits.into_iter());
    let nulls = if has_null || r.rng.chance(1, 5) {
        Some(mk_nulls(&mut r, m.iter().map(|x| x.is_some())))
    } else {
        None
    };
    BooleanArray::new(values, nulls)
}

fn dump_mask(m: &[Option<bool>]) -> String {
    let s: String = m
        .iter()
        .take(700)
        .map(|x| match x {
            Some(true) => '1',
            Some(false) => '0',
            None => 'N',
        })
        .collect();
    format!("{s}{} (len {})", if m.len() > 700 { ".." } else { "" }, m.len())
}

fn sel(x: &Option<bool>) -> bool {
    match x {
        Some(b) => *b,
        None => sabotage() == 1,
    }
}

fn batch_of(cols: &[(&DataType, &ArrayRef)]) -> Result<(SchemaRef, RecordBatch), String> {
    let fields: Vec<Field> = cols
        .iter()
        .enumerate()
        .map(|(i, (dt, _))| Field::new(format!("c{i}"), (*dt).clone(), true))
        .collect();
    let schema: SchemaRef = Arc::new(Schema::new(fields));
    match RecordBatch::try_new(schema.clone(), cols.iter().map(|(_, a)| (*a).clone()).collect()) {
        Ok(b) => Ok((schema, b)),
        Err(e) => Err(format!("harness: RecordBatch::try_new: {e}")),
    }
}

/// 0..=2 extra columns of `n` rows for the record-batch forms
fn extra_cols(rng: &mut Rng, n: usize) -> Result<Vec<(DataType, Col)>, String> {
    let k = rng.below(3);
    let mut out = Vec::new();
    for _ in 0..k {
        let dt = loop {
            let dd = rng.below(2) as u32;
            let d = gen_type(rng, &TypeCfg::all().depth(dd));
            if len_cap(&d) >= n {
                break d;
            }
        };
        let c = mk_col(rng, &dt, n)?;
        out.push((dt, c));
    }
    Ok(out)
}

// ------------------------------------------------------------------ oracle

struct Want<'a> {
    rows: &'a [Val],
    /// Err / panic accepted (listed under "not asserted")
    allow_fail: bool,
    /// dictionary key overflow is a legitimate refusal
    overflow_ok: bool,
    /// an expected null row of a top-level union column matches anything
    union_null_any: bool,
}

impl<'a> Want<'a> {
    fn rows(rows: &'a [Val]) -> Self {
        Want { rows, allow_fail: false, overflow_ok: false, union_null_any: false }
    }
}

enum Fail {
    Err(String),
    Panic(PanicInfo),
}

fn harness_panic(p: &PanicInfo) -> bool {
    p.is_model() || p.loc.starts_with("vcore/src") || p.loc.contains("/vcore/src/")
}

fn judge_fail(
    ctx: &mut Ctx,
    op: &str,
    zw: bool,
    allow_fail: bool,
    overflow_ok: bool,
    f: Fail,
    detail: &dyn Fn() -> String,
) -> &'static str {
    let msg = match &f {
        Fail::Err(m) => m.clone(),
        Fail::Panic(p) => p.msg.clone(),
    };
    if let Fail::Panic(p) = &f {
        if harness_panic(p) {
            ctx.inconclusive(&format!("harness panic in {op}: {} @ {}", p.msg, p.loc));
            return "inconclusive";
        }
    }
    if is_rejection_msg(&msg) {
        ctx.reject();
        return "rejected";
    }
    if allow_fail {
        ctx.count("not_asserted_failure", 1);
        return "fail-allowed";
    }
    let lmsg = msg.to_ascii_lowercase();
    if overflow_ok && (lmsg.contains("overflow") || lmsg.contains("key bigger than the key type")) {
        ctx.reject();
        ctx.count("dict_key_overflow", 1);
        return "rejected";
    }
    if zw {
        // one class for every way in which a zero-width element loses the array length
        let (kind, text) = match &f {
            Fail::Err(m) => ("err", m.clone()),
            Fail::Panic(p) => ("panic", format!("{} @ {}", p.msg, p.loc)),
        };
        ctx.violation(&format!("{P}|{op}|zero-width|length-lost"), format!("unexpected {kind}: {text}\n{}", detail()));
        return "violated";
    }
    match f {
        Fail::Err(m) => ctx.violation(
            &format!("{P}|{op}|err|{}", msg_class(&m)),
            format!("unexpected Err: {m}\n{}", detail()),
        ),
        Fail::Panic(p) => ctx.violation(
            &format!("{P}|{op}|panic|{}|{}", p.file(), msg_class(&p.msg)),
            format!("panic: {} @ {}\n{}", p.msg, p.loc, detail()),
        ),
    }
    "violated"
}

/// innermost type family and phenomenon of a row mismatch
fn diagnose(dt: &DataType, e: &Val, g: &Val) -> (&'static str, &'static str) {
    use DataType::*;
    let f = fam(dt);
    match (e, g) {
        (Val::Null, _) => (f, "null-became-value"),
        (_, Val::Null) => (f, "value-became-null"),
        _ if matches!(dt, Dictionary(_, _) | RunEndEncoded(_, _)) => (f, "value"),
        (Val::List(a), Val::List(b)) => {
            if a.len() != b.len() {
                return (f, "list-length");
            }
            let cs = children(dt);
            if let Some(c) = cs.first() {
                for (x, y) in a.iter().zip(b) {
                    if x != y {
                        return diagnose(c, x, y);
                    }
                }
            }
            (f, "value")
        }
        (Val::Struct(a), Val::Struct(b)) => {
            let cs = children(dt);
            if cs.len() == a.len() && a.len() == b.len() {
                for (i, (x, y)) in a.iter().zip(b).enumerate() {
                    if x != y {
                        return diagnose(cs[i], x, y);
                    }
                }
            }
            (f, "value")
        }
        (Val::Union(t1, a), Val::Union(t2, b)) => {
            if t1 != t2 {
                return (f, "type-id");
            }
            if let Union(ufs, _) = dt {
                if let Some((_, fl)) = ufs.iter().find(|(t, _)| t == t1) {
                    if a != b {
                        return diagnose(fl.data_type(), a, b);
                    }
                }
            }
            (f, "value")
        }
        _ => (f, "value"),
    }
}

fn row_ok(dt: &DataType, want: &Want, e: &Val, g: &Val) -> bool {
    if e == g {
        return true;
    }
    if matches!(dt, DataType::Union(_, _)) && e.is_null() {
        return want.union_null_any || is_logical_null(g);
    }
    false
}

/// Compare a returned array with the expected rows. Returns true if it held.
fn check_rows(
    ctx: &mut Ctx,
    op: &str,
    dt: &DataType,
    want: &Want,
    arr: &ArrayRef,
    detail: &dyn Fn() -> String,
) -> bool {
    let f = wfam(dt);
    if arr.data_type() != dt {
        ctx.violation(
            &format!("{P}|{op}|{f}|data-type-changed"),
            format!("result type {} != input type {dt}\n{}", arr.data_type(), detail()),
        );
        return false;
    }
    if arr.len() != want.rows.len() {
        ctx.violation(
            &format!("{P}|{op}|{f}|length{}", if zero_width(dt) { "-lost" } else { "" }),
            format!("result has {} rows, expected {}\n{}", arr.len(), want.rows.len(), detail()),
        );
        return false;
    }
    let got = match guard(|| extract(arr.as_ref())) {
        Ok(g) => g,
        Err(p) => {
            if harness_panic(&p) {
                // the accessors were driven by the harness: blame the result only if it is invalid
                match guard(|| check_array(arr.as_ref())) {
                    Ok(Ok(())) => ctx.inconclusive(&format!("harness panic reading result of {op}: {} @ {}", p.msg, p.loc)),
                    Ok(Err(e)) => ctx.violation(
                        &format!("{P}|{op}|{f}|{}", if zero_width(dt) { "length-lost" } else { "invalid-output" }),
                        format!("result is not a valid array (and unreadable): {e}\n{}", detail()),
                    ),
                    Err(p2) => ctx.violation(
                        &format!("{P}|{op}|{f}|invalid-output"),
                        format!("validating the result panicked: {} @ {}\n{}", p2.msg, p2.loc, detail()),
                    ),
                }
            } else {
                ctx.violation(
                    &format!("{P}|{op}|{f}|output-unreadable|{}", msg_class(&p.msg)),
                    format!("reading the result panicked: {} @ {}\n{}", p.msg, p.loc, detail()),
                );
            }
            return false;
        }
    };
    if got.len() != want.rows.len() {
        ctx.violation(
            &format!("{P}|{op}|{f}|length{}", if zero_width(dt) { "-lost" } else { "" }),
            format!("result reads as {} rows, expected {}\n{}", got.len(), want.rows.len(), detail()),
        );
        return false;
    }
    for (i, (e, g)) in want.rows.iter().zip(&got).enumerate() {
        if !row_ok(dt, want, e, g) {
            let (df, ph) = diagnose(dt, e, g);
            ctx.violation(
                &format!("{P}|{op}|{df}|{ph}"),
                format!(
                    "row {i}: expected {e:?} got {g:?}\n{}\nexpected {}\ngot      {}",
                    detail(),
                    dump_vals(want.rows),
                    dump_vals(&got)
                ),
            );
            return false;
        }
    }
    match guard(|| check_array(arr.as_ref())) {
        Ok(Ok(())) => true,
        Ok(Err(e)) => {
            ctx.violation(
                &format!("{P}|{op}|{f}|{}", if zero_width(dt) { "length-lost" } else { "invalid-output" }),
                format!("result is not a valid array: {e}\n{}", detail()),
            );
            false
        }
        Err(p) => {
            ctx.violation(
                &format!("{P}|{op}|{f}|invalid-output"),
                format!("validating the result panicked: {} @ {}\n{}", p.msg, p.loc, detail()),
            );
            false
        }
    }
}

fn judge(
    ctx: &mut Ctx,
    op: &str,
    dt: &DataType,
    want: &Want,
    out: Outcome<ArrayRef>,
    detail: &dyn Fn() -> String,
) -> &'static str {
    match out {
        Outcome::Ok(a) => {
            if check_rows(ctx, op, dt, want, &a, detail) { "ok" } else { "violated" }
        }
        Outcome::Err(m) => judge_fail(ctx, op, zero_width(dt), want.allow_fail, want.overflow_ok, Fail::Err(m), detail),
        Outcome::Panic(p) => judge_fail(ctx, op, zero_width(dt), want.allow_fail, want.overflow_ok, Fail::Panic(p), detail),
    }
}

/// record-batch form: every column against its expectation, plus batch shape
fn judge_batch(
    ctx: &mut Ctx,
    op: &str,
    schema: &SchemaRef,
    wants: &[(&DataType, Want)],
    out: Outcome<RecordBatch>,
    // the single-array kernel on column i: locates the column a batch failure comes from
    locate: Option<&dyn Fn(usize) -> Outcome<ArrayRef>>,
    detail: &dyn Fn() -> String,
) -> &'static str {
    let zw = wants.iter().any(|w| zero_width(w.0));
    let b = match split_outcome(out) {
        Ok(b) => b,
        Err(f) => {
            if let Some(loc) = locate {
                for (i, (dt, w)) in wants.iter().enumerate() {
                    if let Err(fi) = split_outcome(loc(i)) {
                        let d = || format!("record-batch form failed; the same kernel on column {i} ({dt}) alone fails\n{}", detail());
                        return judge_fail(ctx, op, zero_width(dt), w.allow_fail, w.overflow_ok, fi, &d);
                    }
                }
            }
            // every column alone is accepted: the failure is in assembling the batch
            // (a zero-width column whose length was lost no longer matches the others)
            let allow = wants.iter().any(|w| w.1.allow_fail);
            let ovf = wants.iter().any(|w| w.1.overflow_ok);
            return judge_fail(ctx, op, locate.is_some() && zw, allow, ovf, f, detail);
        }
    };
    if b.schema() != *schema || b.num_columns() != wants.len() {
        ctx.violation(
            &format!("{P}|{op}|batch|schema-changed"),
            format!("result schema {:?}\ninput schema {:?}\n{}", b.schema(), schema, detail()),
        );
        return "violated";
    }
    let rows = wants.first().map(|w| w.1.rows.len()).unwrap_or(0);
    if b.num_rows() != rows {
        ctx.violation(
            &format!("{P}|{op}|{}", if zw { "zero-width|length-lost" } else { "batch|length" }),
            format!("result batch has {} rows, expected {rows}\n{}", b.num_rows(), detail()),
        );
        return "violated";
    }
    for (i, (dt, w)) in wants.iter().enumerate() {
        let d = || format!("column {i} of the record batch\n{}", detail());
        if !check_rows(ctx, op, dt, w, b.column(i), &d) {
            return "violated";
        }
    }
    if let Ok(Err(e)) = guard(|| check_batch(&b)) {
        ctx.violation(
            &format!("{P}|{op}|batch|invalid-output"),
            format!("result batch invalid: {e}\n{}", detail()),
        );
        return "violated";
    }
    "ok"
}

macro_rules! try_input {
    ($ctx:expr, $e:expr) => {
        match $e {
            Ok(v) => v,
            Err(why) => {
                $ctx.inconclusive(&why);
                return;
            }
        }
    };
}

fn nontrivial(vals: &[Val]) -> bool {
    !vals.is_empty()
}

fn split_outcome<T>(o: Outcome<T>) -> Result<T, Fail> {
    match o {
        Outcome::Ok(v) => Ok(v),
        Outcome::Err(m) => Err(Fail::Err(m)),
        Outcome::Panic(p) => Err(Fail::Panic(p)),
    }
}

fn layout(a: &dyn Array) -> String {
    format!("offset {} nulls {}", a.offset(), a.nulls().map(|n| n.null_count() as i64).unwrap_or(-1))
}

// ------------------------------------------------------------------ filter

fn case_filter(ctx: &mut Ctx, rng: &mut Rng) {
    let dt = gen_dt(rng);
    let n = pick_len(rng, len_cap(&dt));
    let col = try_input!(ctx, mk_col(rng, &dt, n));
    let (plen, pcls) = match rng.below(16) {
        0 => (n + 1 + rng.below(3), "long"),
        1 | 2 if n > 0 => (rng.below(n), "short"),
        _ => (n, "eq"),
    };
    let (mask, selc) = gen_mask(rng, plen);
    let marr = mk_mask(rng, &mask);
    let mode = rng.below(6);
    let optimize = rng.bool();
    let extras = if mode == 3 || mode == 4 { try_input!(ctx, extra_cols(rng, n)) } else { vec![] };
    let has_null = mask.iter().any(|x| x.is_none());
    let sel_beyond = mask.iter().skip(n).any(sel);
    let keep: Vec<usize> = (0..plen.min(n)).filter(|i| sel(&mask[*i])).collect();
    let expected: Vec<Val> = keep.iter().map(|i| col.vals[*i].clone()).collect();
    let count_true = mask.iter().filter(|x| sel(x)).count();
    let detail = || {
        format!(
            "filter mode {mode} (0 filter, 1 FilterBuilder, 2 FilterBuilder.optimize, 3 filter_record_batch, 4 FilterPredicate::filter_record_batch, 5 predicate reuse) optimize={optimize}\ntype {dt}\nvalues ({}) {}\nmask ({}) {}",
            layout(col.arr.as_ref()),
            dump_vals(&col.vals),
            layout(&marr),
            dump_mask(&mask)
        )
    };
    ctx.eval();
    let want = Want::rows(&expected);
    let f = fam(&dt);
    let outcome: &'static str = if mode == 3 || mode == 4 {
        let mut cols: Vec<(&DataType, &ArrayRef)> = vec![(&dt, &col.arr)];
        for (d, c) in &extras {
            cols.push((d, &c.arr));
        }
        let (schema, batch) = try_input!(ctx, batch_of(&cols));
        let out = run_op(|| {
            if mode == 3 {
                filter_record_batch(&batch, &marr)
            } else {
                let b = FilterBuilder::new(&marr);
                let b = if optimize { b.optimize() } else { b };
                b.build().filter_record_batch(&batch)
            }
        });
        if plen > n {
            match out {
                Outcome::Ok(_) if sel_beyond => {
                    ctx.violation(
                        &format!("{P}|filter|batch|oversized-predicate-accepted"),
                        format!("predicate longer than the batch selects a row beyond its end, result Ok\n{}", detail()),
                    );
                    "violated"
                }
                _ => "long-predicate",
            }
        } else {
            let exp_extra: Vec<Vec<Val>> = extras
                .iter()
                .map(|(_, c)| keep.iter().map(|i| c.vals[*i].clone()).collect())
                .collect();
            let mut wants: Vec<(&DataType, Want)> = vec![(&dt, Want::rows(&expected))];
            for (i, (d, _)) in extras.iter().enumerate() {
                wants.push((d, Want::rows(&exp_extra[i])));
            }
            let loc = |i: usize| run_op(|| filter(batch.column(i).as_ref(), &marr));
            judge_batch(ctx, "filter", &schema, &wants, out, Some(&loc), &detail)
        }
    } else {
        let mut side: Vec<String> = Vec::new();
        let out = run_op(|| -> Result<ArrayRef, ArrowError> {
            match mode {
                0 => filter(col.arr.as_ref(), &marr),
                1 => FilterBuilder::new(&marr).build().filter(col.arr.as_ref()),
                2 => FilterBuilder::new(&marr).optimize().build().filter(col.arr.as_ref()),
                _ => {
                    let b = FilterBuilder::new(&marr);
                    let b = if optimize { b.optimize() } else { b };
                    let p = b.build();
                    if p.count() != count_true && sabotage() != 1 {
                        side.push(format!("count|FilterPredicate::count() = {} but {} bits are selected", p.count(), count_true));
                    }
                    // the same predicate applied twice must give the same rows
                    let a = p.filter(col.arr.as_ref())?;
                    let b2 = p.filter(col.arr.as_ref())?;
                    // (an unreadable result is judged below, not here)
                    if let Ok(false) = guard(|| extract(a.as_ref()) == extract(b2.as_ref())) {
                        side.push("reuse|second application of the same FilterPredicate differs".to_string());
                    }
                    Ok(a)
                }
            }
        });
        if plen > n {
            match out {
                Outcome::Ok(_) if sel_beyond => {
                    ctx.violation(
                        &format!("{P}|filter|{f}|oversized-predicate-accepted"),
                        format!("predicate longer than the array selects a row beyond its end, result Ok\n{}", detail()),
                    );
                    "violated"
                }
                _ => "long-predicate",
            }
        } else {
            let mut r = judge(ctx, "filter", &dt, &want, out, &detail);
            // FilterPredicate::filter_nulls on the physical validity of the column
            if mode == 5 && plen == n {
                if let Some(nb) = col.arr.nulls() {
                    let exp: Vec<bool> = keep.iter().map(|i| nb.is_valid(*i)).collect();
                    let exp_nulls = exp.iter().filter(|b| !**b).count();
                    let res = guard(|| {
                        let b = FilterBuilder::new(&marr);
                        let b = if optimize { b.optimize() } else { b };
                        b.build().filter_nulls(Some(nb))
                    });
                    match res {
                        Err(p) => {
                            ctx.violation(
                                &format!("{P}|filter_nulls|panic|{}|{}", p.file(), msg_class(&p.msg)),
                                format!("FilterPredicate::filter_nulls panicked: {} @ {}\n{}", p.msg, p.loc, detail()),
                            );
                            r = "violated";
                        }
                        Ok(None) => {
                            if exp_nulls > 0 {
                                side.push(format!("filter_nulls|returned None but {exp_nulls} selected rows are null"));
                            }
                        }
                        Ok(Some(rn)) => {
                            let got: Vec<bool> = (0..rn.len()).map(|i| rn.is_valid(i)).collect();
                            if got != exp {
                                side.push("filter_nulls|validity bits differ from the selected rows' validity".to_string());
                            } else if rn.null_count() != exp_nulls {
                                side.push(format!("filter_nulls|null_count {} but {exp_nulls} bits are unset", rn.null_count()));
                            } else if exp_nulls == 0 {
                                side.push("filter_nulls|returned Some although no selected row is null (documented: None)".to_string());
                            }
                        }
                    }
                }
            }
            for s in side {
                let (k, m) = s.split_once('|').unwrap_or(("side", &s));
                ctx.violation(&format!("{P}|filter|predicate|{k}"), format!("{m}\n{}", detail()));
                r = "violated";
            }
            r
        }
    };
    if nontrivial(&col.vals) && outcome != "violated" && outcome != "inconclusive" {
        ctx.class(format!("filter|{}|{selc}{}|{outcome}", tclass(&dt), if has_null { "+nulls" } else { "" }));
        ctx.class(format!("filter|{}|m{mode}|{pcls}|{selc}", fam(&dt)));
        ctx.count("filter_cases", 1);
        ctx.sample(|| detail());
    }
}

// ------------------------------------------------------------------ take

fn idx_types() -> [DataType; 8] {
    use DataType::*;
    [Int8, Int16, Int32, Int64, UInt8, UInt16, UInt32, UInt64]
}

fn idx_range(dt: &DataType) -> (i128, i128) {
    use DataType::*;
    match dt {
        Int8 => (i8::MIN as i128, i8::MAX as i128),
        Int16 => (i16::MIN as i128, i16::MAX as i128),
        Int32 => (i32::MIN as i128, i32::MAX as i128),
        Int64 => (i64::MIN as i128, i64::MAX as i128),
        UInt8 => (0, u8::MAX as i128),
        UInt16 => (0, u16::MAX as i128),
        UInt32 => (0, u32::MAX as i128),
        _ => (0, u64::MAX as i128),
    }
}

/// `m` indices into `n` rows (each <= `maxi`), with duplicates / order patterns and nulls
fn gen_indices(rng: &mut Rng, n: usize, maxi: i128, m: usize) -> Vec<Option<usize>> {
    if n == 0 || maxi < 0 {
        return vec![None; m];
    }
    let hi = ((n - 1) as i128).min(maxi) as usize;
    let mut idx: Vec<usize> = match rng.below(7) {
        0 => (0..m).map(|i| i.min(hi)).collect(),
        1 => (0..m).map(|i| hi - i.min(hi)).collect(),
        2 => {
            let c = rng.below(hi + 1);
            vec![c; m]
        }
        3 => {
            let mut v: Vec<usize> = (0..m).map(|_| rng.below(hi + 1)).collect();
            v.sort();
            v
        }
        4 => {
            // runs of consecutive indices
            let mut v = Vec::with_capacity(m);
            while v.len() < m {
                let s = rng.below(hi + 1);
                let l = 1 + rng.below(9);
                for j in 0..l {
                    if v.len() < m {
                        v.push((s + j).min(hi));
                    }
                }
            }
            v
        }
        _ => (0..m).map(|_| rng.below(hi + 1)).collect(),
    };
    if rng.chance(1, 6) {
        rng.shuffle(&mut idx);
    }
    let (nn, nd) = *rng.pick(&[(0u32, 1u32), (0, 1), (1, 8), (1, 2), (1, 1)]);
    idx.into_iter()
        .map(|i| if nn > 0 && rng.chance(nn, nd) { None } else { Some(i) })
        .collect()
}

fn take_row(vals: &[Val], i: &Option<usize>) -> Val {
    match i {
        Some(i) => vals[*i].clone(),
        None if sabotage() == 2 && !vals.is_empty() => vals[0].clone(),
        None => Val::Null,
    }
}

fn case_take(ctx: &mut Ctx, rng: &mut Rng) {
    let dt = gen_dt(rng);
    let n = pick_len(rng, len_cap(&dt));
    let col = try_input!(ctx, mk_col(rng, &dt, n));
    let idt = rng.pick(&idx_types()).clone();
    let (imin, imax) = idx_range(&idt);
    let m = pick_len(rng, (len_cap(&dt) * 2).min(330));
    let idx = gen_indices(rng, n, imax, m);
    let mut ivals: Vec<Val> = idx
        .iter()
        .map(|i| match i {
            Some(i) => Val::Int(*i as i128),
            None => Val::Null,
        })
        .collect();
    // out-of-range injection
    let mut oob: Option<i128> = None;
    if m > 0 && rng.chance(1, 7) {
        let mut cands: Vec<i128> = vec![n as i128, n as i128 + 1, n as i128 + 64, imax];
        if imin < 0 {
            cands.push(-1);
            cands.push(imin);
            cands.push(-(n as i128));
        }
        let v = *rng.pick(&cands);
        if v >= imin && v <= imax && (v < 0 || v >= n as i128) {
            let p = rng.below(m);
            ivals[p] = Val::Int(v);
            oob = Some(v);
        }
    }
    let icol = try_input!(ctx, mk_col_vals(rng, &idt, ivals));
    let mode = rng.below(5);
    let check = match rng.below(3) {
        0 => None,
        1 => Some(false),
        _ => Some(true),
    };
    let opts = check.map(|c| TakeOptions { check_bounds: c });
    let checked = check == Some(true) && mode != 4;
    let extras = if mode >= 3 { try_input!(ctx, extra_cols(rng, n)) } else { vec![] };
    let has_null_idx = idx.iter().any(|i| i.is_none());
    let expected: Vec<Val> = idx.iter().map(|i| take_row(&col.vals, i)).collect();
    let detail = || {
        format!(
            "take mode {mode} (0-2 take, 3 take_arrays, 4 take_record_batch) check_bounds={check:?} index type {idt} out-of-range index {oob:?}\ntype {dt}\nvalues ({}) {}\nindices ({}) {}",
            layout(col.arr.as_ref()),
            dump_vals(&col.vals),
            layout(icol.arr.as_ref()),
            dump_vals(&icol.vals)
        )
    };
    ctx.eval();
    let mk_want = |rows, d: &DataType| Want {
        rows,
        allow_fail: has_null_idx && contains_union(d),
        overflow_ok: false,
        union_null_any: true,
    };
    let exp_extra: Vec<Vec<Val>> = if oob.is_some() {
        vec![]
    } else {
        extras.iter().map(|(_, c)| idx.iter().map(|i| take_row(&c.vals, i)).collect()).collect()
    };
    let outcome: &'static str = if oob.is_some() {
        // only "with check_bounds the call does not return Ok" is asserted
        let ok = match mode {
            0..=2 => matches!(run_op(|| take(col.arr.as_ref(), icol.arr.as_ref(), opts.clone())), Outcome::Ok(_)),
            3 => matches!(run_op(|| take_arrays(&[col.arr.clone()], icol.arr.as_ref(), opts.clone())), Outcome::Ok(_)),
            _ => {
                let (_, batch) = try_input!(ctx, batch_of(&[(&dt, &col.arr)]));
                matches!(run_op(|| take_record_batch(&batch, icol.arr.as_ref())), Outcome::Ok(_))
            }
        };
        if checked && ok {
            ctx.violation(
                &format!("{P}|take|oob-accepted-with-check-bounds"),
                format!("an index outside [0, len) was accepted although check_bounds is set\n{}", detail()),
            );
            "violated"
        } else if checked {
            "oob-refused"
        } else {
            ctx.count(if ok { "take_oob_unchecked_ok" } else { "take_oob_unchecked_refused" }, 1);
            "oob-unchecked"
        }
    } else {
        match mode {
            0..=2 => {
                let out = run_op(|| take(col.arr.as_ref(), icol.arr.as_ref(), opts.clone()));
                judge(ctx, "take", &dt, &mk_want(&expected, &dt), out, &detail)
            }
            3 => {
                let mut arrays = vec![col.arr.clone()];
                arrays.extend(extras.iter().map(|(_, c)| c.arr.clone()));
                let out = run_op(|| take_arrays(&arrays, icol.arr.as_ref(), opts.clone()));
                let allow = has_null_idx && (contains_union(&dt) || extras.iter().any(|(d, _)| contains_union(d)));
                match split_outcome(out) {
                    Err(f) => {
                        // locate the failing array
                        let mut dts: Vec<&DataType> = vec![&dt];
                        dts.extend(extras.iter().map(|(d, _)| d));
                        let mut r = None;
                        for (i, a) in arrays.iter().enumerate() {
                            if let Err(fi) = split_outcome(run_op(|| take(a.as_ref(), icol.arr.as_ref(), opts.clone()))) {
                                r = Some(judge_fail(ctx, "take", zero_width(dts[i]), has_null_idx && contains_union(dts[i]), false, fi, &detail));
                                break;
                            }
                        }
                        match r {
                            Some(r) => r,
                            None => judge_fail(ctx, "take", false, allow, false, f, &detail),
                        }
                    }
                    Ok(v) => {
                        if v.len() != arrays.len() {
                            ctx.violation(&format!("{P}|take|batch|length"), format!("take_arrays returned {} arrays for {}\n{}", v.len(), arrays.len(), detail()));
                            "violated"
                        } else {
                            let mut r = "ok";
                            if !check_rows(ctx, "take", &dt, &mk_want(&expected, &dt), &v[0], &detail) {
                                r = "violated";
                            }
                            for (i, (d, _)) in extras.iter().enumerate() {
                                if r == "ok" && !check_rows(ctx, "take", d, &mk_want(&exp_extra[i], d), &v[i + 1], &detail) {
                                    r = "violated";
                                }
                            }
                            r
                        }
                    }
                }
            }
            _ => {
                let mut cols: Vec<(&DataType, &ArrayRef)> = vec![(&dt, &col.arr)];
                for (d, c) in &extras {
                    cols.push((d, &c.arr));
                }
                let (schema, batch) = try_input!(ctx, batch_of(&cols));
                let out = run_op(|| take_record_batch(&batch, icol.arr.as_ref()));
                let mut wants: Vec<(&DataType, Want)> = vec![(&dt, mk_want(&expected, &dt))];
                for (i, (d, _)) in extras.iter().enumerate() {
                    wants.push((d, mk_want(&exp_extra[i], d)));
                }
                let loc = |i: usize| run_op(|| take(batch.column(i).as_ref(), icol.arr.as_ref(), None));
                judge_batch(ctx, "take", &schema, &wants, out, Some(&loc), &detail)
            }
        }
    };
    if nontrivial(&col.vals) && m > 0 && outcome != "violated" && outcome != "inconclusive" {
        let cb = match check {
            None => "-",
            Some(false) => "0",
            Some(true) => "1",
        };
        let nul = if has_null_idx { "nullidx" } else { "nonull" };
        ctx.class(format!("take|{}|{nul}|{outcome}", tclass(&dt)));
        ctx.class(format!("take|{}|{idt}|m{}|cb{cb}|{nul}", fam(&dt), if mode <= 2 { 0 } else { mode }));
        ctx.count("take_cases", 1);
        ctx.sample(|| detail());
    }
}

// ------------------------------------------------------------------ concat / interleave

/// `k` columns of one type: independent realisations, or slices of one array
/// (shared dictionary / shared buffers)
fn mk_cols(rng: &mut Rng, dt: &DataType, k: usize) -> Result<(Vec<Col>, &'static str), String> {
    let cap = len_cap(dt);
    let mut out = Vec::with_capacity(k);
    if rng.chance(1, 3) {
        let n = pick_len(rng, cap);
        let base = mk_col(rng, dt, n)?;
        if rng.bool() {
            let mut o = 0;
            for l in split(rng, n, k, 0) {
                out.push(Col { vals: base.vals[o..o + l].to_vec(), arr: base.arr.slice(o, l) });
                o += l;
            }
        } else {
            for _ in 0..k {
                let o = rng.below(n + 1);
                let l = rng.below(n - o + 1);
                out.push(Col { vals: base.vals[o..o + l].to_vec(), arr: base.arr.slice(o, l) });
            }
        }
        Ok((out, "shared"))
    } else {
        let each = (cap * 2 / k.max(1)).clamp(1, cap);
        for _ in 0..k {
            let n = if rng.chance(1, 8) { 0 } else { pick_len(rng, each) };
            out.push(mk_col(rng, dt, n)?);
        }
        Ok((out, "indep"))
    }
}

fn dump_cols(cols: &[Col]) -> String {
    cols.iter()
        .enumerate()
        .map(|(i, c)| format!("  [{i}] ({}, {} rows) {}", layout(c.arr.as_ref()), c.vals.len(), dump_vals(&c.vals)))
        .collect::<Vec<_>>()
        .join("\n")
}

/// per-batch extra columns (same types in every batch) for the record-batch forms
fn extra_for(rng: &mut Rng, cols: &[Col]) -> Result<(Vec<DataType>, Vec<Vec<Col>>), String> {
    let maxn = cols.iter().map(|c| c.vals.len()).max().unwrap_or(0);
    let k = rng.below(3);
    let mut dts = Vec::new();
    for _ in 0..k {
        let d = loop {
            let dd = rng.below(2) as u32;
            let d = gen_type(rng, &TypeCfg::all().depth(dd));
            if len_cap(&d) >= maxn && small_dict_cap(&d).is_none() {
                break d;
            }
        };
        dts.push(d);
    }
    let mut per_batch = Vec::new();
    for c in cols {
        let mut v = Vec::new();
        for d in &dts {
            v.push(mk_col(rng, d, c.vals.len())?);
        }
        per_batch.push(v);
    }
    Ok((dts, per_batch))
}

fn case_concat(ctx: &mut Ctx, rng: &mut Rng) {
    let dt = gen_dt(rng);
    let k = 1 + rng.below(6);
    let (cols, share) = try_input!(ctx, mk_cols(rng, &dt, k));
    let mode = rng.below(3);
    let expected: Vec<Val> = cols.iter().flat_map(|c| c.vals.iter().cloned()).collect();
    let arrs: Vec<&ArrayRef> = cols.iter().map(|c| &c.arr).collect();
    let ovf = overflow_ok(&dt, &arrs);
    let detail = || format!("concat mode {mode} (0,1 concat, 2 concat_batches) inputs {share}\ntype {dt}\n{}", dump_cols(&cols));
    ctx.eval();
    let outcome = if mode < 2 {
        let refs: Vec<&dyn Array> = cols.iter().map(|c| c.arr.as_ref()).collect();
        let out = run_op(|| concat(&refs));
        let mut w = Want::rows(&expected);
        w.overflow_ok = ovf;
        judge(ctx, "concat", &dt, &w, out, &detail)
    } else {
        let (dts, per) = try_input!(ctx, extra_for(rng, &cols));
        let mut batches = Vec::new();
        let mut schema = None;
        for (i, c) in cols.iter().enumerate() {
            let mut cs: Vec<(&DataType, &ArrayRef)> = vec![(&dt, &c.arr)];
            for (j, d) in dts.iter().enumerate() {
                cs.push((d, &per[i][j].arr));
            }
            let (s, b) = try_input!(ctx, batch_of(&cs));
            schema = Some(s);
            batches.push(b);
        }
        let schema = schema.unwrap();
        let out = run_op(|| concat_batches(&schema, batches.iter()));
        let exp_extra: Vec<Vec<Val>> = (0..dts.len())
            .map(|j| per.iter().flat_map(|p| p[j].vals.iter().cloned()).collect())
            .collect();
        let mut w0 = Want::rows(&expected);
        w0.overflow_ok = ovf;
        let mut wants: Vec<(&DataType, Want)> = vec![(&dt, w0)];
        for (j, d) in dts.iter().enumerate() {
            wants.push((d, Want::rows(&exp_extra[j])));
        }
        let loc = |j: usize| {
            let cs: Vec<&dyn Array> = batches.iter().map(|b| b.column(j).as_ref()).collect();
            run_op(|| concat(&cs))
        };
        judge_batch(ctx, "concat", &schema, &wants, out, Some(&loc), &detail)
    };
    if nontrivial(&expected) && outcome != "violated" && outcome != "inconclusive" {
        ctx.class(format!("concat|{}|m{}|{share}|k{}|{outcome}", tclass(&dt), mode.max(1), k.min(3)));
        ctx.count("concat_cases", 1);
        ctx.sample(|| detail());
    }
}

fn gen_interleave_idx(rng: &mut Rng, cols: &[Col], m: usize) -> Vec<(usize, usize)> {
    let nonempty: Vec<usize> = (0..cols.len()).filter(|i| !cols[*i].vals.is_empty()).collect();
    if nonempty.is_empty() {
        return vec![];
    }
    let mut out = Vec::with_capacity(m);
    match rng.below(5) {
        0 => {
            // concat order (prefix)
            'o: for a in &nonempty {
                for i in 0..cols[*a].vals.len() {
                    if out.len() >= m {
                        break 'o;
                    }
                    out.push((*a, i));
                }
            }
        }
        1 => {
            let a = *rng.pick(&nonempty);
            for _ in 0..m {
                out.push((a, rng.below(cols[a].vals.len())));
            }
        }
        2 => {
            // contiguous runs
            while out.len() < m {
                let a = *rng.pick(&nonempty);
                let n = cols[a].vals.len();
                let s = rng.below(n);
                let l = 1 + rng.below(12);
                for j in 0..l {
                    if out.len() < m && s + j < n {
                        out.push((a, s + j));
                    }
                }
            }
        }
        3 => {
            // one row repeated
            let a = *rng.pick(&nonempty);
            let i = rng.below(cols[a].vals.len());
            out = vec![(a, i); m];
        }
        _ => {
            for _ in 0..m {
                let a = *rng.pick(&nonempty);
                out.push((a, rng.below(cols[a].vals.len())));
            }
        }
    }
    out
}

fn case_interleave(ctx: &mut Ctx, rng: &mut Rng) {
    let dt = gen_dt(rng);
    let k = 1 + rng.below(5);
    let (cols, share) = try_input!(ctx, mk_cols(rng, &dt, k));
    let m = pick_len(rng, (len_cap(&dt) * 2).min(330));
    let idx = gen_interleave_idx(rng, &cols, m);
    let mode = rng.below(3);
    let off = if sabotage() == 4 { 1 } else { 0 };
    let expected: Vec<Val> = idx
        .iter()
        .map(|(a, i)| cols[*a].vals[(*i + off) % cols[*a].vals.len()].clone())
        .collect();
    let arrs: Vec<&ArrayRef> = cols.iter().map(|c| &c.arr).collect();
    let ovf = overflow_ok(&dt, &arrs);
    let detail = || {
        let is: String = idx.iter().take(300).map(|(a, i)| format!("({a},{i})")).collect::<Vec<_>>().join("");
        format!("interleave mode {mode} (0,1 interleave, 2 interleave_record_batch) inputs {share}\ntype {dt}\n{}\nindices ({}) {is}", dump_cols(&cols), idx.len())
    };
    ctx.eval();
    let outcome = if mode < 2 {
        let refs: Vec<&dyn Array> = cols.iter().map(|c| c.arr.as_ref()).collect();
        let out = run_op(|| interleave(&refs, &idx));
        let mut w = Want::rows(&expected);
        w.overflow_ok = ovf;
        judge(ctx, "interleave", &dt, &w, out, &detail)
    } else {
        let (dts, per) = try_input!(ctx, extra_for(rng, &cols));
        let mut batches = Vec::new();
        let mut schema = None;
        for (i, c) in cols.iter().enumerate() {
            let mut cs: Vec<(&DataType, &ArrayRef)> = vec![(&dt, &c.arr)];
            for (j, d) in dts.iter().enumerate() {
                cs.push((d, &per[i][j].arr));
            }
            let (s, b) = try_input!(ctx, batch_of(&cs));
            schema = Some(s);
            batches.push(b);
        }
        let schema = schema.unwrap();
        let brefs: Vec<&RecordBatch> = batches.iter().collect();
        let out = run_op(|| interleave_record_batch(&brefs, &idx));
        let exp_extra: Vec<Vec<Val>> = (0..dts.len())
            .map(|j| idx.iter().map(|(a, i)| per[*a][j].vals[*i].clone()).collect())
            .collect();
        let mut w0 = Want::rows(&expected);
        w0.overflow_ok = ovf;
        let mut wants: Vec<(&DataType, Want)> = vec![(&dt, w0)];
        for (j, d) in dts.iter().enumerate() {
            wants.push((d, Want::rows(&exp_extra[j])));
        }
        let loc = |j: usize| {
            let cs: Vec<&dyn Array> = batches.iter().map(|b| b.column(j).as_ref()).collect();
            run_op(|| interleave(&cs, &idx))
        };
        judge_batch(ctx, "interleave", &schema, &wants, out, Some(&loc), &detail)
    };
    if nontrivial(&expected) && outcome != "violated" && outcome != "inconclusive" {
        ctx.class(format!("interleave|{}|m{}|{share}|k{}|{outcome}", tclass(&dt), mode.max(1), k.min(3)));
        ctx.count("interleave_cases", 1);
        ctx.sample(|| detail());
    }
}

// ------------------------------------------------------------------ zip / merge

fn case_zip(ctx: &mut Ctx, rng: &mut Rng) {
    let dt = gen_dt(rng);
    let n = pick_len(rng, len_cap(&dt));
    let (mask, selc) = gen_mask(rng, n);
    let marr = mk_mask(rng, &mask);
    let t_sc = rng.chance(1, 3);
    let f_sc = rng.chance(1, 3);
    let mismatch = !(t_sc && f_sc) && rng.chance(1, 20);
    let tn = if t_sc { 1 } else if mismatch { n + 1 + rng.below(2) } else { n };
    let fn_ = if f_sc { 1 } else if mismatch && t_sc { n + 1 } else { n };
    let t = try_input!(ctx, mk_col(rng, &dt, tn));
    let f = try_input!(ctx, mk_col(rng, &dt, fn_));
    let zipper = t_sc && f_sc && rng.bool();
    let expected: Vec<Val> = if mismatch {
        vec![]
    } else {
        (0..n)
            .map(|i| {
                let side = if sel(&mask[i]) { &t } else { &f };
                let sc = if sel(&mask[i]) { t_sc } else { f_sc };
                side.vals[if sc { 0 } else { i }].clone()
            })
            .collect()
    };
    let ovf = overflow_ok(&dt, &[&t.arr, &f.arr]);
    let detail = || {
        format!(
            "zip truthy_scalar={t_sc} falsy_scalar={f_sc} ScalarZipper={zipper} length-mismatch={mismatch}\ntype {dt}\nmask ({}) {}\ntruthy ({}) {}\nfalsy ({}) {}",
            layout(&marr),
            dump_mask(&mask),
            layout(t.arr.as_ref()),
            dump_vals(&t.vals),
            layout(f.arr.as_ref()),
            dump_vals(&f.vals)
        )
    };
    let ts = if t_sc { Some(Scalar::new(t.arr.clone())) } else { None };
    let fs = if f_sc { Some(Scalar::new(f.arr.clone())) } else { None };
    let td: &dyn Datum = match &ts {
        Some(s) => s,
        None => &t.arr,
    };
    let fd: &dyn Datum = match &fs {
        Some(s) => s,
        None => &f.arr,
    };
    ctx.eval();
    let out = run_op(|| {
        if zipper {
            let z = ScalarZipper::try_new(td, fd)?;
            let a = z.zip(&marr)?;
            let b = z.clone().zip(&marr)?;
            if a.len() != b.len() {
                return Err(ArrowError::ComputeError("ScalarZipper reuse gives a different length".into()));
            }
            Ok(a)
        } else {
            zip(&marr, td, fd)
        }
    });
    let outcome = if mismatch {
        match out {
            Outcome::Ok(_) => {
                ctx.violation(
                    &format!("{P}|zip|{}|length-mismatch-accepted", fam(&dt)),
                    format!("operands of different length accepted\n{}", detail()),
                );
                "violated"
            }
            _ => "mismatch-refused",
        }
    } else {
        let mut w = Want::rows(&expected);
        w.overflow_ok = ovf;
        judge(ctx, "zip", &dt, &w, out, &detail)
    };
    if n > 0 && outcome != "violated" && outcome != "inconclusive" {
        let sc = format!("t{}f{}{}", t_sc as u8, f_sc as u8, if zipper { "z" } else { "" });
        ctx.class(format!("zip|{}|{sc}|{outcome}", tclass(&dt)));
        ctx.class(format!("zip|{}|{sc}|{selc}", fam(&dt)));
        ctx.count("zip_cases", 1);
        ctx.sample(|| detail());
    }
}

fn case_merge(ctx: &mut Ctx, rng: &mut Rng) {
    let dt = gen_dt(rng);
    let cap = len_cap(&dt);
    if rng.bool() {
        // ---- merge(mask, truthy, falsy)
        let n = pick_len(rng, cap);
        let (mask, selc) = gen_mask(rng, n);
        let marr = mk_mask(rng, &mask);
        let nt = mask.iter().filter(|x| sel(x)).count();
        let t_sc = rng.chance(1, 4);
        let f_sc = rng.chance(1, 4);
        let extra = |rng: &mut Rng| *rng.pick(&[0usize, 0, 0, 1, 3]);
        let tn = if t_sc { 1 } else { nt + extra(rng) };
        let fn_ = if f_sc { 1 } else { n - nt + extra(rng) };
        let t = try_input!(ctx, mk_col(rng, &dt, tn));
        let f = try_input!(ctx, mk_col(rng, &dt, fn_));
        let (mut ti, mut fi) = (0, 0);
        let expected: Vec<Val> = (0..n)
            .map(|i| {
                if sel(&mask[i]) {
                    let v = t.vals[if t_sc { 0 } else { ti }].clone();
                    ti += 1;
                    v
                } else {
                    let v = f.vals[if f_sc { 0 } else { fi }].clone();
                    fi += 1;
                    v
                }
            })
            .collect();
        let ovf = overflow_ok(&dt, &[&t.arr, &f.arr]);
        let detail = || {
            format!(
                "merge truthy_scalar={t_sc} falsy_scalar={f_sc}\ntype {dt}\nmask ({}) {}\ntruthy ({}) {}\nfalsy ({}) {}",
                layout(&marr),
                dump_mask(&mask),
                layout(t.arr.as_ref()),
                dump_vals(&t.vals),
                layout(f.arr.as_ref()),
                dump_vals(&f.vals)
            )
        };
        let ts = if t_sc { Some(Scalar::new(t.arr.clone())) } else { None };
        let fs = if f_sc { Some(Scalar::new(f.arr.clone())) } else { None };
        let td: &dyn Datum = match &ts {
            Some(s) => s,
            None => &t.arr,
        };
        let fd: &dyn Datum = match &fs {
            Some(s) => s,
            None => &f.arr,
        };
        ctx.eval();
        let out = run_op(|| merge(&marr, td, fd));
        let mut w = Want::rows(&expected);
        w.overflow_ok = ovf;
        let outcome = judge(ctx, "merge", &dt, &w, out, &detail);
        if n > 0 && outcome != "violated" && outcome != "inconclusive" {
            ctx.class(format!("merge|{}|t{}f{}|{outcome}", tclass(&dt), t_sc as u8, f_sc as u8));
            ctx.class(format!("merge|{}|{selc}", fam(&dt)));
            ctx.count("merge_cases", 1);
            ctx.sample(|| detail());
        }
    } else {
        // ---- merge_n(values, indices)
        let k = 1 + rng.below(4);
        let m = pick_len(rng, cap);
        let (nn, nd) = *rng.pick(&[(0u32, 1u32), (0, 1), (1, 8), (1, 2)]);
        let mut idx: Vec<Option<usize>> = Vec::with_capacity(m);
        let runs = rng.bool();
        while idx.len() < m {
            let a = if nn > 0 && rng.chance(nn, nd) { None } else { Some(rng.below(k)) };
            let l = if runs { 1 + rng.below(10) } else { 1 };
            for _ in 0..l {
                if idx.len() < m {
                    idx.push(a);
                }
            }
        }
        let mut counts = vec![0usize; k];
        for a in idx.iter().flatten() {
            counts[*a] += 1;
        }
        let mut cols = Vec::new();
        for c in &counts {
            let extra = *rng.pick(&[0usize, 0, 0, 1, 4]);
            cols.push(try_input!(ctx, mk_col(rng, &dt, c + extra)));
        }
        let has_none = idx.iter().any(|a| a.is_none());
        let as_option = has_none || rng.bool();
        let mut pos = vec![0usize; k];
        let expected: Vec<Val> = idx
            .iter()
            .map(|a| match a {
                None => Val::Null,
                Some(a) => {
                    let v = cols[*a].vals[pos[*a]].clone();
                    pos[*a] += 1;
                    v
                }
            })
            .collect();
        let arrs: Vec<&ArrayRef> = cols.iter().map(|c| &c.arr).collect();
        let ovf = overflow_ok(&dt, &arrs);
        let detail = || {
            let is: String = idx
                .iter()
                .take(400)
                .map(|a| match a {
                    Some(a) => format!("{a}"),
                    None => "N".to_string(),
                })
                .collect::<Vec<_>>()
                .join(",");
            format!("merge_n index element type {}\ntype {dt}\n{}\nindices ({}) {is}", if as_option { "Option<usize>" } else { "usize" }, dump_cols(&cols), idx.len())
        };
        let refs: Vec<&dyn Array> = cols.iter().map(|c| c.arr.as_ref()).collect();
        ctx.eval();
        let out = run_op(|| {
            if as_option {
                merge_n(&refs, &idx)
            } else {
                let u: Vec<usize> = idx.iter().map(|a| a.unwrap()).collect();
                merge_n(&refs, &u)
            }
        });
        let w = Want {
            rows: &expected,
            allow_fail: has_none && contains_union(&dt),
            overflow_ok: ovf,
            union_null_any: true,
        };
        let outcome = judge(ctx, "merge_n", &dt, &w, out, &detail);
        if m > 0 && outcome != "violated" && outcome != "inconclusive" {
            ctx.class(format!(
                "merge_n|{}|k{k}|{}|{}|{outcome}",
                tclass(&dt),
                if as_option { "opt" } else { "usize" },
                if has_none { "holes" } else { "dense" }
            ));
            ctx.count("merge_n_cases", 1);
            ctx.sample(|| detail());
        }
    }
}

// ------------------------------------------------------------------ nullif / shift / slice / gc

fn case_nullif(ctx: &mut Ctx, rng: &mut Rng) {
    let dt = gen_dt(rng);
    let n = pick_len(rng, len_cap(&dt));
    let col = try_input!(ctx, mk_col(rng, &dt, n));
    let mismatch = rng.chance(1, 20);
    let plen = if mismatch { n + 1 } else { n };
    let (mask, selc) = gen_mask(rng, plen);
    let marr = mk_mask(rng, &mask);
    let expected: Vec<Val> = if mismatch {
        vec![]
    } else {
        (0..n).map(|i| if mask[i] == Some(true) { Val::Null } else { col.vals[i].clone() }).collect()
    };
    let detail = || {
        format!(
            "nullif length-mismatch={mismatch}\ntype {dt}\nvalues ({}) {}\nmask ({}) {}",
            layout(col.arr.as_ref()),
            dump_vals(&col.vals),
            layout(&marr),
            dump_mask(&mask)
        )
    };
    ctx.eval();
    let out = run_op(|| nullif(col.arr.as_ref(), &marr));
    let outcome = if mismatch {
        match out {
            Outcome::Ok(_) => {
                ctx.violation(
                    &format!("{P}|nullif|{}|length-mismatch-accepted", fam(&dt)),
                    format!("operands of different length accepted\n{}", detail()),
                );
                "violated"
            }
            _ => "mismatch-refused",
        }
    } else {
        // a top-level union has no validity to clear: only "valid or Err" (see not asserted)
        let mut w = Want::rows(&expected);
        w.union_null_any = true;
        judge(ctx, "nullif", &dt, &w, out, &detail)
    };
    if n > 0 && outcome != "violated" && outcome != "inconclusive" {
        ctx.class(format!("nullif|{}|{outcome}", tclass(&dt)));
        ctx.class(format!("nullif|{}|{selc}", fam(&dt)));
        ctx.count("nullif_cases", 1);
        ctx.sample(|| detail());
    }
}

fn case_shift(ctx: &mut Ctx, rng: &mut Rng) {
    let dt = gen_dt(rng);
    let n = pick_len(rng, len_cap(&dt));
    let col = try_input!(ctx, mk_col(rng, &dt, n));
    let ni = n as i64;
    let (off, ocls): (i64, &'static str) = match rng.below(12) {
        0 => (0, "0"),
        1 => (1, "+1"),
        2 => (-1, "-1"),
        3 => (ni - 1, "+n-1"),
        4 => (-(ni - 1), "-n+1"),
        5 => (ni, "+n"),
        6 => (-ni, "-n"),
        7 => (ni + 1, "+n+1"),
        8 => (*rng.pick(&[i64::MIN, i64::MAX, i64::MIN + 1]), "extreme"),
        _ => (rng.range(-ni - 2, ni + 2), "rand"),
    };
    let expected: Vec<Val> = (0..ni)
        .map(|i| {
            let src = i as i128 - off as i128;
            if src >= 0 && src < ni as i128 { col.vals[src as usize].clone() } else { Val::Null }
        })
        .collect();
    let detail = || format!("shift offset {off}\ntype {dt}\nvalues ({}) {}", layout(col.arr.as_ref()), dump_vals(&col.vals));
    ctx.eval();
    let out = run_op(|| shift(col.arr.as_ref(), off));
    let outcome = judge(ctx, "shift", &dt, &Want::rows(&expected), out, &detail);
    if n > 0 && outcome != "violated" && outcome != "inconclusive" {
        ctx.class(format!("shift|{}|{ocls}|{outcome}", tclass(&dt)));
        ctx.count("shift_cases", 1);
        ctx.sample(|| detail());
    }
}

fn case_slice(ctx: &mut Ctx, rng: &mut Rng) {
    let dt = gen_dt(rng);
    let n = pick_len(rng, len_cap(&dt));
    let col = try_input!(ctx, mk_col(rng, &dt, n));
    let pick = |rng: &mut Rng, n: usize| -> (usize, usize) {
        match rng.below(6) {
            0 => (0, n),
            1 => (n, 0),
            2 => (0, 0),
            3 if n > 0 => (1, n - 1),
            _ => {
                let o = rng.below(n + 1);
                (o, rng.below(n - o + 1))
            }
        }
    };
    let (o1, l1) = pick(rng, n);
    let (o2, l2) = pick(rng, l1);
    let twice = rng.bool();
    let batch = rng.chance(1, 3);
    let mut expected: Vec<Val> = col.vals[o1..o1 + l1].to_vec();
    if twice {
        expected = expected[o2..o2 + l2].to_vec();
    }
    let detail = || {
        format!(
            "slice({o1},{l1}){} record-batch={batch}\ntype {dt}\nvalues ({}) {}",
            if twice { format!(".slice({o2},{l2})") } else { String::new() },
            layout(col.arr.as_ref()),
            dump_vals(&col.vals)
        )
    };
    ctx.eval();
    let outcome = if batch {
        let (schema, b) = try_input!(ctx, batch_of(&[(&dt, &col.arr), (&dt, &col.arr)]));
        let out = run_op(|| -> Result<RecordBatch, ArrowError> {
            let s = b.slice(o1, l1);
            Ok(if twice { s.slice(o2, l2) } else { s })
        });
        let wants = vec![(&dt, Want::rows(&expected)), (&dt, Want::rows(&expected))];
        judge_batch(ctx, "slice", &schema, &wants, out, None, &detail)
    } else {
        let out = run_op(|| -> Result<ArrayRef, ArrowError> {
            let s = col.arr.slice(o1, l1);
            Ok(if twice { s.slice(o2, l2) } else { s })
        });
        judge(ctx, "slice", &dt, &Want::rows(&expected), out, &detail)
    };
    if nontrivial(&expected) && outcome != "violated" && outcome != "inconclusive" {
        ctx.class(format!("slice|{}|{}{}|{outcome}", tclass(&dt), if twice { "2" } else { "1" }, if batch { "b" } else { "" }));
        ctx.count("slice_cases", 1);
        ctx.sample(|| detail());
    }
}

fn case_gc(ctx: &mut Ctx, rng: &mut Rng) {
    let key = rng.pick(&idx_types()).clone();
    let mut cfg = TypeCfg::flat();
    cfg.null_type = false;
    let vt = gen_primitive_type(rng, &cfg);
    let dt = DataType::Dictionary(Box::new(key), Box::new(vt));
    let n = pick_len(rng, len_cap(&dt));
    let col = try_input!(ctx, mk_col(rng, &dt, n));
    let typed = rng.bool();
    let before = dict_values_len(col.arr.as_ref());
    let detail = || format!("garbage_collect_{}dictionary\ntype {dt}\nvalues ({}, dictionary of {before}) {}", if typed { "" } else { "any_" }, layout(col.arr.as_ref()), dump_vals(&col.vals));
    ctx.eval();
    let out = run_op(|| -> Result<ArrayRef, ArrowError> {
        if typed {
            let a: &dyn Array = col.arr.as_ref();
            downcast_dictionary_array!(
                a => garbage_collect_dictionary(a).map(|d| Arc::new(d) as ArrayRef),
                _ => Err(ArrowError::ComputeError("model: not a dictionary".into()))
            )
        } else {
            garbage_collect_any_dictionary(col.arr.as_any_dictionary())
        }
    });
    let mut unref = None;
    if let Outcome::Ok(a) = &out {
        if let Some(d) = a.as_any_dictionary_opt() {
            let nv = d.values().len();
            let mut used = vec![false; nv];
            if let Ok(keys) = guard(|| extract(d.keys())) {
                for kv in keys {
                    if let Val::Int(i) = kv {
                        if i >= 0 && (i as usize) < nv {
                            used[i as usize] = true;
                        }
                    }
                }
                let c = used.iter().filter(|u| !**u).count();
                if c > 0 {
                    unref = Some((c, nv));
                }
            }
        }
    }
    let mut outcome = judge(ctx, "gc", &dt, &Want::rows(&col.vals), out, &detail);
    if let (Some((c, nv)), "ok") = (unref, outcome) {
        ctx.violation(
            &format!("{P}|gc|dict|unreferenced-values-kept"),
            format!("{c} of {nv} dictionary values of the result are not referenced by any valid key\n{}", detail()),
        );
        outcome = "violated";
    }
    if n > 0 && outcome != "violated" && outcome != "inconclusive" {
        ctx.class(format!("gc|{}|{}|{outcome}", tclass(&dt), if typed { "typed" } else { "any" }));
        ctx.count("gc_cases", 1);
        ctx.sample(|| detail());
    }
}

// ------------------------------------------------------------------ coalescer

fn co_type(rng: &mut Rng) -> DataType {
    loop {
        let d = match rng.below(10) {
            0..=2 => gen_primitive_type(rng, &TypeCfg::flat()),
            3 => DataType::Utf8View,
            4 => DataType::BinaryView,
            5 => DataType::Utf8,
            6 | 7 => gen_type(rng, &TypeCfg::all().depth(0)),
            8 => gen_type(rng, &TypeCfg::all().depth(1)),
            _ => gen_type(rng, &TypeCfg::all().depth(2)),
        };
        if small_dict_cap(&d).is_none() {
            return d;
        }
    }
}

/// Model of the coalescer and trace checker state.
struct CoModel {
    dts: Vec<DataType>,
    id_col: usize,
    target: usize,
    limit: Option<usize>,
    /// every selected pushed row, per column, in push order
    stream: Vec<Vec<Val>>,
    /// rows already emitted (and verified)
    emitted: usize,
    buffered: usize,
    /// expected sizes of the completed-but-not-yet-fetched batches (no limit only)
    queue: VecDeque<usize>,
    log: Vec<String>,
}

impl CoModel {
    fn pushed(&self) -> usize {
        self.stream[0].len()
    }
    fn push_rows(&mut self, rows: &[Vec<Val>]) {
        // rows: per column
        let m = rows[0].len();
        for (c, r) in rows.iter().enumerate() {
            self.stream[c].extend(r.iter().cloned());
        }
        let total = self.buffered + m;
        for _ in 0..total / self.target {
            self.queue.push_back(self.target);
        }
        self.buffered = total % self.target;
    }
    fn finish(&mut self) {
        if self.buffered > 0 && !(sabotage() == 5 && self.buffered == 1) {
            self.queue.push_back(self.buffered);
            self.buffered = 0;
        }
    }
}

fn co_violation(ctx: &mut Ctx, m: &CoModel, kind: &str, what: String) {
    let hist = m.log.join("\n  ");
    ctx.violation(
        &format!("{P}|coalesce|{kind}"),
        format!(
            "{what}\ntarget_batch_size {} biggest_coalesce_batch_size {:?} schema {:?} (id column {})\nhistory:\n  {hist}",
            m.target, m.limit, m.dts, m.id_col
        ),
    );
}

/// verify one emitted batch against the model stream; false = violation reported
fn co_check_batch(ctx: &mut Ctx, m: &mut CoModel, schema: &SchemaRef, b: &RecordBatch, size: Option<usize>) -> bool {
    if b.schema() != *schema {
        co_violation(ctx, m, "batch|schema-changed", format!("emitted batch has schema {:?}", b.schema()));
        return false;
    }
    let rows = b.num_rows();
    if let Some(s) = size {
        if rows != s {
            co_violation(ctx, m, "batch|batch-size", format!("emitted batch has {rows} rows, the model expects {s} (target except for the remainder of an explicit finish)"));
            return false;
        }
    }
    if m.emitted + rows > m.pushed() {
        co_violation(ctx, m, "batch|more-rows-than-pushed", format!("emitted {} + {rows} rows but only {} were pushed", m.emitted, m.pushed()));
        return false;
    }
    let mut got: Vec<Vec<Val>> = Vec::new();
    for c in 0..m.dts.len() {
        match guard(|| extract(b.column(c).as_ref())) {
            Ok(v) => got.push(v),
            Err(p) => {
                co_violation(ctx, m, &format!("{}|output-unreadable|{}", fam(&m.dts[c]), msg_class(&p.msg)), format!("reading column {c} of an emitted batch panicked: {} @ {}", p.msg, p.loc));
                return false;
            }
        }
    }
    let (lo, hi) = (m.emitted, m.emitted + rows);
    // the id column first: loss / duplication / order
    let idc = m.id_col;
    if got[idc][..] != m.stream[idc][lo..hi] {
        let mut a = got[idc].clone();
        let mut e = m.stream[idc][lo..hi].to_vec();
        a.sort();
        e.sort();
        let kind = if a == e { "batch|id-order" } else { "batch|id-set" };
        co_violation(
            ctx,
            m,
            kind,
            format!(
                "rows {lo}..{hi} of the output: ids differ from the pushed selected rows\nexpected {}\ngot      {}",
                dump_vals(&m.stream[idc][lo..hi]),
                dump_vals(&got[idc])
            ),
        );
        return false;
    }
    for c in 0..m.dts.len() {
        if got[c].len() != rows {
            co_violation(ctx, m, &format!("{}|length{}", wfam(&m.dts[c]), if zero_width(&m.dts[c]) { "-lost" } else { "" }), format!("column {c} ({}) of an emitted batch of {rows} rows has {} rows", m.dts[c], got[c].len()));
            return false;
        }
    }
    for c in 0..m.dts.len() {
        for (i, (e, g)) in m.stream[c][lo..hi].iter().zip(&got[c]).enumerate() {
            let ok = e == g || (matches!(m.dts[c], DataType::Union(_, _)) && e.is_null());
            if !ok {
                let (df, ph) = diagnose(&m.dts[c], e, g);
                co_violation(
                    ctx,
                    m,
                    &format!("{df}|{ph}"),
                    format!("output row {} column {c} ({}): expected {e:?} got {g:?} (ids agree)", lo + i, m.dts[c]),
                );
                return false;
            }
        }
    }
    match guard(|| check_batch(b)) {
        Ok(Ok(())) => {}
        Ok(Err(e)) => {
            co_violation(ctx, m, "batch|invalid-output", format!("emitted batch is invalid: {e}"));
            return false;
        }
        Err(p) => {
            co_violation(ctx, m, "batch|invalid-output", format!("validating an emitted batch panicked: {} @ {}", p.msg, p.loc));
            return false;
        }
    }
    m.emitted = hi;
    true
}

fn case_coalesce(ctx: &mut Ctx, rng: &mut Rng) {
    // ---- schema
    let id_dt = rng.pick(&[DataType::UInt64, DataType::Int64, DataType::Int32, DataType::UInt32]).clone();
    let n_extra = *rng.pick(&[0usize, 1, 1, 2, 2, 3]);
    let mut dts: Vec<DataType> = (0..n_extra).map(|_| co_type(rng)).collect();
    let id_col = rng.below(dts.len() + 1);
    dts.insert(id_col, id_dt.clone());
    let any_union = dts.iter().any(contains_union);
    let max_depth = dts.iter().map(depth).max().unwrap_or(0);
    let fields: Vec<Field> = dts.iter().enumerate().map(|(i, d)| Field::new(format!("c{i}"), d.clone(), true)).collect();
    let schema: SchemaRef = Arc::new(Schema::new(fields));
    let target = match rng.below(4) {
        0 => *rng.pick(&[1usize, 2, 3, 7, 8, 9, 16, 17, 63, 64, 65, 100, 128, 255, 256, 300]),
        1 => 1 + rng.below(20),
        _ => 1 + rng.below(300),
    };
    let limit = if rng.chance(1, 5) { Some(rng.below(2 * target + 2)) } else { None };
    let max_n = match max_depth {
        0 => 700,
        1 => 160,
        _ => 70,
    };
    let mut budget: usize = match max_depth {
        0 => 4000,
        1 => 1200,
        _ => 500,
    };
    let ncalls = 1 + rng.below(40);
    let mut m = CoModel {
        dts: dts.clone(),
        id_col,
        target,
        limit,
        stream: vec![Vec::new(); dts.len()],
        emitted: 0,
        buffered: 0,
        queue: VecDeque::new(),
        log: Vec::new(),
    };
    let mut co = match guard(|| BatchCoalescer::new(schema.clone(), target).with_biggest_coalesce_batch_size(limit)) {
        Ok(c) => c,
        Err(p) => {
            co_violation(ctx, &m, &format!("panic|{}|{}", p.file(), msg_class(&p.msg)), format!("BatchCoalescer::new panicked: {} @ {}", p.msg, p.loc));
            return;
        }
    };
    ctx.eval();
    let mut next_id: u64 = 0;
    let mut ops_seen = 0u32;
    let mut emitted_batches = 0u64;
    let mut ok = true;
    // one extra pseudo-call at the end: finish + drain
    'calls: for call in 0..=ncalls {
        let last = call == ncalls;
        let op = if last { 3 } else { *rng.pick(&[0usize, 0, 0, 1, 1, 1, 2, 2, 3, 4, 4]) };
        ops_seen |= 1 << op;
        let before_buffered = m.buffered;
        match op {
            0 | 1 | 2 => {
                // ---- a batch of n rows
                let room = m.target - m.buffered;
                let n = match rng.below(10) {
                    0 => 0,
                    1 => 1,
                    2 => room.saturating_sub(1),
                    3 => room,
                    4 => room + 1,
                    5 => m.target * (1 + rng.below(3)) + rng.below(3),
                    6 => room + m.target,
                    _ => rng.below(max_n + 1),
                }
                .min(max_n)
                .min(budget);
                budget -= n;
                let mut cols: Vec<Col> = Vec::new();
                for (c, d) in dts.iter().enumerate() {
                    let r = if c == id_col {
                        let v: Vec<Val> = (0..n).map(|i| Val::Int((next_id + i as u64) as i128)).collect();
                        mk_col_vals(rng, d, v)
                    } else {
                        mk_col(rng, d, n)
                    };
                    cols.push(try_input!(ctx, r));
                }
                next_id += n as u64;
                let batch = match RecordBatch::try_new(schema.clone(), cols.iter().map(|c| c.arr.clone()).collect()) {
                    Ok(b) => b,
                    Err(e) => {
                        ctx.inconclusive(&format!("harness: RecordBatch::try_new: {e}"));
                        return;
                    }
                };
                // ---- selection
                let (sel_rows, expect_err, desc, res): (Vec<Option<usize>>, bool, String, Outcome<()>) = match op {
                    0 => {
                        let r = run_op(|| co.push_batch(batch));
                        ((0..n).map(Some).collect(), false, format!("push_batch({n} rows)"), r)
                    }
                    1 => {
                        let plen = match rng.below(14) {
                            0 => n + 1 + rng.below(2),
                            1 if n > 0 => rng.below(n),
                            _ => n,
                        };
                        let k = match rng.below(12) {
                            0 => 0,
                            1 => 1,
                            2 | 3 => (plen / 16 + rng.below(3)).saturating_sub(1),
                            4 => room.saturating_sub(1),
                            5 => room,
                            6 => room + 1,
                            7 => plen.saturating_sub(1),
                            8 => plen,
                            9 => (plen * 4 / 5 + rng.below(3)).saturating_sub(1),
                            _ => rng.below(plen + 1),
                        };
                        let bits = mask_with_count(rng, plen, k);
                        let mask = add_mask_nulls(rng, &bits);
                        let marr = mk_mask(rng, &mask);
                        let r = run_op(|| co.push_batch_with_filter(batch, &marr));
                        let mut rows: Vec<Option<usize>> = (0..plen.min(n)).filter(|i| mask[*i] == Some(true)).map(Some).collect();
                        if sabotage() == 3 {
                            rows.pop();
                        }
                        (rows, plen > n, format!("push_batch_with_filter({n} rows, mask({}) {})", layout(&marr), dump_mask(&mask)), r)
                    }
                    _ => {
                        let idt = rng.pick(&idx_types()).clone();
                        let (_, imax) = idx_range(&idt);
                        let mi = rng.below(2 * n + 2).min(budget.max(1));
                        let mut idx = gen_indices(rng, n, imax, mi);
                        if any_union || !rng.chance(1, 5) {
                            // null indices only sometimes, and never with union columns
                            if n == 0 {
                                idx.clear();
                            } else {
                                let hi = ((n - 1) as i128).min(imax) as usize;
                                for x in idx.iter_mut() {
                                    if x.is_none() {
                                        *x = Some(rng.below(hi + 1));
                                    }
                                }
                            }
                        }
                        budget = budget.saturating_sub(idx.len());
                        let ivals: Vec<Val> = idx
                            .iter()
                            .map(|i| match i {
                                Some(i) => Val::Int(*i as i128),
                                None => Val::Null,
                            })
                            .collect();
                        let icol = try_input!(ctx, mk_col_vals(rng, &idt, ivals));
                        let r = run_op(|| co.push_batch_with_indices(batch, icol.arr.as_ref()));
                        (idx, false, format!("push_batch_with_indices({n} rows, {idt} indices ({}) {})", layout(icol.arr.as_ref()), dump_vals(&icol.vals)), r)
                    }
                };
                m.log.push(format!("{desc} [ids from {}]", next_id - n as u64));
                match res {
                    Outcome::Ok(()) => {
                        if expect_err {
                            co_violation(ctx, &m, "batch|oversized-predicate-accepted", "a filter longer than the batch was accepted".to_string());
                            ok = false;
                            break 'calls;
                        }
                        let rows: Vec<Vec<Val>> = cols
                            .iter()
                            .map(|c| {
                                sel_rows
                                    .iter()
                                    .map(|i| match i {
                                        Some(i) => c.vals[*i].clone(),
                                        None => Val::Null,
                                    })
                                    .collect()
                            })
                            .collect();
                        m.push_rows(&rows);
                    }
                    Outcome::Err(_) | Outcome::Panic(_) if expect_err => {
                        // refused: nothing may have changed
                        m.log.push("  -> refused (filter longer than batch)".to_string());
                    }
                    other => {
                        let f = match split_outcome(other) {
                            Err(f) => f,
                            Ok(()) => unreachable!(),
                        };
                        let hist = m.log.join("\n  ");
                        let d = || format!("target {} limit {:?} schema {:?}\nhistory:\n  {hist}", m.target, m.limit, m.dts);
                        judge_fail(ctx, "coalesce", m.dts.iter().any(zero_width), false, false, f, &d);
                        ok = false;
                        break 'calls;
                    }
                }
            }
            3 => {
                m.log.push("finish_buffered_batch()".to_string());
                match run_op(|| co.finish_buffered_batch()) {
                    Outcome::Ok(()) => m.finish(),
                    other => {
                        let f = match split_outcome(other) {
                            Err(f) => f,
                            Ok(()) => unreachable!(),
                        };
                        let hist = m.log.join("\n  ");
                        let d = || format!("target {} limit {:?} schema {:?}\nhistory:\n  {hist}", m.target, m.limit, m.dts);
                        judge_fail(ctx, "coalesce", m.dts.iter().any(zero_width), false, false, f, &d);
                        ok = false;
                        break 'calls;
                    }
                }
            }
            _ => {
                if m.limit.is_none() {
                    m.log.push("next_completed_batch()".to_string());
                    let got = co.next_completed_batch();
                    match (got, m.queue.pop_front()) {
                        (None, None) => {}
                        (Some(b), Some(sz)) => {
                            emitted_batches += 1;
                            if !co_check_batch(ctx, &mut m, &schema, &b, Some(sz)) {
                                ok = false;
                                break 'calls;
                            }
                        }
                        (Some(b), None) => {
                            co_violation(ctx, &m, "batch|unexpected-batch", format!("next_completed_batch returned {} rows, the model has no completed batch", b.num_rows()));
                            ok = false;
                            break 'calls;
                        }
                        (None, Some(sz)) => {
                            co_violation(ctx, &m, "batch|missing-batch", format!("next_completed_batch returned None, the model expects a batch of {sz} rows"));
                            ok = false;
                            break 'calls;
                        }
                    }
                }
            }
        }
        // ---- invariants after every call
        if m.limit.is_none() {
            let b = co.get_buffered_rows();
            if b != m.buffered {
                co_violation(ctx, &m, "batch|buffered-count", format!("get_buffered_rows() = {b}, model = {} (was {before_buffered} before the call)", m.buffered));
                ok = false;
                break 'calls;
            }
            if co.has_completed_batch() == m.queue.is_empty() || co.is_empty() != (m.buffered == 0 && m.queue.is_empty()) {
                co_violation(
                    ctx,
                    &m,
                    "batch|completed-state",
                    format!("has_completed_batch() = {}, is_empty() = {}; model has {} completed batches and {} buffered rows", co.has_completed_batch(), co.is_empty(), m.queue.len(), m.buffered),
                );
                ok = false;
                break 'calls;
            }
            if last {
                while let Some(sz) = m.queue.pop_front() {
                    match co.next_completed_batch() {
                        Some(b) => {
                            emitted_batches += 1;
                            if !co_check_batch(ctx, &mut m, &schema, &b, Some(sz)) {
                                ok = false;
                                break 'calls;
                            }
                        }
                        None => {
                            co_violation(ctx, &m, "batch|missing-batch", format!("next_completed_batch returned None, the model expects a batch of {sz} rows"));
                            ok = false;
                            break 'calls;
                        }
                    }
                }
                if let Some(b) = co.next_completed_batch() {
                    co_violation(ctx, &m, "batch|unexpected-batch", format!("a batch of {} rows remains after the model's output is exhausted", b.num_rows()));
                    ok = false;
                    break 'calls;
                }
            }
        } else {
            // bypass limit configured: only the row sequence and conservation
            while let Some(b) = co.next_completed_batch() {
                emitted_batches += 1;
                if !co_check_batch(ctx, &mut m, &schema, &b, None) {
                    ok = false;
                    break 'calls;
                }
            }
            let held = co.get_buffered_rows();
            if m.emitted + held != m.pushed() {
                co_violation(ctx, &m, "batch|conservation", format!("pushed {} selected rows, emitted {} and {held} buffered", m.pushed(), m.emitted));
                ok = false;
                break 'calls;
            }
        }
        if last && m.emitted != m.pushed() {
            co_violation(ctx, &m, "batch|rows-missing-at-end", format!("after the final finish {} of {} pushed rows were emitted", m.emitted, m.pushed()));
            ok = false;
        }
    }
    if ok && m.pushed() > 0 {
        let mut fams: Vec<&str> = dts.iter().enumerate().filter(|(i, _)| *i != id_col).map(|(_, d)| fam(d)).collect();
        fams.sort();
        fams.dedup();
        let tcls = match target {
            1 => "1",
            2..=16 => "small",
            17..=128 => "mid",
            _ => "large",
        };
        ctx.class(format!("coalesce|{}|t:{tcls}|limit:{}", fams.join("+"), limit.is_some()));
        ctx.class(format!("coalesce|t:{tcls}|limit:{}|ops:{ops_seen:05b}", limit.is_some()));
        ctx.count("coalesce_histories", 1);
        ctx.count("coalesce_calls", ncalls as u64 + 1);
        ctx.count("coalesce_rows_pushed", m.pushed() as u64);
        ctx.count("coalesce_batches_emitted", emitted_batches);
        ctx.sample(|| format!("coalesce target {target} limit {limit:?} schema {dts:?}\n  {}", m.log.join("\n  ")));
    }
}

// ------------------------------------------------------------------ driver

type CaseFn = fn(&mut Ctx, &mut Rng);

pub fn run(ctx: &mut Ctx) {
    let t = ctx.tier;
    // (section, case function, total cases over all shards)
    let sections: [(&str, CaseFn, u64); 11] = [
        ("filter", case_filter, t.pick(24, 300_000, 3_600_000)),
        ("take", case_take, t.pick(24, 255_000, 3_060_000)),
        ("concat", case_concat, t.pick(12, 108_000, 1_296_000)),
        ("interleave", case_interleave, t.pick(12, 108_000, 1_296_000)),
        ("zip", case_zip, t.pick(12, 90_000, 1_080_000)),
        ("merge", case_merge, t.pick(12, 90_000, 1_080_000)),
        ("nullif", case_nullif, t.pick(8, 45_000, 540_000)),
        ("shift", case_shift, t.pick(8, 45_000, 540_000)),
        ("slice", case_slice, t.pick(8, 30_000, 360_000)),
        ("gc", case_gc, t.pick(8, 30_000, 360_000)),
        ("coalesce", case_coalesce, t.pick(8, 18_000, 216_000)),
    ];
    // sections advance in lock step so that a deadline cuts all of them alike
    let rounds: usize = if ctx.only_case.is_some() { 1 } else { t.pick(1, 40, 400) };
    let plans: Vec<Vec<u64>> = sections.iter().map(|(name, _, total)| ctx.cases(name, *total)).collect();
    let mut complete = true;
    'outer: for r in 0..rounds {
        for (si, (name, f, _)) in sections.iter().enumerate() {
            let idxs = &plans[si];
            let lo = idxs.len() * r / rounds;
            let hi = idxs.len() * (r + 1) / rounds;
            let t0 = std::time::Instant::now();
            for i in &idxs[lo..hi] {
                if ctx.out_of_time() {
                    complete = false;
                    ctx.count(&format!("ms_{name}"), t0.elapsed().as_millis() as u64);
                    break 'outer;
                }
                let mut rng = ctx.begin(name, *i);
                if let Err(p) = guard(|| f(ctx, &mut rng)) {
                    ctx.inconclusive(&format!("harness panic outside the monitored call: {} @ {}", p.msg, p.loc));
                }
            }
            // evidence only (never a verdict): where the time goes
            ctx.count(&format!("ms_{name}"), t0.elapsed().as_millis() as u64);
        }
    }
    ctx.count("completed_all_sections", complete as u64);
}


// ------------------------------------------------------------------ minimal reproducers

/// `vcore-run C03REPRO`: the minimal reproducers of the findings on the unchanged
/// tree, each printed with the observed outcome (stderr). Not part of the check.
pub fn repro(ctx: &mut Ctx) {
    use arrow_array::types::Int32Type;
    use arrow_array::*;
    use arrow_buffer::{Buffer, NullBuffer, ScalarBuffer};
    let show = |name: &str, r: Outcome<ArrayRef>| match r {
        Outcome::Ok(a) => eprintln!("{name}: Ok len {} -> {}", a.len(), guard(|| dump_vals(&extract(a.as_ref()))).unwrap_or_else(|p| format!("<unreadable: {}>", p.msg))),
        Outcome::Err(e) => eprintln!("{name}: Err {e}"),
        Outcome::Panic(p) => eprintln!("{name}: panic {} @ {}", p.msg, p.loc),
    };
    let ree = RunArray::<Int32Type>::try_new(&Int32Array::from(vec![2, 4]), &Int32Array::from(vec![10, 20])).unwrap();
    // D1 take on a run-end encoded array ignores null indices
    let idx = UInt32Array::from(vec![Some(0), None, Some(3)]);
    show("D1a take(REE[10,10,20,20], [0,NULL,3]) (want [10,NULL,20])", run_op(|| take(&ree, &idx, None)));
    let idx = UInt32Array::new(ScalarBuffer::from(vec![0u32, 999, 3]), Some(NullBuffer::from(vec![true, false, true])));
    show("D1b same, 999 stored under the null index (want [10,NULL,20])", run_op(|| take(&ree, &idx, None)));
    // D2 concat of empty run-end encoded arrays
    let e = ree.slice(0, 0);
    show("D2 concat([REE len 0, REE len 0]) (want empty array)", run_op(|| concat(&[&e, &e])));
    // D3 interleave of FixedSizeList(_, 0) loses the length
    let f = Arc::new(Field::new("item", DataType::Int32, true));
    let fsl0 = FixedSizeListArray::try_new_with_length(f, 0, Arc::new(Int32Array::from(Vec::<i32>::new())), None, 3).unwrap();
    show("D3 interleave([FSL0 len 3], [(0,0),(0,2)]) (want 2 rows)", run_op(|| interleave(&[&fsl0], &[(0, 0), (0, 2)])));
    // D5 filter of FixedSizeBinary(0) loses the length
    let fsb0 = FixedSizeBinaryArray::try_new_with_len(0, Buffer::from_vec(Vec::<u8>::new()), None, 3).unwrap();
    show("D5 filter(FSB0 len 3, [1,0,1]) (want 2 rows)", run_op(|| filter(&fsb0, &BooleanArray::from(vec![true, false, true]))));
    // D4 nullif on a run-end encoded array leaves the rows unchanged
    show("D4 nullif(REE[10,10,20,20], [1,0,0,1]) (want [NULL,10,20,NULL])", run_op(|| nullif(&ree, &BooleanArray::from(vec![true, false, false, true]))));
    // D6 ScalarZipper on views corrupts inline values
    // (the falsy scalar is an inline value of an array that also owns a data buffer)
    let t = Scalar::new(BinaryViewArray::from(vec![&b"a long truthy value.........."[..]]));
    let both = BinaryViewArray::from(vec![&b"another long value..........."[..], &[1u8, 2, 3, 4, 0, 6, 7, 8, 9, 10, 11, 12][..]]);
    let fz = Scalar::new(both.slice(1, 1));
    let r = run_op(|| ScalarZipper::try_new(&t, &fz)?.zip(&BooleanArray::from(vec![true, false])));
    if let Outcome::Ok(a) = &r {
        eprintln!("D6 validity of the result below: {:?}", check_array(a.as_ref()));
    }
    show("D6 ScalarZipper(long view, inline 12-byte view x'010203040006..0c' from an array with a data buffer).zip([1,0])", r);
    let both = BinaryViewArray::from(vec![&b"another long value..........."[..], &[7u8][..]]);
    let fz1 = Scalar::new(both.slice(1, 1));
    let r = run_op(|| zip(&BooleanArray::from(vec![true, false]), &t, &fz1));
    if let Outcome::Ok(a) = &r {
        eprintln!("D6b validity of the result below: {:?}", check_array(a.as_ref()));
    }
    show("D6b zip([1,0], Scalar(long view), Scalar(inline 1-byte view x'07' from an array with a data buffer))", r);
    // D7 check_bounds misses negative indices when the index array has nulls
    let o = Some(TakeOptions { check_bounds: true });
    show("D7a take(NullArray len 3, Int16[-1,NULL], check_bounds) (want Err)", run_op(|| take(&NullArray::new(3), &Int16Array::from(vec![Some(-1), None]), o.clone())));
    let big = Int32Array::from((0..300).collect::<Vec<i32>>());
    show("D7b take(Int32[0..300], Int8[-1,NULL], check_bounds) (want Err)", run_op(|| take(&big, &Int8Array::from(vec![Some(-1), None]), o.clone())));
    show("D7c take(Int32[0..300], Int8[-1], check_bounds) (want Err)", run_op(|| take(&big, &Int8Array::from(vec![Some(-1)]), o.clone())));
    // D8 FilterPredicate::filter_nulls on an all / none selecting predicate
    let nb = NullBuffer::from(vec![true, false]);
    let r = guard(|| FilterBuilder::new(&BooleanArray::from(vec![true, true])).build().filter_nulls(Some(&nb)).map(|n| n.null_count()));
    eprintln!("D8 FilterBuilder([1,1]).build().filter_nulls([valid,null]): {:?}", r.map_err(|p| format!("panic {} @ {}", p.msg, p.loc)));
    ctx.eval();
}
