//! C16 engine part 2: executing operations on buffers and arrays (sharing,
//! conversions, in-place kernels, pool claims) with the online oracle.

use super::c16_h::*;
use super::c16_ops::*;
use super::c16_sup::*;
use crate::mon::{guard, strip_digits};
use crate::val::{Val, dump_vals};
use arrow_array::types::ArrowPrimitiveType;
use arrow_array::*;
use arrow_buffer::{ArrowNativeType, BooleanBuffer, Buffer, MemoryPool, NullBuffer, ScalarBuffer};

macro_rules! p_same {
    ($p:expr, $a:ident => $body:expr) => {
        match $p {
            P::I32($a) => P::I32($body),
            P::I64($a) => P::I64($body),
            P::U8($a) => P::U8($body),
        }
    };
}

pub enum Out<A> {
    Done(A),
    Declined(A),
    OpErr,
}

fn unary_g<T: ArrowPrimitiveType>(a: PrimitiveArray<T>, mode: u8, k: usize) -> Out<PrimitiveArray<T>> {
    let c = T::Native::usize_as(k);
    match mode {
        0 => match a.unary_mut(|v| v.add_wrapping(c)) {
            Ok(x) => Out::Done(x),
            Err(x) => Out::Declined(x),
        },
        1 => match a.try_unary_mut(|v| Ok::<_, ()>(v.add_wrapping(c))) {
            Ok(Ok(x)) => Out::Done(x),
            Ok(Err(())) => Out::OpErr,
            Err(x) => Out::Declined(x),
        },
        _ => {
            let pivot = (0..a.len()).find(|i| a.is_valid(*i)).map(|i| a.value(i));
            match a.try_unary_mut(|v| if Some(v) == pivot { Err(()) } else { Ok(v.add_wrapping(c)) }) {
                Ok(Ok(x)) => Out::Done(x),
                Ok(Err(())) => Out::OpErr,
                Err(x) => Out::Declined(x),
            }
        }
    }
}

fn binary_g<T: ArrowPrimitiveType>(a: PrimitiveArray<T>, b: &PrimitiveArray<T>) -> Result<Out<PrimitiveArray<T>>, String> {
    match arrow_arith::arity::binary_mut(a, b, |x, y| x.add_wrapping(y)) {
        Ok(Ok(x)) => Ok(Out::Done(x)),
        Ok(Err(e)) => Err(e.to_string()),
        Err(x) => Ok(Out::Declined(x)),
    }
}

pub fn wrap_add(p: &P, v: i128, k: i128) -> i128 {
    match p {
        P::I32(_) => (v.wrapping_add(k)) as i32 as i128,
        P::I64(_) => (v.wrapping_add(k)) as i64 as i128,
        P::U8(_) => (v.wrapping_add(k)) as u8 as i128,
    }
}

fn is_harness_panic(p: &crate::mon::PanicInfo) -> bool {
    p.is_model() || p.loc.contains("/harness/vcore/") || p.loc.contains("props/c16")
}

impl World {
    /// Execute one operation under the panic monitor, then verify the bytes
    /// visible through every live handle of this thread.
    pub fn exec(&mut self, op: Op) {
        self.serial += 1;
        self.ops_done += 1;
        let (name, class) = (op.name(), op.class());
        set_cur(self.tid, class, self.serial);
        self.cur_op = name;
        self.sh.push(Ev::Op { t: self.tid, seq: tick() });
        if sanity() == 2 && !matches!(op, Op::Create(..)) {
            let early = lock(&self.sh.stash).pop();
            drop(early);
        }
        let r = guard(|| self.exec_inner(&op));
        if let Err(p) = r {
            if is_harness_panic(&p) {
                self.sh.inconclusive(format!("harness panic in {name}: {} @ {}", p.msg, p.loc));
            } else {
                self.fault(
                    format!("C16|{name}|panic|{}|{}", p.file(), strip_digits(&p.msg)),
                    format!("arrow-rs panicked in `{name}`: {} @ {}", p.msg, p.loc),
                );
            }
        }
        set_cur(self.tid, "check", self.serial);
        self.check_snapshots(name, class);
    }

    pub(crate) fn same_snap(&self, k: usize, old: &[Vec<u8>], name: &'static str, class: &'static str, prefix: bool) {
        let s = &self.slots[k];
        let ok = if prefix {
            s.snap.len() == old.len() && s.snap.iter().zip(old.iter()).all(|(n, o)| o.starts_with(n))
        } else {
            s.snap.as_slice() == old
        };
        if !ok {
            let (bi, at) = first_diff(&s.snap, old);
            self.fault(
                format!("C16|immutable|{class}|{}|content-changed-by-op", s.h.kind()),
                format!(
                    "`{name}` returned a handle ({}) whose visible bytes differ from the consumed one: view {bi} byte {at}\n  before: {}\n  after:  {}",
                    s.h.kind(),
                    hex(old.get(bi).map(|v| v.as_slice()).unwrap_or(&[])),
                    hex(s.snap.get(bi).map(|v| v.as_slice()).unwrap_or(&[]))
                ),
            );
        }
    }

    pub(crate) fn same_logical(&self, k: usize, before: &Option<Vec<Val>>, name: &'static str, what: &str) {
        if self.slots[k].meta.tainted {
            // already reported as an invalid array: reading it would be out of bounds
            return;
        }
        let now = logical(&self.slots[k].h);
        if let (Some(b), Some(n)) = (before, &now) {
            if b != n {
                self.fault(
                    format!("C16|value|{name}|{what}"),
                    format!(
                        "`{name}` ({what}): logical content differs\n  expected: {}\n  got:      {}",
                        dump_vals(b),
                        dump_vals(n)
                    ),
                );
            }
        }
    }

    pub(crate) fn refresh(&mut self, i: usize) {
        self.slots[i].snap = snapshot(&self.slots[i].h);
    }

    pub(crate) fn is_kind(&self, i: usize, k: &str) -> bool {
        i < self.slots.len() && self.slots[i].h.kind() == k
    }

    fn exec_inner(&mut self, op: &Op) {
        let name = op.name();
        let class = op.class();
        if !matches!(op, Op::Drop(_) | Op::Send(..)) {
            // an invalid array (already reported) is never read again, only dropped
            let (a, b) = op.indices();
            let bad = |x: Option<usize>| x.map_or(false, |i| i < self.slots.len() && self.slots[i].meta.tainted);
            if bad(a) || bad(b) {
                return;
            }
        }
        match *op {
            Op::Create(kind, seed) => {
                let hs = create(&self.sh, kind, seed, self.small);
                for h in hs {
                    let k = h.kind();
                    self.put(h, create_name(kind), &[]);
                    self.note("create", k, create_name(kind), "ok");
                }
            }
            Op::Clone(i) => {
                if i >= self.slots.len() {
                    return;
                }
                let h2 = match &self.slots[i].h {
                    H::Buf(b) => H::Buf(b.clone()),
                    H::Bits(b) => H::Bits(b.clone()),
                    H::Prim(p) => H::Prim(p_same!(p, a => a.clone())),
                    H::Bool(a) => H::Bool(a.clone()),
                    H::Str(a) => H::Str(a.clone()),
                    H::Data(d) => H::Data(d.clone()),
                    H::Ext(b) => H::Ext(b.clone()),
                    _ => return,
                };
                let m = self.slots[i].meta.clone();
                let old = self.slots[i].snap.clone();
                let k = self.put(h2, "clone", &[&m]);
                self.same_snap(k, &old, name, class, false);
                self.note(name, self.slots[k].h.kind(), m.src, "ok");
            }
            Op::Slice(i, a, b) => {
                if i >= self.slots.len() {
                    return;
                }
                let (a, b) = (a as usize, b as usize);
                let cut = |len: usize| -> (usize, usize) {
                    let off = a % (len + 1);
                    (off, b % (len - off + 1))
                };
                let h2 = match &self.slots[i].h {
                    H::Buf(x) => {
                        let (off, l) = cut(x.len());
                        match (a + b) % 3 {
                            0 => H::Buf(x.slice(off)),
                            1 => H::Buf(x.slice_with_length(off, l)),
                            _ => {
                                let (ob, lb) = cut(x.len() * 8);
                                H::Buf(x.bit_slice(ob, lb))
                            }
                        }
                    }
                    H::Bits(x) => {
                        let (off, l) = cut(x.len());
                        H::Bits(x.slice(off, l))
                    }
                    H::Prim(p) => H::Prim(p_same!(p, x => { let (off, l) = cut(x.len()); x.slice(off, l) })),
                    H::Bool(x) => {
                        let (off, l) = cut(x.len());
                        H::Bool(x.slice(off, l))
                    }
                    H::Str(x) => {
                        let (off, l) = cut(x.len());
                        H::Str(x.slice(off, l))
                    }
                    H::Data(x) => {
                        // Array::slice, not ArrayData::slice: the latter followed by make_array
                        // slices struct children twice (unrelated to this property)
                        let (off, l) = cut(x.len());
                        H::Data(make_array(x.clone()).slice(off, l).to_data())
                    }
                    H::Ext(x) => {
                        let (off, l) = cut(x.len());
                        H::Ext(x.slice(off..off + l))
                    }
                    _ => return,
                };
                let m = self.slots[i].meta.clone();
                let k = self.put(h2, "slice", &[&m]);
                self.note(name, self.slots[k].h.kind(), m.src, "ok");
            }
            Op::Advance(i, a) => {
                if !self.is_kind(i, "Buffer") {
                    return;
                }
                let s = self.take(i);
                let H::Buf(mut b) = s.h else { return };
                let off = a as usize % (b.len() + 1);
                b.advance(off);
                let k = self.put(H::Buf(b), "advance", &[&s.meta]);
                let want = vec![s.snap[0][off..].to_vec()];
                self.same_snap(k, &want, name, class, false);
                self.note(name, "Buffer", s.meta.src, "ok");
            }
            Op::WrapBits(i, a, b) => {
                if !self.is_kind(i, "Buffer") {
                    return;
                }
                let H::Buf(x) = &self.slots[i].h else { return };
                let nbits = x.len() * 8;
                let off = a as usize % (nbits + 1);
                let l = b as usize % (nbits - off + 1);
                let h2 = H::Bits(BooleanBuffer::new(x.clone(), off, l));
                let m = self.slots[i].meta.clone();
                self.put(h2, "wrap_bits", &[&m]);
                self.note(name, "Buffer", m.src, "ok");
            }
            Op::WrapPrim(i, ty, j) => {
                if !self.is_kind(i, "Buffer") {
                    return;
                }
                let H::Buf(x) = &self.slots[i].h else { return };
                let size = prim_size(ty as usize);
                if x.as_ptr() as usize % size != 0 {
                    self.note(name, "Buffer", self.slots[i].meta.src, "misaligned-skipped");
                    return;
                }
                let n = x.len() / size;
                let mut parents = vec![self.slots[i].meta.clone()];
                let mut nulls = None;
                if let Some(j) = j {
                    if j < self.slots.len() {
                        if let H::Bits(bb) = &self.slots[j].h {
                            if bb.len() >= n && n > 0 {
                                nulls = Some(NullBuffer::new(bb.slice(0, n)));
                                parents.push(self.slots[j].meta.clone());
                            }
                        }
                    }
                }
                let xb = x.clone();
                let with_nulls = nulls.is_some();
                let p = match ty % 3 {
                    0 => P::I32(Int32Array::new(ScalarBuffer::new(xb, 0, n), nulls)),
                    1 => P::I64(Int64Array::new(ScalarBuffer::new(xb, 0, n), nulls)),
                    _ => P::U8(UInt8Array::new(ScalarBuffer::new(xb, 0, n), nulls)),
                };
                let refs: Vec<&Meta> = parents.iter().collect();
                self.put(H::Prim(p), "wrap_prim", &refs);
                self.note(name, "Buffer", parents[0].src, if with_nulls { "ok+nulls" } else { "ok" });
            }
            Op::WrapBool(i, j) => {
                if !self.is_kind(i, "BooleanBuffer") {
                    return;
                }
                let H::Bits(x) = &self.slots[i].h else { return };
                let n = x.len();
                let mut parents = vec![self.slots[i].meta.clone()];
                let mut nulls = None;
                if let Some(j) = j {
                    if j < self.slots.len() && j != i {
                        if let H::Bits(bb) = &self.slots[j].h {
                            if bb.len() >= n && n > 0 {
                                nulls = Some(NullBuffer::new(bb.slice(0, n)));
                                parents.push(self.slots[j].meta.clone());
                            }
                        }
                    }
                }
                let a = BooleanArray::new(x.clone(), nulls);
                let refs: Vec<&Meta> = parents.iter().collect();
                self.put(H::Bool(a), "wrap_bool", &refs);
                self.note(name, "BooleanBuffer", parents[0].src, "ok");
            }
            Op::IntoMutable(i) => {
                if !self.is_kind(i, "Buffer") {
                    return;
                }
                let s = self.take(i);
                let H::Buf(b) = s.h else { return };
                match b.into_mutable() {
                    Ok(m) => {
                        let k = self.put(H::Mut(m), "into_mutable", &[&s.meta]);
                        self.same_snap(k, &s.snap, name, class, false);
                        self.note(name, "Buffer", s.meta.src, "converted");
                    }
                    Err(b) => {
                        let k = self.put(H::Buf(b), s.origin, &[&s.meta]);
                        self.same_snap(k, &s.snap, name, class, false);
                        self.note(name, "Buffer", s.meta.src, "declined");
                    }
                }
            }
            Op::IntoVec(i, ty) => {
                if !self.is_kind(i, "Buffer") {
                    return;
                }
                let s = self.take(i);
                let H::Buf(b) = s.h else { return };
                let r: Result<V, Buffer> = match ty % 3 {
                    0 => b.into_vec::<u8>().map(V::U8),
                    1 => b.into_vec::<i32>().map(V::I32),
                    _ => b.into_vec::<i64>().map(V::I64),
                };
                match r {
                    Ok(v) => {
                        let k = self.put(H::Vec(v), "into_vec", &[&s.meta]);
                        self.same_snap(k, &s.snap, name, class, true);
                        self.note(name, "Buffer", s.meta.src, "converted");
                    }
                    Err(b) => {
                        let k = self.put(H::Buf(b), s.origin, &[&s.meta]);
                        self.same_snap(k, &s.snap, name, class, false);
                        self.note(name, "Buffer", s.meta.src, "declined");
                    }
                }
            }
            Op::Shrink(i) => self.op_shrink(i, name, class),
            Op::Claim(i) => self.op_claim(i, name),
            Op::ToExt(i) => {
                if !self.is_kind(i, "Buffer") {
                    return;
                }
                let s = self.take(i);
                let m = World::holder_meta(&s);
                let H::Buf(b) = s.h else { return };
                let k = self.put(H::Ext(bytes::Bytes::from(b)), "into_bytes", &[&m]);
                self.same_snap(k, &s.snap, name, class, false);
                self.note(name, "Buffer", m.src, "ok");
            }
            Op::ExtToBuf(i) => {
                if !self.is_kind(i, "bytes::Bytes") {
                    return;
                }
                let s = self.take(i);
                let H::Ext(b) = s.h else { return };
                let k = self.put(H::Buf(Buffer::from(b)), "from_bytes", &[&s.meta]);
                // the buffer keeps the bytes::Bytes (and whatever it holds) alive
                self.slots[k].meta.xcaps = s.meta.xcaps.clone();
                self.same_snap(k, &s.snap, name, class, false);
                self.note(name, "bytes::Bytes", s.meta.src, "ok");
            }
            Op::BitAssign(i, j, w) => self.op_bit_assign(i, j, w, name),
            Op::BitsInner(i) => {
                if !self.is_kind(i, "BooleanBuffer") {
                    return;
                }
                let s = self.take(i);
                let H::Bits(b) = s.h else { return };
                let k = self.put(H::Buf(b.into_inner()), "into_inner", &[&s.meta]);
                self.same_snap(k, &s.snap, name, class, false);
                self.note(name, "BooleanBuffer", s.meta.src, "ok");
            }
            Op::UnaryMut(i, mode) => self.op_unary(i, mode, name),
            Op::BinaryMut(i, j) => self.op_binary(i, j, name),
            Op::IntoBuilder(i) => self.op_into_builder(i, name),
            Op::IntoParts(i) => self.op_into_parts(i, name),
            Op::ToData(i) => {
                if i >= self.slots.len() || matches!(self.slots[i].h, H::Data(_)) {
                    return;
                }
                let Some(d) = to_data(&self.slots[i].h) else { return };
                let m = self.slots[i].meta.clone();
                let before = logical(&self.slots[i].h);
                let k = self.put(H::Data(d), "to_data", &[&m]);
                self.same_logical(k, &before, name, "shared-view-differs");
                self.note(name, self.slots[i].h.kind(), m.src, "ok");
            }
            Op::BoolUnary(i, oc) => self.op_bool_unary(i, oc, name),
            Op::BoolBin(i, j, oc) => self.op_bool_bin(i, j, oc, name),
            Op::TakeN(i, n) => self.op_take_n(i, n as usize, name),
            Op::Drop(i) => {
                if i >= self.slots.len() {
                    return;
                }
                let s = self.take(i);
                let (k, src) = (s.h.kind(), s.meta.src);
                drop(s);
                self.note(name, k, src, "ok");
            }
            Op::Send(i, t) => {
                if !self.par || i >= self.slots.len() || t == self.tid || (t as usize) >= self.peers.len() {
                    return;
                }
                let s = self.slots.remove(i);
                let (k, src) = (s.h.kind(), s.meta.src);
                match self.peers[t as usize].send(s) {
                    Ok(()) => self.note(name, k, src, "ok"),
                    Err(e) => self.slots.push(e.0),
                }
            }
            _ => self.exec_more(op),
        }
    }

    fn op_shrink(&mut self, i: usize, name: &'static str, class: &'static str) {
        if i >= self.slots.len() {
            return;
        }
        if !matches!(self.slots[i].h, H::Buf(_) | H::Bits(_) | H::Prim(_) | H::Bool(_) | H::Str(_) | H::Mut(_)) {
            return;
        }
        let s = self.take(i);
        let caps_before = caps(&s.h);
        let mut h = s.h;
        match &mut h {
            H::Buf(b) => b.shrink_to_fit(),
            H::Bits(b) => b.shrink_to_fit(),
            H::Prim(p) => crate::c16_with_p!(p, a => a.shrink_to_fit()),
            H::Bool(a) => a.shrink_to_fit(),
            H::Str(a) => a.shrink_to_fit(),
            H::Mut(m) => m.shrink_to_fit(),
            _ => {}
        }
        let kind = h.kind();
        let k = self.put(h, s.origin, &[&s.meta]);
        self.slots[k].claimed = s.claimed.clone();
        self.same_snap(k, &s.snap, name, class, false);
        let caps_after = caps(&self.slots[k].h);
        let shrunk = caps_after != caps_before;
        if shrunk && !s.claimed.is_empty() {
            // the reservations created by claiming this very handle (nothing but in-place
            // operations since) must follow the reallocation
            let res = self.sh.pool.snapshot();
            for id in &s.claimed {
                if let Some(r) = res.get(*id) {
                    if r.dropped == 0 && !caps_after.contains(&r.size) {
                        self.fault(
                            format!("C16|pool|shrink|{kind}|reservation-size-not-capacity"),
                            format!(
                                "shrink_to_fit changed the capacities of the handle {:?} -> {:?} but the reservation #{id} made by claiming it accounts {} bytes",
                                caps_before, caps_after, r.size
                            ),
                        );
                    }
                }
            }
        }
        self.note(name, kind, s.meta.src, if shrunk { "shrunk" } else { "unchanged" });
    }

    fn op_claim(&mut self, i: usize, name: &'static str) {
        if i >= self.slots.len() {
            return;
        }
        let before = self.sh.pool.count();
        let pool: &dyn MemoryPool = &self.sh.pool;
        match &self.slots[i].h {
            H::Buf(b) => b.claim(pool),
            H::Bits(b) => b.claim(pool),
            H::Prim(p) => crate::c16_with_p!(p, a => Array::claim(a, pool)),
            H::Bool(a) => Array::claim(a, pool),
            H::Str(a) => Array::claim(a, pool),
            H::Data(d) => d.claim(pool),
            H::Mut(m) => m.claim(pool),
            _ => return,
        }
        let all = self.sh.pool.snapshot();
        let lo = before.min(all.len());
        let mine_ids: Vec<usize> = (lo..all.len()).filter(|j| all[*j].tid == self.tid && all[*j].serial == self.serial).collect();
        let mine: Vec<&ResInfo> = mine_ids.iter().map(|j| &all[*j]).collect();
        self.slots[i].claimed.extend(mine_ids.iter().copied());
        let cs = caps(&self.slots[i].h);
        let kind = self.slots[i].h.kind();
        let is_mut = matches!(self.slots[i].h, H::Mut(_));
        for r in &mine {
            // not asserted: which of len / capacity a *mutable* buffer's reservation tracks
            if !cs.contains(&r.claim_size) || sanity() == 5 {
                self.fault(
                    format!("C16|pool|claim|{kind}|reservation-size-not-capacity"),
                    format!("claim reserved {} bytes but the capacities of the handle's regions are {:?}", r.claim_size, cs),
                );
            }
        }
        if matches!(self.slots[i].h, H::Buf(_) | H::Bits(_)) || is_mut {
            if mine.len() != 1 {
                self.fault(
                    format!("C16|pool|claim|{kind}|reservation-count"),
                    format!("claim on a single buffer created {} reservations", mine.len()),
                );
            }
        }
        let src = self.slots[i].meta.src;
        self.note(name, kind, src, "ok");
    }

    fn op_bit_assign(&mut self, i: usize, j: usize, w: u8, name: &'static str) {
        if i == j || !self.is_kind(i, "BooleanBuffer") || !self.is_kind(j, "BooleanBuffer") {
            return;
        }
        let H::Bits(rj) = &self.slots[j].h else { return };
        let rhs_full = rj.clone();
        let mj = self.slots[j].meta.clone();
        let s = self.take(i);
        let H::Bits(mut lhs) = s.h else { return };
        let l = lhs.len().min(rhs_full.len());
        if lhs.len() != l {
            lhs = lhs.slice(0, l);
        }
        let rhs = rhs_full.slice(0, l);
        drop(rhs_full);
        let f = |a: bool, b: bool| match w % 3 {
            0 => a & b,
            1 => a | b,
            _ => a ^ b,
        };
        let want: Vec<Val> = lhs.iter().zip(rhs.iter()).map(|(a, b)| Val::Bool(f(a, b))).collect();
        let ptr_before = lhs.inner().as_ptr() as usize;
        match w % 3 {
            0 => lhs &= &rhs,
            1 => lhs |= &rhs,
            _ => lhs ^= &rhs,
        }
        drop(rhs);
        let in_place = lhs.inner().as_ptr() as usize == ptr_before;
        let k = self.put(H::Bits(lhs), "bit_assign", &[&s.meta, &mj]);
        self.same_logical(k, &Some(want), name, "wrong-result");
        self.note(name, "BooleanBuffer", s.meta.src, if in_place { "in-place" } else { "copied" });
    }

    fn op_unary(&mut self, i: usize, mode: u8, name: &'static str) {
        if !self.is_kind(i, "PrimitiveArray") {
            return;
        }
        let s = self.take(i);
        let before = logical(&s.h).unwrap_or_default();
        let H::Prim(p) = s.h else { return };
        let k = 1 + (self.serial as usize % 7);
        let any_valid = before.iter().any(|v| !v.is_null());
        let want: Vec<Val> = before
            .iter()
            .map(|v| match v {
                Val::Int(x) => Val::Int(wrap_add(&p, *x, k as i128)),
                o => o.clone(),
            })
            .collect();
        let (out, tag): (Option<P>, &'static str) = match p {
            P::I32(a) => match unary_g(a, mode, k) {
                Out::Done(x) => (Some(P::I32(x)), "done"),
                Out::Declined(x) => (Some(P::I32(x)), "declined"),
                Out::OpErr => (None, "op-error"),
            },
            P::I64(a) => match unary_g(a, mode, k) {
                Out::Done(x) => (Some(P::I64(x)), "done"),
                Out::Declined(x) => (Some(P::I64(x)), "declined"),
                Out::OpErr => (None, "op-error"),
            },
            P::U8(a) => match unary_g(a, mode, k) {
                Out::Done(x) => (Some(P::U8(x)), "done"),
                Out::Declined(x) => (Some(P::U8(x)), "declined"),
                Out::OpErr => (None, "op-error"),
            },
        };
        match (out, tag) {
            (Some(p), "done") => {
                let kx = self.put(H::Prim(p), name, &[&s.meta]);
                if mode == 2 && any_valid {
                    self.fault(
                        format!("C16|value|{name}|op-error-swallowed"),
                        "try_unary_mut returned Ok(Ok(..)) although the operation failed on a valid value".to_string(),
                    );
                } else {
                    self.same_logical(kx, &Some(want), name, "wrong-result");
                }
            }
            (Some(p), _) => {
                let kx = self.put(H::Prim(p), s.origin, &[&s.meta]);
                self.same_logical(kx, &Some(before), name, "declined-but-changed");
            }
            (None, _) => {
                if !(mode == 2 && any_valid) {
                    self.fault(
                        format!("C16|value|{name}|spurious-op-error"),
                        "try_unary_mut reported an operation error although the operation never fails".to_string(),
                    );
                }
            }
        }
        self.note(name, "PrimitiveArray", s.meta.src, tag);
    }

    fn op_binary(&mut self, i: usize, j: usize, name: &'static str) {
        if i == j || !self.is_kind(i, "PrimitiveArray") || !self.is_kind(j, "PrimitiveArray") {
            return;
        }
        let same = matches!(
            (&self.slots[i].h, &self.slots[j].h),
            (H::Prim(P::I32(_)), H::Prim(P::I32(_))) | (H::Prim(P::I64(_)), H::Prim(P::I64(_))) | (H::Prim(P::U8(_)), H::Prim(P::U8(_)))
        );
        if !same {
            return;
        }
        let H::Prim(pj) = &self.slots[j].h else { return };
        let rhs_full: P = p_same!(pj, a => a.clone());
        let mj = self.slots[j].meta.clone();
        let s = self.take(i);
        let H::Prim(pa) = s.h else { return };
        let la = crate::c16_with_p!(&pa, a => a.len());
        let lb = crate::c16_with_p!(&rhs_full, a => a.len());
        let l = la.min(lb);
        let pa: P = if la != l { p_same!(pa, a => a.slice(0, l)) } else { pa };
        let rhs: P = p_same!(&rhs_full, a => a.slice(0, l));
        drop(rhs_full);
        let va = crate::c16_with_p!(&pa, a => crate::extract::extract(a));
        let vb = crate::c16_with_p!(&rhs, a => crate::extract::extract(a));
        let want: Vec<Val> = va
            .iter()
            .zip(vb.iter())
            .map(|(x, y)| match (x, y) {
                (Val::Int(x), Val::Int(y)) => Val::Int(wrap_add(&pa, *x, *y)),
                _ => Val::Null,
            })
            .collect();
        let r: Result<(P, &'static str), String> = match (pa, &rhs) {
            (P::I32(a), P::I32(b)) => binary_g(a, b).map(|o| match o {
                Out::Done(x) => (P::I32(x), "done"),
                Out::Declined(x) => (P::I32(x), "declined"),
                Out::OpErr => unreachable!(),
            }),
            (P::I64(a), P::I64(b)) => binary_g(a, b).map(|o| match o {
                Out::Done(x) => (P::I64(x), "done"),
                Out::Declined(x) => (P::I64(x), "declined"),
                Out::OpErr => unreachable!(),
            }),
            (P::U8(a), P::U8(b)) => binary_g(a, b).map(|o| match o {
                Out::Done(x) => (P::U8(x), "done"),
                Out::Declined(x) => (P::U8(x), "declined"),
                Out::OpErr => unreachable!(),
            }),
            _ => return,
        };
        drop(rhs);
        match r {
            Ok((p, "done")) => {
                let kx = self.put(H::Prim(p), name, &[&s.meta, &mj]);
                self.same_logical(kx, &Some(want), name, "wrong-result");
                self.note(name, "PrimitiveArray", s.meta.src, "done");
            }
            Ok((p, _)) => {
                let kx = self.put(H::Prim(p), s.origin, &[&s.meta]);
                self.same_logical(kx, &Some(va), name, "declined-but-changed");
                self.note(name, "PrimitiveArray", s.meta.src, "declined");
            }
            Err(e) => {
                self.fault(format!("C16|value|{name}|unexpected-error"), format!("binary_mut on equal-length arrays returned an error: {e}"));
            }
        }
    }

    fn op_into_builder(&mut self, i: usize, name: &'static str) {
        if i >= self.slots.len() {
            return;
        }
        match &self.slots[i].h {
            H::Prim(_) => {
                let s = self.take(i);
                let before = logical(&s.h);
                let H::Prim(p) = s.h else { return };
                let r: Result<PB, P> = match p {
                    P::I32(a) => a.into_builder().map(PB::I32).map_err(P::I32),
                    P::I64(a) => a.into_builder().map(PB::I64).map_err(P::I64),
                    P::U8(a) => a.into_builder().map(PB::U8).map_err(P::U8),
                };
                match r {
                    Ok(b) => {
                        let k = self.put(H::Bld(b), name, &[&s.meta]);
                        self.same_logical(k, &before, name, "converted-but-changed");
                        self.note(name, "PrimitiveArray", s.meta.src, "converted");
                    }
                    Err(p) => {
                        let k = self.put(H::Prim(p), s.origin, &[&s.meta]);
                        self.same_logical(k, &before, name, "declined-but-changed");
                        self.note(name, "PrimitiveArray", s.meta.src, "declined");
                    }
                }
            }
            H::Str(_) => {
                let s = self.take(i);
                let before = logical(&s.h);
                let H::Str(a) = s.h else { return };
                match a.into_builder() {
                    Ok(b) => {
                        let k = self.put(H::BStr(b), name, &[&s.meta]);
                        self.same_logical(k, &before, name, "converted-but-changed");
                        self.note(name, "StringArray", s.meta.src, "converted");
                    }
                    Err(a) => {
                        let k = self.put(H::Str(a), s.origin, &[&s.meta]);
                        self.same_logical(k, &before, name, "declined-but-changed");
                        self.note(name, "StringArray", s.meta.src, "declined");
                    }
                }
            }
            _ => {}
        }
    }

    fn op_into_parts(&mut self, i: usize, name: &'static str) {
        if i >= self.slots.len() {
            return;
        }
        if !matches!(self.slots[i].h, H::Prim(_) | H::Bool(_) | H::Str(_)) {
            return;
        }
        let s = self.take(i);
        let kind = s.h.kind();
        let mut parts: Vec<H> = Vec::new();
        match s.h {
            H::Prim(p) => {
                let (v, n) = crate::c16_with_p!(p, a => { let (_, v, n) = a.into_parts(); (v.into_inner(), n) });
                parts.push(H::Buf(v));
                if let Some(n) = n {
                    parts.push(H::Bits(n.into_inner()));
                }
            }
            H::Bool(a) => {
                let (v, n) = a.into_parts();
                parts.push(H::Bits(v));
                if let Some(n) = n {
                    parts.push(H::Bits(n.into_inner()));
                }
            }
            H::Str(a) => {
                let (o, v, n) = a.into_parts();
                parts.push(H::Buf(o.into_inner().into_inner()));
                parts.push(H::Buf(v));
                if let Some(n) = n {
                    parts.push(H::Bits(n.into_inner()));
                }
            }
            _ => {}
        }
        for h in parts {
            self.put(h, "into_parts", &[&s.meta]);
        }
        self.note(name, kind, s.meta.src, "ok");
    }

    fn op_bool_unary(&mut self, i: usize, or_clone: bool, name: &'static str) {
        if !self.is_kind(i, "BooleanArray") {
            return;
        }
        let s = self.take(i);
        let before = logical(&s.h).unwrap_or_default();
        let H::Bool(a) = s.h else { return };
        let want: Vec<Val> = before
            .iter()
            .map(|v| match v {
                Val::Bool(b) => Val::Bool(!b),
                o => o.clone(),
            })
            .collect();
        let (arr, tag) = if or_clone {
            (a.bitwise_unary_mut_or_clone(|x| !x), "done")
        } else {
            match a.bitwise_unary_mut(|x| !x) {
                Ok(x) => (x, "done"),
                Err(x) => (x, "declined"),
            }
        };
        let k = self.put(H::Bool(arr), if tag == "done" { name } else { s.origin }, &[&s.meta]);
        if tag == "done" {
            self.same_logical(k, &Some(want), name, "wrong-result");
        } else {
            self.same_logical(k, &Some(before), name, "declined-but-changed");
        }
        self.note(name, "BooleanArray", s.meta.src, tag);
    }

    fn op_bool_bin(&mut self, i: usize, j: usize, or_clone: bool, name: &'static str) {
        if i == j || !self.is_kind(i, "BooleanArray") || !self.is_kind(j, "BooleanArray") {
            return;
        }
        let H::Bool(bj) = &self.slots[j].h else { return };
        let rhs_full = bj.clone();
        let mj = self.slots[j].meta.clone();
        let s = self.take(i);
        let H::Bool(mut a) = s.h else { return };
        let l = a.len().min(rhs_full.len());
        if a.len() != l {
            a = a.slice(0, l);
        }
        let rhs = rhs_full.slice(0, l);
        drop(rhs_full);
        let w = self.serial % 3;
        let va = crate::extract::extract(&a);
        let vb = crate::extract::extract(&rhs);
        let want: Vec<Val> = va
            .iter()
            .zip(vb.iter())
            .map(|(x, y)| match (x, y) {
                (Val::Bool(x), Val::Bool(y)) => Val::Bool(match w {
                    0 => x & y,
                    1 => x | y,
                    _ => x ^ y,
                }),
                _ => Val::Null,
            })
            .collect();
        let f = move |x: u64, y: u64| match w {
            0 => x & y,
            1 => x | y,
            _ => x ^ y,
        };
        let (arr, tag) = if or_clone {
            (a.bitwise_bin_op_mut_or_clone(&rhs, f), "done")
        } else {
            match a.bitwise_bin_op_mut(&rhs, f) {
                Ok(x) => (x, "done"),
                Err(x) => (x, "declined"),
            }
        };
        drop(rhs);
        if tag == "done" {
            let k = self.put(H::Bool(arr), name, &[&s.meta, &mj]);
            self.same_logical(k, &Some(want), name, "wrong-result");
        } else {
            let k = self.put(H::Bool(arr), s.origin, &[&s.meta]);
            self.same_logical(k, &Some(va), name, "declined-but-changed");
        }
        self.note(name, "BooleanArray", s.meta.src, tag);
    }

    fn op_take_n(&mut self, i: usize, n: usize, name: &'static str) {
        if !self.is_kind(i, "BooleanArray") {
            return;
        }
        let s = self.take(i);
        let before = logical(&s.h).unwrap_or_default();
        let H::Bool(a) = s.h else { return };
        let mut seen = 0usize;
        let want: Vec<Val> = before
            .iter()
            .map(|v| match v {
                Val::Bool(true) => {
                    seen += 1;
                    Val::Bool(seen <= n)
                }
                o => o.clone(),
            })
            .collect();
        let arr = a.take_n_true(n);
        let k = self.put(H::Bool(arr), name, &[&s.meta]);
        self.same_logical(k, &Some(want), name, "wrong-result");
        self.note(name, "BooleanArray", s.meta.src, "done");
    }

    pub fn refresh_slot(&mut self, i: usize) {
        self.refresh(i);
    }
}
