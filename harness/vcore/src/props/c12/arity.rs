//! `arity` helpers (unary / binary / try_unary / try_binary and the `_mut`
//! forms): null slots never reach a fallible closure, output nulls are the union
//! of the (logical) input nulls, results equal the closure on valid rows.
//! Plus the deprecated fixed-point decimal multiplication kernels.

use super::model::{self, Phys};
use super::{bait_array, gen_operand, gen_phys, short_bits};
use crate::build;
use crate::extract::extract;
use crate::mon::{Ctx, Outcome, guard, run_op, strip_digits};
use crate::rng::Rng;
use crate::val::{Val, dump_vals};
use arrow_arith::arity;
use arrow_array::cast::AsArray;
use arrow_array::types::*;
use arrow_array::*;
use arrow_schema::{ArrowError, DataType, Field};
use num_bigint::BigInt;
use num_traits::{Signed, ToPrimitive};
use std::cell::Cell as StdCell;
use std::sync::Arc;

fn f_un(x: i32) -> i64 {
    (x as i64) * 3 + 1
}
fn f_bin(a: i32, b: i64) -> i64 {
    (a as i64).wrapping_add(b)
}
/// fallible: division, fails for a zero divisor and for the "poison" dividend
const POISON: i32 = -777_777;
fn f_try(a: i32, b: i64) -> Result<i64, ArrowError> {
    if b == 0 {
        Err(ArrowError::DivideByZero)
    } else if a == POISON {
        Err(ArrowError::ComputeError("poison".into()))
    } else {
        Ok((a as i64).wrapping_div(b))
    }
}

fn gen_i32_col(rng: &mut Rng, n: usize) -> (Vec<Val>, Vec<bool>) {
    let valid: Vec<bool> = match rng.below(4) {
        0 => vec![true; n],
        1 => (0..n).map(|_| rng.bool()).collect(),
        2 => (0..n).map(|_| !rng.chance(1, 8)).collect(),
        _ => vec![false; n],
    };
    let pay = (0..n)
        .map(|_| if rng.chance(1, 6) { Val::Int(POISON as i128) } else { gen_operand(rng, &DataType::Int32) })
        .collect();
    (pay, valid)
}

fn gen_i64_col(rng: &mut Rng, n: usize) -> (Vec<Val>, Vec<bool>) {
    let valid: Vec<bool> = match rng.below(4) {
        0 => vec![true; n],
        1 => (0..n).map(|_| rng.bool()).collect(),
        2 => (0..n).map(|_| !rng.chance(1, 8)).collect(),
        _ => vec![false; n],
    };
    let pay = (0..n)
        .map(|_| if rng.chance(1, 5) { Val::Int(0) } else { gen_operand(rng, &DataType::Int64) })
        .collect();
    (pay, valid)
}

fn expect_rows(got: &[Val], want: &[Option<i64>]) -> Result<(), String> {
    if got.len() != want.len() {
        return Err(format!("length {} expected {}", got.len(), want.len()));
    }
    for (i, (g, w)) in got.iter().zip(want).enumerate() {
        match (g, w) {
            (Val::Null, None) => {}
            (Val::Int(x), Some(y)) if *x == *y as i128 => {}
            _ => return Err(format!("row {i}: got {g:?} expected {w:?}")),
        }
    }
    Ok(())
}

fn arity_case(ctx: &mut Ctx, rng: &mut Rng) {
    let n = rng.len_biased(140);
    let (lp, mut lv) = gen_i32_col(rng, n);
    let (rp, mut rv) = gen_i64_col(rng, n);
    let li = |i: usize| lp[i].int().unwrap() as i32;
    let ri = |i: usize| rp[i].int().unwrap();
    // in half of the cases hide every failing pair under a null (payload stays as bait)
    let mask = rng.bool();
    if mask {
        for i in 0..n {
            if lv[i] && rv[i] && f_try(li(i), ri(i) as i64).is_err() {
                if rng.bool() {
                    lv[i] = false
                } else {
                    rv[i] = false
                }
            }
        }
    }
    let both: Vec<bool> = (0..n).map(|i| lv[i] && rv[i]).collect();
    let la = bait_array(rng, &DataType::Int32, &lp, &lv);
    let ra = bait_array(rng, &DataType::Int64, &rp, &rv);
    let l = la.as_primitive::<Int32Type>();
    let r = ra.as_primitive::<Int64Type>();
    let wit = || format!("lhs {} valid {}\nrhs {} valid {}", dump_vals(&lp), short_bits(&lv), dump_vals(&rp), short_bits(&rv));
    let viol = |ctx: &mut Ctx, what: &str, kind: &str, d: String| {
        ctx.violation(&format!("C12|arity|{what}|{kind}"), format!("{d}\n{}", wit()));
    };
    ctx.eval();

    // unary: evaluated everywhere, nulls preserved
    match guard(|| arity::unary::<Int32Type, _, Int64Type>(l, f_un)) {
        Err(p) => ctx.panic_violation("arity|unary", &p, wit()),
        Ok(a) => {
            let want: Vec<Option<i64>> = (0..n).map(|i| if lv[i] { Some(f_un(li(i))) } else { None }).collect();
            if let Err(e) = expect_rows(&extract(&a), &want) {
                viol(ctx, "unary", "wrong-result", e);
            }
        }
    }
    // try_unary: only valid rows reach the closure
    let calls = StdCell::new(0usize);
    let out = run_op(|| {
        arity::try_unary::<Int32Type, _, Int64Type>(l, |x| {
            calls.set(calls.get() + 1);
            f_try(x, 3)
        })
    });
    let lvalid_fail = (0..n).any(|i| lv[i] && li(i) == POISON);
    match out {
        Outcome::Panic(p) => ctx.panic_violation("arity|try_unary", &p, wit()),
        Outcome::Err(e) => {
            if !lvalid_fail {
                viol(ctx, "try_unary", "spurious-err", format!("only null rows hold the poison value, got Err({e})"));
            }
        }
        Outcome::Ok(a) => {
            if lvalid_fail {
                viol(ctx, "try_unary", "missing-err", "a valid row fails in the closure but the call returned Ok".into());
            } else {
                let want: Vec<Option<i64>> = (0..n).map(|i| if lv[i] { Some(f_try(li(i), 3).unwrap()) } else { None }).collect();
                if let Err(e) = expect_rows(&extract(&a), &want) {
                    viol(ctx, "try_unary", "wrong-result", e);
                }
                let nvalid = lv.iter().filter(|b| **b).count();
                if calls.get() != nvalid {
                    viol(ctx, "try_unary", "closure-on-null", format!("closure evaluated {} times for {} valid rows", calls.get(), nvalid));
                }
            }
        }
    }
    // binary: infallible, union of nulls
    match run_op(|| arity::binary::<Int32Type, Int64Type, _, Int64Type>(l, r, f_bin)) {
        Outcome::Panic(p) => ctx.panic_violation("arity|binary", &p, wit()),
        Outcome::Err(e) => viol(ctx, "binary", "spurious-err", e),
        Outcome::Ok(a) => {
            let want: Vec<Option<i64>> = (0..n).map(|i| if both[i] { Some(f_bin(li(i), ri(i) as i64)) } else { None }).collect();
            if let Err(e) = expect_rows(&extract(&a), &want) {
                viol(ctx, "binary", "wrong-result", e);
            }
        }
    }
    // try_binary
    let any_fail = (0..n).any(|i| both[i] && f_try(li(i), ri(i) as i64).is_err());
    let want_try: Vec<Option<i64>> = (0..n).map(|i| if both[i] { f_try(li(i), ri(i) as i64).ok() } else { None }).collect();
    let calls = StdCell::new(0usize);
    let out = run_op(|| {
        arity::try_binary::<_, _, _, Int64Type>(l, r, |a, b| {
            calls.set(calls.get() + 1);
            f_try(a, b)
        })
    });
    let nboth = both.iter().filter(|b| **b).count();
    match out {
        Outcome::Panic(p) => ctx.panic_violation("arity|try_binary", &p, wit()),
        Outcome::Err(e) => {
            if !any_fail {
                viol(ctx, "try_binary", "spurious-err", format!("failing pairs exist only under nulls, got Err({e})"));
            }
        }
        Outcome::Ok(a) => {
            if any_fail {
                viol(ctx, "try_binary", "missing-err", "a valid pair fails in the closure but the call returned Ok".into());
            } else {
                if let Err(e) = expect_rows(&extract(&a), &want_try) {
                    viol(ctx, "try_binary", "wrong-result", e);
                }
                if calls.get() != nboth {
                    viol(ctx, "try_binary", "closure-on-null", format!("closure evaluated {} times for {} valid pairs", calls.get(), nboth));
                }
            }
        }
    }
    // length mismatch is an error
    if n > 0 {
        let shorter = r.slice(0, n - 1);
        if let Outcome::Ok(a) = run_op(|| arity::binary::<Int32Type, Int64Type, _, Int64Type>(l, &shorter, f_bin)) {
            viol(ctx, "binary", "length-mismatch-accepted", format!("lengths {n} and {} accepted ({} rows)", n - 1, a.len()));
        }
        if let Outcome::Ok(a) = run_op(|| arity::try_binary::<_, _, _, Int64Type>(l, &shorter, f_try)) {
            viol(ctx, "try_binary", "length-mismatch-accepted", format!("lengths {n} and {} accepted ({} rows)", n - 1, a.len()));
        }
    }
    ctx.count("arity_calls", 6);
    ctx.class(format!("arity|prim|{}|{}", if mask { "masked" } else { "raw" }, if any_fail { "fail" } else { "ok" }));

    // encoded accessor on the left: logical nulls of dictionary / run-end arrays
    if n > 0 && n <= 100 {
        let lvals: Vec<Val> = (0..n).map(|i| if lv[i] { lp[i].clone() } else { Val::Null }).collect();
        let use_dict = rng.bool();
        let enc_dt = if use_dict {
            DataType::Dictionary(Box::new(rng.pick(&[DataType::Int8, DataType::Int32, DataType::UInt16]).clone()), Box::new(DataType::Int32))
        } else {
            DataType::RunEndEncoded(
                Arc::new(Field::new("run_ends", rng.pick(&[DataType::Int16, DataType::Int32, DataType::Int64]).clone(), false)),
                Arc::new(Field::new("values", DataType::Int32, true)),
            )
        };
        let ea = build::realise(rng, &enc_dt, &lvals);
        let calls = StdCell::new(0usize);
        let out = run_op(|| {
            let f = |a: i32, b: i64| {
                calls.set(calls.get() + 1);
                f_try(a, b)
            };
            match &enc_dt {
                DataType::Dictionary(k, _) => match k.as_ref() {
                    DataType::Int8 => arity::try_binary::<_, _, _, Int64Type>(ea.as_dictionary::<Int8Type>().downcast_dict::<Int32Array>().unwrap(), r, f),
                    DataType::Int32 => arity::try_binary::<_, _, _, Int64Type>(ea.as_dictionary::<Int32Type>().downcast_dict::<Int32Array>().unwrap(), r, f),
                    _ => arity::try_binary::<_, _, _, Int64Type>(ea.as_dictionary::<UInt16Type>().downcast_dict::<Int32Array>().unwrap(), r, f),
                },
                DataType::RunEndEncoded(re, _) => match re.data_type() {
                    DataType::Int16 => arity::try_binary::<_, _, _, Int64Type>(ea.as_run::<Int16Type>().downcast::<Int32Array>().unwrap(), r, f),
                    DataType::Int32 => arity::try_binary::<_, _, _, Int64Type>(ea.as_run::<Int32Type>().downcast::<Int32Array>().unwrap(), r, f),
                    _ => arity::try_binary::<_, _, _, Int64Type>(ea.as_run::<Int64Type>().downcast::<Int32Array>().unwrap(), r, f),
                },
                _ => unreachable!(),
            }
        });
        let what = if use_dict { "try_binary(dictionary)" } else { "try_binary(run-end)" };
        ctx.count("arity_calls", 1);
        match out {
            Outcome::Panic(p) => ctx.panic_violation(&format!("arity|{what}"), &p, format!("{enc_dt}\n{}", wit())),
            Outcome::Err(e) => {
                if !any_fail {
                    viol(ctx, what, "spurious-err", format!("{enc_dt}: failing pairs exist only under (logical) nulls, got Err({e})"));
                }
            }
            Outcome::Ok(a) => {
                if any_fail {
                    viol(ctx, what, "missing-err", format!("{enc_dt}: a valid pair fails but the call returned Ok"));
                } else if let Err(e) = expect_rows(&extract(&a), &want_try) {
                    viol(ctx, what, "wrong-result", format!("{enc_dt}: {e}"));
                } else if calls.get() != nboth {
                    viol(ctx, what, "closure-on-null", format!("{enc_dt}: closure evaluated {} times for {} valid pairs", calls.get(), nboth));
                }
            }
        }
        ctx.class(format!("arity|{}|{}", if use_dict { "dict" } else { "ree" }, if any_fail { "fail" } else { "ok" }));
    }

    // _mut forms on freshly built (unshared) arrays must succeed in place and
    // agree; on shared arrays they must hand the untouched array back
    let fresh_l = || PrimitiveArray::<Int64Type>::from((0..n).map(|i| if lv[i] { Some(li(i) as i64) } else { None }).collect::<Vec<_>>());
    let fresh_r = PrimitiveArray::<Int64Type>::from((0..n).map(|i| if rv[i] { Some(ri(i) as i64) } else { None }).collect::<Vec<_>>());
    let g_un = |x: i64| x.wrapping_mul(5).wrapping_sub(2);
    let g_bin = |a: i64, b: i64| a.wrapping_sub(b);
    let g_try = |a: i64, b: i64| if b == 0 { Err(ArrowError::DivideByZero) } else { Ok(a.wrapping_div(b)) };
    let r2 = guard(|| {
        let mut bad: Vec<(&'static str, String)> = Vec::new();
        // unary_mut
        match arity::unary_mut(fresh_l(), g_un) {
            Ok(a) => {
                let want: Vec<Option<i64>> = (0..n).map(|i| if lv[i] { Some(g_un(li(i) as i64)) } else { None }).collect();
                if let Err(e) = expect_rows(&extract(&a), &want) {
                    bad.push(("unary_mut|wrong-result", e));
                }
            }
            Err(_) => bad.push(("unary_mut|unshared-rejected", "an unshared array was not mutated in place".into())),
        }
        let a = fresh_l();
        let keep = a.clone();
        match arity::unary_mut(a, g_un) {
            Ok(_) if n > 0 => bad.push(("unary_mut|shared-mutated", "a shared array was accepted for in-place mutation".into())),
            Ok(_) => {}
            Err(back) => {
                if back != keep {
                    bad.push(("unary_mut|shared-changed", "the array handed back differs from the input".into()));
                }
            }
        }
        // binary_mut
        match arity::binary_mut(fresh_l(), &fresh_r, g_bin) {
            Ok(Ok(a)) => {
                let want: Vec<Option<i64>> = (0..n).map(|i| if both[i] { Some(g_bin(li(i) as i64, ri(i) as i64)) } else { None }).collect();
                if let Err(e) = expect_rows(&extract(&a), &want) {
                    bad.push(("binary_mut|wrong-result", e));
                }
            }
            Ok(Err(e)) => bad.push(("binary_mut|spurious-err", e.to_string())),
            Err(_) => bad.push(("binary_mut|unshared-rejected", "an unshared array was not mutated in place".into())),
        }
        // try_binary_mut
        let any_zero = (0..n).any(|i| both[i] && ri(i) == 0);
        match arity::try_binary_mut(fresh_l(), &fresh_r, g_try) {
            Ok(Ok(a)) => {
                if any_zero {
                    bad.push(("try_binary_mut|missing-err", "a valid pair divides by zero but the call returned Ok".into()));
                } else {
                    let want: Vec<Option<i64>> = (0..n).map(|i| if both[i] { Some(g_try(li(i) as i64, ri(i) as i64).unwrap()) } else { None }).collect();
                    if let Err(e) = expect_rows(&extract(&a), &want) {
                        bad.push(("try_binary_mut|wrong-result", e));
                    }
                }
            }
            Ok(Err(e)) => {
                if !any_zero {
                    bad.push(("try_binary_mut|spurious-err", format!("zero divisors exist only under nulls, got Err({e})")));
                }
            }
            Err(_) => bad.push(("try_binary_mut|unshared-rejected", "an unshared array was not mutated in place".into())),
        }
        // try_unary_mut
        let poison = (0..n).any(|i| lv[i] && li(i) == POISON);
        match arity::try_unary_mut(fresh_l(), |x| if x == POISON as i64 { Err(ArrowError::ComputeError("poison".into())) } else { Ok(g_un(x)) }) {
            Ok(Ok(a)) => {
                if poison {
                    bad.push(("try_unary_mut|missing-err", "a valid row fails but the call returned Ok".into()));
                } else {
                    let want: Vec<Option<i64>> = (0..n).map(|i| if lv[i] { Some(g_un(li(i) as i64)) } else { None }).collect();
                    if let Err(e) = expect_rows(&extract(&a), &want) {
                        bad.push(("try_unary_mut|wrong-result", e));
                    }
                }
            }
            Ok(Err(e)) => {
                if !poison {
                    bad.push(("try_unary_mut|spurious-err", format!("the poison value exists only under nulls, got Err({e})")));
                }
            }
            Err(_) => bad.push(("try_unary_mut|unshared-rejected", "an unshared array was not mutated in place".into())),
        }
        bad
    });
    ctx.count("arity_calls", 5);
    match r2 {
        Ok(bad) => {
            for (k, d) in bad {
                ctx.violation(&format!("C12|arity|{k}"), format!("{d}\n{}", wit()));
            }
        }
        Err(p) => {
            if p.is_model() {
                ctx.inconclusive(&format!("model panic in arity mut forms: {} @ {}", p.msg, p.loc));
            } else {
                ctx.violation(&format!("C12|arity|mut|panic|{}|{}", p.file(), strip_digits(&p.msg)), format!("panic {} @ {}\n{}", p.msg, p.loc, wit()));
            }
        }
    }
}

pub fn run(ctx: &mut Ctx) {
    let total = ctx.tier.pick(30, 96_000, 1_000_000);
    let cap = super::Cap::new(ctx, 3);
    for i in ctx.cases("arity", total) {
        if ctx.out_of_time() || cap.over() {
            break;
        }
        let mut rng = ctx.begin("arity", i);
        super::guarded(ctx, "arity", |ctx| arity_case(ctx, &mut rng));
    }
}

// ---------------------------------------------------------------- fixed point

fn round_half_away(p: &BigInt, div: &BigInt) -> BigInt {
    // div > 0
    let q = p / div;
    let r = p % div;
    let twice: BigInt = &r * 2;
    if twice.abs() >= *div {
        if p.is_negative() { q - 1 } else { q + 1 }
    } else {
        q
    }
}

fn fixed_point_case(ctx: &mut Ctx, rng: &mut Rng) {
    #[allow(deprecated)]
    use arrow_arith::arithmetic as fp;
    let gen_t = |rng: &mut Rng| {
        let p = 1 + rng.below(38) as u8;
        let s = if rng.chance(1, 6) { -(rng.below(10) as i8) } else { rng.below(p as usize + 1) as i8 };
        (p, s)
    };
    let (p1, s1) = gen_t(rng);
    let (p2, s2) = gen_t(rng);
    let (lt, rt) = (DataType::Decimal128(p1, s1), DataType::Decimal128(p2, s2));
    let ps = s1 as i32 + s2 as i32;
    let req: i32 = match rng.below(8) {
        0 => ps + 1 + rng.below(3) as i32, // greater than the product scale: documented error
        1 => ps,
        2 => ps - 1,
        _ => ps - rng.below(40.min((ps + 60).max(1) as usize)) as i32,
    };
    let req = req.clamp(-60, 76);
    let k = ps - req;
    let n = rng.len_biased(70);
    let ph = Phys { bits: 128, signed: true };
    let lp: Vec<Val> = (0..n).map(|_| gen_operand(rng, &lt)).collect();
    let rp: Vec<Val> = (0..n)
        .map(|i| {
            if rng.chance(1, 3) {
                // product next to the i128 boundary after rescaling
                let a = model::val_big(&lp[i]);
                if a.is_negative() || num_traits::Zero::is_zero(&a) {
                    gen_operand(rng, &rt)
                } else {
                    let target = ph.max() * model::pow10(k.max(0) as u32);
                    Val::Int(super::clamp_phys(ph, &target / &a + rng.range(-2, 2)).to_i128().unwrap())
                }
            } else if rng.chance(1, 8) {
                Val::Int(gen_phys(rng, ph).to_i128().unwrap())
            } else {
                gen_operand(rng, &rt)
            }
        })
        .collect();
    let lv: Vec<bool> = (0..n).map(|_| !rng.chance(1, 6)).collect();
    let rv: Vec<bool> = (0..n).map(|_| !rng.chance(1, 6)).collect();
    let la = bait_array(rng, &lt, &lp, &lv);
    let ra = bait_array(rng, &rt, &rp, &rv);
    let (l, r) = (la.as_primitive::<Decimal128Type>(), ra.as_primitive::<Decimal128Type>());
    let precision = (p1 as i32 + p2 as i32 + 1).min(38);
    let rejected = k < 0 || !model::dec_valid(128, precision, req) || k > 76;
    let exact: Vec<Option<BigInt>> = (0..n)
        .map(|i| {
            if lv[i] && rv[i] && !rejected {
                Some(round_half_away(&(model::val_big(&lp[i]) * model::val_big(&rp[i])), &model::pow10(k as u32)))
            } else {
                None
            }
        })
        .collect();
    let wit = || format!("{lt} x {rt} required scale {req}: lhs {} valid {} rhs {} valid {}", dump_vals(&lp), short_bits(&lv), dump_vals(&rp), short_bits(&rv));
    ctx.eval();
    ctx.count("fixedp_calls", 3);
    #[allow(deprecated)]
    let calls: [(&str, bool, Outcome<ArrayRef>); 3] = [
        ("multiply_fixed_point_checked", true, run_op(|| fp::multiply_fixed_point_checked(l, r, req as i8).map(|a| Arc::new(a) as ArrayRef))),
        ("multiply_fixed_point", false, run_op(|| fp::multiply_fixed_point(l, r, req as i8).map(|a| Arc::new(a) as ArrayRef))),
        ("multiply_fixed_point_dyn", false, run_op(|| fp::multiply_fixed_point_dyn(la.as_ref(), ra.as_ref(), req as i8))),
    ];
    for (name, checked, out) in calls {
        let sigf = |kind: &str| format!("C12|fixedp|{name}|{kind}");
        match out {
            Outcome::Panic(p) => ctx.panic_violation(&format!("fixedp|{name}"), &p, wit()),
            Outcome::Err(e) => {
                if rejected {
                    ctx.reject();
                    continue;
                }
                let overflow = exact.iter().flatten().any(|x| !ph.fits(x));
                if !(checked && overflow) {
                    ctx.violation(&sigf("spurious-err"), format!("Err({e})\n{}", wit()));
                }
            }
            Outcome::Ok(a) => {
                if rejected {
                    if k < 0 {
                        ctx.violation(&sigf("scale-rule-ignored"), format!("required scale above the product scale accepted\n{}", wit()));
                    } else {
                        ctx.inconclusive(&format!("fixed point: model rejected the result type ({precision}, {req}) but the kernel accepted"));
                    }
                    continue;
                }
                let want_dt = DataType::Decimal128(precision as u8, req as i8);
                if a.data_type() != &want_dt {
                    ctx.violation(&sigf("wrong-type"), format!("type {} expected {want_dt}\n{}", a.data_type(), wit()));
                    continue;
                }
                let got = extract(&a);
                let mut ok = true;
                for i in 0..n {
                    let want = match &exact[i] {
                        None => Val::Null,
                        Some(x) => {
                            if ph.fits(x) {
                                Val::Int(x.to_i128().unwrap())
                            } else if checked {
                                ctx.violation(&sigf("missing-err"), format!("row {i}: exact {x} does not fit i128 but the checked kernel returned Ok({:?})\n{}", got[i], wit()));
                                ok = false;
                                break;
                            } else {
                                // documented: the unchecked form wraps
                                Val::Int(ph.wrap(x).to_i128().unwrap())
                            }
                        }
                    };
                    if got.get(i) != Some(&want) {
                        ctx.violation(&sigf(if want.is_null() || got[i].is_null() { "wrong-null" } else { "wrong-value" }), format!("row {i}: expected {want:?} got {:?}\n{}", got.get(i), wit()));
                        ok = false;
                        break;
                    }
                }
                if ok && n > 0 {
                    ctx.class(format!("fixedp|{name}|k{}|{}", if k == 0 { "0" } else if k < 20 { "small" } else { "large" }, if s1 < 0 || s2 < 0 || req < 0 { "neg" } else { "pos" }));
                }
            }
        }
    }
}

pub fn run_fixed_point(ctx: &mut Ctx) {
    let total = ctx.tier.pick(20, 80_000, 800_000);
    let cap = super::Cap::new(ctx, 2);
    for i in ctx.cases("fixedp", total) {
        if ctx.out_of_time() || cap.over() {
            break;
        }
        let mut rng = ctx.begin("fixedp", i);
        super::guarded(ctx, "fixedp", |ctx| fixed_point_case(ctx, &mut rng));
    }
}
