//! `i256` methods and `ArrowNativeTypeOp` implementations of every native type
//! against `num-bigint` (field-wise for the interval structs).

use super::agg::{NatVal, cmp_vals, fields, unfields};
use super::model::{self, Base, Phys};
use super::{gen_operand, gen_phys};
use crate::mon::{Ctx, guard};
use crate::rng::Rng;
use crate::val::Val;
use arrow_array::ArrowNativeTypeOp;
use arrow_buffer::{IntervalDayTime, IntervalMonthDayNano, i256};
#[allow(unused_imports)]
use num_traits::Pow;
use arrow_schema::{DataType, IntervalUnit};
use num_bigint::BigInt;
use num_traits::{Signed, ToPrimitive, Zero};

const P256: Phys = Phys { bits: 256, signed: true };

fn gen256(rng: &mut Rng) -> BigInt {
    match rng.below(6) {
        // values that fit narrower types (conversion boundaries)
        0 => gen_phys(rng, Phys { bits: 64, signed: true }),
        1 => gen_phys(rng, Phys { bits: 128, signed: true }),
        2 => gen_phys(rng, Phys { bits: 64, signed: false }),
        _ => gen_phys(rng, P256),
    }
}

fn partner256(rng: &mut Rng, a: &BigInt) -> BigInt {
    let bound = if rng.bool() { P256.max() } else { P256.min() };
    let d = rng.range(-2, 2);
    let v: BigInt = match rng.below(10) {
        0 => &bound - a + d,
        1 => a - &bound + d,
        2 => {
            if a.is_zero() {
                bound
            } else {
                &bound / a + d
            }
        }
        3 => BigInt::zero(),
        4 => BigInt::from(-1),
        5 => a.clone() + d,
        6 => -a.clone(),
        7 => {
            // divisors with few / many limbs
            let k = *rng.pick(&[1u32, 31, 32, 63, 64, 65, 127, 128, 129, 191, 192, 193, 254]);
            model::pow2(k) + rng.range(-1, 1)
        }
        _ => gen256(rng),
    };
    super::clamp_phys(P256, v)
}

fn to256(b: &BigInt) -> i256 {
    model::i256_from_big(b).expect("model: i256 range")
}

fn exact_f64_trunc(x: f64) -> Option<BigInt> {
    // exact integer part (toward zero) of a finite f64
    if !x.is_finite() {
        return None;
    }
    let bits = x.to_bits();
    let neg = bits >> 63 == 1;
    let e = ((bits >> 52) & 0x7FF) as i32;
    let m = bits & ((1u64 << 52) - 1);
    let (mant, exp) = if e == 0 { (m, -1074) } else { (m | (1u64 << 52), e - 1075) };
    let mut v = BigInt::from(mant);
    if exp >= 0 {
        v <<= exp as u32;
    } else if -exp >= 64 {
        v = BigInt::zero();
    } else {
        v >>= (-exp) as u32;
    }
    Some(if neg { -v } else { v })
}

/// all i256 checks for one operand pair; returns (method, detail) mismatches
fn check_pair(a: &BigInt, b: &BigInt, rng: &mut Rng) -> Vec<(&'static str, String)> {
    let mut bad: Vec<(&'static str, String)> = Vec::new();
    let (x, y) = (to256(a), to256(b));
    let mut opt = |name: &'static str, got: Option<i256>, exact: Option<BigInt>, lenient: bool| {
        let want = exact.as_ref().and_then(|e| if P256.fits(e) { Some(to256(e)) } else { None });
        match (got, want) {
            (Some(g), Some(w)) if g == w => {}
            (None, None) => {}
            (None, Some(_)) if lenient => {}
            (g, w) => bad.push((name, format!("({a}, {b}): got {g:?} expected {w:?}"))),
        }
    };
    opt("checked_add", x.checked_add(y), Some(a + b), false);
    opt("checked_sub", x.checked_sub(y), Some(a - b), false);
    opt("checked_mul", x.checked_mul(y), Some(if model::broken("i256-mul") && a.bits() > 130 && b.bits() > 70 { a * b + 1 } else { a * b }), false);
    opt("checked_div", x.checked_div(y), if b.is_zero() { None } else { Some(a / b) }, false);
    // not asserted: MIN % -1 (reported as overflow like std's checked_rem although 0 is representable)
    let min_m1 = *a == P256.min() && *b == BigInt::from(-1);
    opt("checked_rem", x.checked_rem(y), if b.is_zero() { None } else { Some(a % b) }, min_m1);
    opt("checked_neg", x.checked_neg(), Some(-a), false);
    opt("checked_abs", x.checked_abs(), Some(a.abs()), false);
    let mut wr = |name: &'static str, got: i256, exact: BigInt| {
        let w = to256(&P256.wrap(&exact));
        if got != w {
            bad.push((name, format!("({a}, {b}): got {got} expected {w}")));
        }
    };
    wr("wrapping_add", x.wrapping_add(y), a + b);
    wr("wrapping_sub", x.wrapping_sub(y), a - b);
    wr("wrapping_mul", x.wrapping_mul(y), a * b);
    wr("wrapping_neg", x.wrapping_neg(), -a);
    wr("wrapping_abs", x.wrapping_abs(), a.abs());
    if !b.is_zero() {
        wr("wrapping_div", x.wrapping_div(y), a / b);
        wr("wrapping_rem", x.wrapping_rem(y), a % b);
    }
    let (s, o) = x.overflowing_add(y);
    if s != to256(&P256.wrap(&(a + b))) || o != !P256.fits(&(a + b)) {
        bad.push(("overflowing_add", format!("({a}, {b}): got ({s}, {o})")));
    }
    let (s, o) = x.overflowing_sub(y);
    if s != to256(&P256.wrap(&(a - b))) || o != !P256.fits(&(a - b)) {
        bad.push(("overflowing_sub", format!("({a}, {b}): got ({s}, {o})")));
    }
    // powers
    let e = *rng.pick(&[0u32, 1, 2, 3, 4, 5, 7, 8, 15, 16, 31, 63, 64, 76, 77, 127, 255, 256]);
    let base = if rng.bool() { BigInt::from(rng.range(-11, 11)) } else { a.clone() };
    let bx = to256(&base);
    if base.bits() * (e as u64) < 4096 {
        let p = num_traits::Pow::pow(&base, e);
        let want = if P256.fits(&p) { Some(to256(&p)) } else { None };
        if bx.checked_pow(e) != want {
            bad.push(("checked_pow", format!("{base}^{e}: got {:?} expected {want:?}", bx.checked_pow(e))));
        }
        if bx.wrapping_pow(e) != to256(&P256.wrap(&p)) {
            bad.push(("wrapping_pow", format!("{base}^{e}: got {}", bx.wrapping_pow(e))));
        }
    }
    // order, sign
    if x.cmp(&y) != a.cmp(b) {
        bad.push(("cmp", format!("({a}, {b})")));
    }
    if x.is_negative() != a.is_negative() || x.is_positive() != a.is_positive() {
        bad.push(("is_negative/is_positive", format!("{a}")));
    }
    let sg = if a.is_zero() { 0 } else if a.is_negative() { -1 } else { 1 };
    if x.signum() != i256::from_i128(sg) {
        bad.push(("signum", format!("{a}")));
    }
    // conversions: exact or None
    let fits_bits = |bits: u32, signed: bool| Phys { bits, signed }.fits(a);
    if x.to_i128() != if fits_bits(128, true) { a.to_i128() } else { None } {
        bad.push(("to_i128", format!("{a}: got {:?}", x.to_i128())));
    }
    if x.as_i128() != (Phys { bits: 128, signed: true }).wrap(a).to_i128().unwrap() {
        bad.push(("as_i128", format!("{a}: got {}", x.as_i128())));
    }
    let g = ToPrimitive::to_i64(&x);
    if g != if fits_bits(64, true) { a.to_i64() } else { None } {
        bad.push(("to_i64", format!("{a}: got {g:?}")));
    }
    let g = ToPrimitive::to_u64(&x);
    if g != if fits_bits(64, false) { a.to_u64() } else { None } {
        bad.push(("to_u64", format!("{a}: got {g:?}")));
    }
    let g = arrow_buffer::ArrowNativeType::to_i64(x);
    if g != if fits_bits(64, true) { a.to_i64() } else { None } {
        bad.push(("ArrowNativeType::to_i64", format!("{a}: got {g:?}")));
    }
    let g = arrow_buffer::ArrowNativeType::to_usize(x);
    if g != if fits_bits(64, false) { a.to_usize() } else { None } {
        bad.push(("ArrowNativeType::to_usize", format!("{a}: got {g:?}")));
    }
    if let Some(v) = a.to_i128() {
        if i256::from_i128(v) != x {
            bad.push(("from_i128", format!("{a}")));
        }
    }
    let (lo, hi) = x.to_parts();
    if BigInt::from(hi) * model::pow2(128) + BigInt::from(lo) != *a || i256::from_parts(lo, hi) != x {
        bad.push(("to_parts/from_parts", format!("{a}")));
    }
    // text and bytes
    let s = x.to_string();
    if s != a.to_string() {
        bad.push(("to_string", format!("{a}: got {s}")));
    }
    match s.parse::<i256>() {
        Ok(v) if v == x => {}
        other => bad.push(("from_str", format!("{a}: got {other:?}"))),
    }
    if i256::from_string(&a.to_string()) != Some(x) {
        bad.push(("from_string", format!("{a}")));
    }
    let le = x.to_le_bytes();
    let mut be = le;
    be.reverse();
    if x.to_be_bytes() != be || i256::from_le_bytes(le) != x || i256::from_be_bytes(be) != x || model::big_i256(x) != *a {
        bad.push(("bytes", format!("{a}")));
    }
    // bit operations on the two's complement representation
    let ua = if a.is_negative() { a + model::pow2(256) } else { a.clone() };
    let ub = if b.is_negative() { b + model::pow2(256) } else { b.clone() };
    let from_u = |u: BigInt| to256(&P256.wrap(&u));
    if (x & y) != from_u(&ua & &ub) || (x | y) != from_u(&ua | &ub) || (x ^ y) != from_u(&ua ^ &ub) {
        bad.push(("bitand/bitor/bitxor", format!("({a}, {b})")));
    }
    if !x != from_u(model::pow2(256) - 1 - &ua) {
        bad.push(("not", format!("{a}")));
    }
    let lz = 256 - ua.bits() as u32;
    if x.leading_zeros() != lz {
        bad.push(("leading_zeros", format!("{a}: got {} expected {lz}", x.leading_zeros())));
    }
    let tz = if ua.is_zero() { 256 } else { ua.trailing_zeros().unwrap() as u32 };
    if x.trailing_zeros() != tz {
        bad.push(("trailing_zeros", format!("{a}: got {} expected {tz}", x.trailing_zeros())));
    }
    let sh = rng.below(256) as u8;
    if (x << sh) != from_u(&ua << sh as u32) {
        bad.push(("shl", format!("{a} << {sh}: got {}", x << sh)));
    }
    // arithmetic shift right = floor division by 2^sh
    if (x >> sh) != to256(&model::bfloor_div(a, &model::pow2(sh as u32))) {
        bad.push(("shr", format!("{a} >> {sh}: got {}", x >> sh)));
    }
    // logarithms
    if a.is_positive() {
        let l10 = a.to_string().len() as u32 - 1;
        if x.checked_ilog10() != Some(l10) {
            bad.push(("checked_ilog10", format!("{a}: got {:?} expected {l10}", x.checked_ilog10())));
        }
        let l2 = a.bits() as u32 - 1;
        if x.checked_ilog2() != Some(l2) {
            bad.push(("checked_ilog2", format!("{a}: got {:?} expected {l2}", x.checked_ilog2())));
        }
        let base = *rng.pick(&[3i128, 7, 10, 16, 1000, i64::MAX as i128]);
        let mut k = 0u32;
        let mut p = BigInt::from(base);
        while p <= *a {
            p *= base;
            k += 1;
        }
        if x.checked_ilog(i256::from_i128(base)) != Some(k) {
            bad.push(("checked_ilog", format!("log_{base}({a}): got {:?} expected {k}", x.checked_ilog(i256::from_i128(base)))));
        }
    } else if x.checked_ilog10().is_some() || x.checked_ilog2().is_some() {
        bad.push(("checked_ilog", format!("{a}: logarithm of a non-positive value")));
    }
    // from_f64: the integer part when representable
    let f = match rng.below(4) {
        0 => a.to_f64().unwrap_or(0.0),
        1 => f64::from_bits(rng.u64()),
        2 => *rng.pick(&[0.0, -0.0, 0.5, -0.99, 5.7896044618658097711785492504343953926634992332820282019728792003956564819968e76, -5.7896044618658097711785492504343953926634992332820282019728792003956564819968e76, 5.789604461865809e76, 1e77, f64::NAN, f64::INFINITY, 9007199254740993.0, 1.8446744073709552e19]),
        _ => rng.range(-1_000_000, 1_000_000) as f64 / 8.0,
    };
    let want = exact_f64_trunc(f).and_then(|v| if P256.fits(&v) { Some(to256(&v)) } else { None });
    if i256::from_f64(f) != want {
        bad.push(("from_f64", format!("{f:e}: got {:?} expected {want:?}", i256::from_f64(f))));
    }
    // the ArrowNativeTypeOp view
    let mut res = |name: &'static str, got: Result<i256, arrow_schema::ArrowError>, exact: Option<BigInt>, lenient: bool| {
        let want = exact.as_ref().and_then(|e| if P256.fits(e) { Some(to256(e)) } else { None });
        match (got.ok(), want) {
            (Some(g), Some(w)) if g == w => {}
            (None, None) => {}
            (None, Some(_)) if lenient => {}
            (g, w) => bad.push((name, format!("({a}, {b}): got {g:?} expected {w:?}"))),
        }
    };
    res("add_checked", x.add_checked(y), Some(a + b), false);
    res("sub_checked", x.sub_checked(y), Some(a - b), false);
    res("mul_checked", x.mul_checked(y), Some(a * b), false);
    res("div_checked", x.div_checked(y), if b.is_zero() { None } else { Some(a / b) }, false);
    res("mod_checked", x.mod_checked(y), if b.is_zero() { None } else { Some(a % b) }, min_m1);
    res("neg_checked", x.neg_checked(), Some(-a), false);
    bad
}

pub fn run_i256(ctx: &mut Ctx) {
    let total = ctx.tier.pick(40, 240_000, 3_000_000);
    let cap = super::Cap::new(ctx, 4);
    for i in ctx.cases("big", total) {
        if ctx.out_of_time() || cap.over() {
            break;
        }
        let mut rng = ctx.begin("big", i);
        let mut pairs = 0;
        super::guarded(ctx, "big", |ctx| {
        for _ in 0..12 {
            let a = gen256(&mut rng);
            let b = if rng.chance(1, 2) { partner256(&mut rng, &a) } else { gen256(&mut rng) };
            pairs += 1;
            let mut r2 = rng.fork();
            match guard(|| check_pair(&a, &b, &mut r2)) {
                Ok(bad) => {
                    for (m, d) in bad {
                        ctx.violation(&format!("C12|big|i256::{m}|wrong-result"), d);
                    }
                }
                Err(p) => ctx.panic_violation("big|i256", &p, format!("operands ({a}, {b})")),
            }
            let cls = |v: &BigInt| {
                if v.is_zero() {
                    "0"
                } else if *v == P256.min() {
                    "min"
                } else if *v == P256.max() {
                    "max"
                } else if v.bits() <= 64 {
                    "w64"
                } else if v.bits() <= 128 {
                    "w128"
                } else if v.bits() <= 192 {
                    "w192"
                } else {
                    "w256"
                }
            };
            ctx.class(format!("big|{}{}|{}{}", if a.is_negative() { "-" } else { "+" }, cls(&a), if b.is_negative() { "-" } else { "+" }, cls(&b)));
        }
        });
        ctx.eval();
        ctx.count("i256_pairs", pairs);
    }
}

// ---------------------------------------------------------------- ArrowNativeTypeOp

/// integer / interval natives: field-wise exact model
fn native_int_pair<N: ArrowNativeTypeOp + NatVal>(ctx: &mut Ctx, name: &str, dt: &DataType, a: &Val, b: &Val, exp: u32) {
    let (x, y) = (N::from_val(a), N::from_val(b));
    let fa = fields(dt, a);
    let fb = fields(dt, b);
    // (exact per field or None for a zero divisor)
    let exact = |base: Base| -> Vec<Option<BigInt>> { fa.iter().zip(&fb).map(|((p, _), (q, _))| model::exact_int(base, p, q)).collect() };
    let phys: Vec<Phys> = fa.iter().map(|f| f.1).collect();
    let checked = |e: &[Option<BigInt>]| -> Option<Val> {
        let mut out = Vec::new();
        for (v, ph) in e.iter().zip(&phys) {
            match v {
                Some(v) if ph.fits(v) => out.push(v.clone()),
                _ => return None,
            }
        }
        Some(unfields(dt, a, &out))
    };
    let wrapped = |e: &[Option<BigInt>]| -> Option<Val> {
        let mut out = Vec::new();
        for (v, ph) in e.iter().zip(&phys) {
            out.push(ph.wrap(v.as_ref()?));
        }
        Some(unfields(dt, a, &out))
    };
    let fam = model::fam_name(dt);
    let r = guard(|| {
        let mut bad: Vec<(&'static str, String)> = Vec::new();
        let mut chk = |m: &'static str, got: Result<N, arrow_schema::ArrowError>, want: Option<Val>, lenient: bool| match (got.ok().map(|g| g.to_val()), want) {
            (Some(g), Some(w)) if g == w => {}
            (None, None) => {}
            (None, Some(_)) if lenient => {}
            (g, w) => bad.push((m, format!("({a:?}, {b:?}): got {g:?} expected {w:?}"))),
        };
        chk("add_checked", x.add_checked(y), checked(&exact(Base::Add)), false);
        chk("sub_checked", x.sub_checked(y), checked(&exact(Base::Sub)), false);
        chk("mul_checked", x.mul_checked(y), checked(&exact(Base::Mul)), false);
        chk("div_checked", x.div_checked(y), checked(&exact(Base::Div)), false);
        // not asserted: MIN % -1 in a field (std's checked_rem convention)
        let min_m1 = fa.iter().zip(&fb).any(|((p, ph), (q, _))| *p == ph.min() && *q == BigInt::from(-1));
        chk("mod_checked", x.mod_checked(y), checked(&exact(Base::Rem)), min_m1);
        let neg: Vec<Option<BigInt>> = fa.iter().map(|(p, _)| Some(-p)).collect();
        chk("neg_checked", x.neg_checked(), checked(&neg), false);
        let pw: Vec<Option<BigInt>> = fa.iter().map(|(p, _)| Some(num_traits::Pow::pow(p, exp))).collect();
        chk("pow_checked", x.pow_checked(exp), checked(&pw), false);
        let mut w = |m: &'static str, got: N, want: Option<Val>| {
            if let Some(w) = want {
                if got.to_val() != w {
                    bad.push((m, format!("({a:?}, {b:?}): got {:?} expected {w:?}", got.to_val())));
                }
            }
        };
        w("add_wrapping", x.add_wrapping(y), wrapped(&exact(Base::Add)));
        w("sub_wrapping", x.sub_wrapping(y), wrapped(&exact(Base::Sub)));
        w("mul_wrapping", x.mul_wrapping(y), wrapped(&exact(Base::Mul)));
        w("neg_wrapping", x.neg_wrapping(), wrapped(&neg));
        w("pow_wrapping", x.pow_wrapping(exp), wrapped(&pw));
        if fb.iter().all(|(q, _)| !q.is_zero()) {
            // documented: div_wrapping / mod_wrapping panic for a zero divisor
            w("div_wrapping", x.div_wrapping(y), wrapped(&exact(Base::Div)));
            w("mod_wrapping", x.mod_wrapping(y), wrapped(&exact(Base::Rem)));
        }
        let c = cmp_vals(a, b);
        if x.compare(y) != c || x.is_eq(y) != c.is_eq() || x.is_ne(y) != c.is_ne() || x.is_lt(y) != c.is_lt() || x.is_le(y) != c.is_le() || x.is_gt(y) != c.is_gt() || x.is_ge(y) != c.is_ge() {
            bad.push(("compare", format!("({a:?}, {b:?})")));
        }
        if x.is_zero() != fa.iter().all(|(p, _)| p.is_zero()) {
            bad.push(("is_zero", format!("{a:?}")));
        }
        bad
    });
    match r {
        Ok(bad) => {
            for (m, d) in bad {
                ctx.violation(&format!("C12|native|{name}::{m}|{fam}|wrong-result"), d);
            }
        }
        Err(p) => ctx.panic_violation(&format!("native|{name}"), &p, format!("operands ({a:?}, {b:?}) exp {exp}")),
    }
}

fn native_float_pair<N: ArrowNativeTypeOp + NatVal>(ctx: &mut Ctx, name: &str, w: model::FW, a: &Val, b: &Val) {
    let (x, y) = (N::from_val(a), N::from_val(b));
    let r = guard(|| {
        let mut bad: Vec<(&'static str, String)> = Vec::new();
        let eq = |bad: &mut Vec<(&'static str, String)>, m: &'static str, got: Val, want: Val| {
            if !model::val_eq(&got, &want) {
                bad.push((m, format!("({a:?}, {b:?}): got {got:?} expected {want:?}")));
            }
        };
        let y_zero = model::float_to_f64(b) == 0.0;
        eq(&mut bad, "add_wrapping", x.add_wrapping(y).to_val(), model::float_op(w, Base::Add, a, b));
        eq(&mut bad, "sub_wrapping", x.sub_wrapping(y).to_val(), model::float_op(w, Base::Sub, a, b));
        eq(&mut bad, "mul_wrapping", x.mul_wrapping(y).to_val(), model::float_op(w, Base::Mul, a, b));
        eq(&mut bad, "div_wrapping", x.div_wrapping(y).to_val(), model::float_op(w, Base::Div, a, b));
        eq(&mut bad, "mod_wrapping", x.mod_wrapping(y).to_val(), model::float_op(w, Base::Rem, a, b));
        eq(&mut bad, "neg_wrapping", x.neg_wrapping().to_val(), model::float_neg(a));
        for (m, got, base) in [
            ("add_checked", x.add_checked(y), Base::Add),
            ("sub_checked", x.sub_checked(y), Base::Sub),
            ("mul_checked", x.mul_checked(y), Base::Mul),
            ("div_checked", x.div_checked(y), Base::Div),
            ("mod_checked", x.mod_checked(y), Base::Rem),
        ] {
            match got {
                Ok(g) => eq(&mut bad, m, g.to_val(), model::float_op(w, base, a, b)),
                Err(e) => {
                    // not asserted: whether the checked float forms report a zero divisor
                    if !(y_zero && matches!(base, Base::Div | Base::Rem)) {
                        bad.push((m, format!("({a:?}, {b:?}): unexpected Err({e})")));
                    }
                }
            }
        }
        match x.neg_checked() {
            Ok(g) => eq(&mut bad, "neg_checked", g.to_val(), model::float_neg(a)),
            Err(e) => bad.push(("neg_checked", format!("{a:?}: Err({e})"))),
        }
        let c = cmp_vals(a, b);
        if x.compare(y) != c || x.is_eq(y) != (a == b) || x.is_lt(y) != c.is_lt() || x.is_ge(y) != c.is_ge() {
            bad.push(("compare", format!("({a:?}, {b:?}) totalOrder")));
        }
        if x.is_zero() != (model::float_to_f64(a) == 0.0) {
            bad.push(("is_zero", format!("{a:?}")));
        }
        bad
    });
    match r {
        Ok(bad) => {
            for (m, d) in bad {
                ctx.violation(&format!("C12|native|{name}::{m}|float|wrong-result"), d);
            }
        }
        Err(p) => ctx.panic_violation(&format!("native|{name}"), &p, format!("operands ({a:?}, {b:?})")),
    }
}

pub fn run_native(ctx: &mut Ctx) {
    use DataType::*;
    let total = ctx.tier.pick(40, 144_000, 2_000_000);
    // a representative data type per native type (for the physical layout)
    let types: [(&str, DataType); 13] = [
        ("i16", Int16),
        ("i32", Int32),
        ("i64", Int64),
        ("u16", UInt16),
        ("u32", UInt32),
        ("u64", UInt64),
        ("i128", Decimal128(38, 0)),
        ("i256", Decimal256(76, 0)),
        ("IntervalDayTime", Interval(IntervalUnit::DayTime)),
        ("IntervalMonthDayNano", Interval(IntervalUnit::MonthDayNano)),
        ("f16", Float16),
        ("f32", Float32),
        ("f64", Float64),
    ];
    let cap = super::Cap::new(ctx, 3);
    for i in ctx.cases("native", total) {
        if ctx.out_of_time() || cap.over() {
            break;
        }
        let mut rng = ctx.begin("native", i);
        let (name, dt) = &types[rng.below(types.len())];
        super::guarded(ctx, "native", |ctx| {
        for _ in 0..24 {
            // physical-range operands (decimal representatives: ignore the precision)
            let genv = |rng: &mut Rng| -> Val {
                match dt {
                    Decimal128(_, _) | Decimal256(_, _) => model::big_val(dt, &gen_phys(rng, model::phys_of(dt).unwrap())),
                    _ => gen_operand(rng, dt),
                }
            };
            let a = genv(&mut rng);
            let b = if rng.chance(1, 3) {
                match model::phys_of(dt) {
                    Some(ph) => {
                        let base = *rng.pick(&[Base::Add, Base::Sub, Base::Mul, Base::Div]);
                        let bound = if rng.bool() { ph.max() } else { ph.min() };
                        let av = model::val_big(&a);
                        let d = rng.range(-2, 2);
                        let v = match base {
                            Base::Add => &bound - &av + d,
                            Base::Sub => &av - &bound + d,
                            Base::Mul => {
                                if av.is_zero() {
                                    bound
                                } else {
                                    &bound / &av + d
                                }
                            }
                            _ => BigInt::from(*rng.pick(&[0i64, 1, -1, 2, 10])),
                        };
                        model::big_val(dt, &super::clamp_phys(ph, v))
                    }
                    None => genv(&mut rng),
                }
            } else {
                genv(&mut rng)
            };
            let exp = *rng.pick(&[0u32, 1, 2, 3, 5, 8, 16, 31, 64]);
            match *name {
                "i16" => native_int_pair::<i16>(ctx, name, dt, &a, &b, exp),
                "i32" => native_int_pair::<i32>(ctx, name, dt, &a, &b, exp),
                "i64" => native_int_pair::<i64>(ctx, name, dt, &a, &b, exp),
                "u16" => native_int_pair::<u16>(ctx, name, dt, &a, &b, exp),
                "u32" => native_int_pair::<u32>(ctx, name, dt, &a, &b, exp),
                "u64" => native_int_pair::<u64>(ctx, name, dt, &a, &b, exp),
                "i128" => native_int_pair::<i128>(ctx, name, dt, &a, &b, exp),
                "i256" => native_int_pair::<i256>(ctx, name, dt, &a, &b, exp),
                "IntervalDayTime" => native_int_pair::<IntervalDayTime>(ctx, name, dt, &a, &b, exp),
                "IntervalMonthDayNano" => native_int_pair::<IntervalMonthDayNano>(ctx, name, dt, &a, &b, exp),
                "f16" => native_float_pair::<half::f16>(ctx, name, model::FW::F16, &a, &b),
                "f32" => native_float_pair::<f32>(ctx, name, model::FW::F32, &a, &b),
                _ => native_float_pair::<f64>(ctx, name, model::FW::F64, &a, &b),
            }
        }
        });
        ctx.eval();
        ctx.count("native_pairs", 24);
        ctx.class(format!("native|{name}"));
    }
}

// ---------------------------------------------------------------- decimal precision tables

/// `MAX/MIN_DECIMAL*_FOR_EACH_PRECISION[p]` = +-(10^p - 1) and the precision
/// validators agree with them at every boundary (4 cases: one per width).
pub fn run_dectab(ctx: &mut Ctx) {
    use arrow_data::decimal as d;
    for i in ctx.cases("dectab", 4) {
        let _rng = ctx.begin("dectab", i);
        super::guarded(ctx, "dectab", |ctx| {
            let (bits, maxp): (u32, u32) = [(32, 9), (64, 18), (128, 38), (256, 76)][(i % 4) as usize];
            let ph = Phys { bits, signed: true };
            for p in 1..=maxp {
                let want = model::pow10(p) - 1;
                let (tmax, tmin): (BigInt, BigInt) = match bits {
                    32 => (BigInt::from(d::MAX_DECIMAL32_FOR_EACH_PRECISION[p as usize]), BigInt::from(d::MIN_DECIMAL32_FOR_EACH_PRECISION[p as usize])),
                    64 => (BigInt::from(d::MAX_DECIMAL64_FOR_EACH_PRECISION[p as usize]), BigInt::from(d::MIN_DECIMAL64_FOR_EACH_PRECISION[p as usize])),
                    128 => (BigInt::from(d::MAX_DECIMAL128_FOR_EACH_PRECISION[p as usize]), BigInt::from(d::MIN_DECIMAL128_FOR_EACH_PRECISION[p as usize])),
                    _ => (model::big_i256(d::MAX_DECIMAL256_FOR_EACH_PRECISION[p as usize]), model::big_i256(d::MIN_DECIMAL256_FOR_EACH_PRECISION[p as usize])),
                };
                if tmax != want || tmin != -&want {
                    ctx.violation(
                        &format!("C12|dectab|Decimal{bits}|table"),
                        format!("precision {p}: table max {tmax} min {tmin}, expected +-{want}"),
                    );
                }
                // validators at the boundary: |v| <= 10^p - 1
                for (v, ok) in [(want.clone(), true), (-&want, true), (&want + 1, false), (-&want - 1, false), (BigInt::zero(), true)] {
                    if !ph.fits(&v) {
                        continue;
                    }
                    let (res, is): (bool, bool) = match bits {
                        32 => (d::validate_decimal32_precision(v.to_i32().unwrap(), p as u8, 0).is_ok(), d::is_validate_decimal32_precision(v.to_i32().unwrap(), p as u8)),
                        64 => (d::validate_decimal64_precision(v.to_i64().unwrap(), p as u8, 0).is_ok(), d::is_validate_decimal64_precision(v.to_i64().unwrap(), p as u8)),
                        128 => (d::validate_decimal_precision(v.to_i128().unwrap(), p as u8, 0).is_ok(), d::is_validate_decimal_precision(v.to_i128().unwrap(), p as u8)),
                        _ => (d::validate_decimal256_precision(to256(&v), p as u8, 0).is_ok(), d::is_validate_decimal256_precision(to256(&v), p as u8)),
                    };
                    if res != ok || is != ok {
                        ctx.violation(
                            &format!("C12|dectab|Decimal{bits}|validate"),
                            format!("value {v} precision {p}: validate -> {res}, is_validate -> {is}, expected {ok}"),
                        );
                    }
                }
            }
            ctx.class(format!("dectab|Decimal{bits}"));
        });
        ctx.eval();
    }
}
