//! Independent proleptic-Gregorian day-count arithmetic (no chrono): the
//! reference for date / timestamp ± interval kernels.

/// floor division for i128
pub fn fdiv(a: i128, b: i128) -> i128 {
    let q = a / b;
    if (a % b != 0) && ((a < 0) != (b < 0)) { q - 1 } else { q }
}

/// floor modulus (result has the sign of `b`)
pub fn fmod(a: i128, b: i128) -> i128 {
    a - fdiv(a, b) * b
}

pub fn is_leap(y: i128) -> bool {
    (fmod(y, 4) == 0 && fmod(y, 100) != 0) || fmod(y, 400) == 0
}

pub fn days_in_month(y: i128, m: i128) -> i128 {
    match m {
        1 | 3 | 5 | 7 | 8 | 10 | 12 => 31,
        4 | 6 | 9 | 11 => 30,
        2 => {
            if is_leap(y) {
                29
            } else {
                28
            }
        }
        _ => panic!("model: month {m} out of range"),
    }
}

/// Days since 1970-01-01 of the civil date (y, m, d); m in 1..=12, d in 1..=31.
pub fn days_from_civil(y: i128, m: i128, d: i128) -> i128 {
    // count days via whole 400-year eras (146097 days)
    let y2 = if m <= 2 { y - 1 } else { y };
    let era = fdiv(y2, 400);
    let yoe = y2 - era * 400; // [0, 399]
    let mp = if m > 2 { m - 3 } else { m + 9 }; // March = 0
    let doy = (153 * mp + 2) / 5 + d - 1; // [0, 365]
    let doe = yoe * 365 + yoe / 4 - yoe / 100 + doy; // [0, 146096]
    era * 146097 + doe - 719468
}

/// Inverse of `days_from_civil`.
pub fn civil_from_days(z: i128) -> (i128, i128, i128) {
    let z = z + 719468;
    let era = fdiv(z, 146097);
    let doe = z - era * 146097; // [0, 146096]
    let yoe = (doe - doe / 1460 + doe / 36524 - doe / 146096) / 365; // [0, 399]
    let y = yoe + era * 400;
    let doy = doe - (365 * yoe + yoe / 4 - yoe / 100); // [0, 365]
    let mp = (5 * doy + 2) / 153; // [0, 11]
    let d = doy - (153 * mp + 2) / 5 + 1;
    let m = if mp < 10 { mp + 3 } else { mp - 9 };
    (if m <= 2 { y + 1 } else { y }, m, d)
}

/// Calendar month shift with end-of-month clamping: (y, m, d) + months.
pub fn add_months(y: i128, m: i128, d: i128, months: i128) -> (i128, i128, i128) {
    let total = y * 12 + (m - 1) + months;
    let ny = fdiv(total, 12);
    let nm = fmod(total, 12) + 1;
    let nd = d.min(days_in_month(ny, nm));
    (ny, nm, nd)
}

/// Day number shifted by calendar months (clamped); also returns the years visited.
pub fn shift_day_by_months(day: i128, months: i128) -> (i128, i128) {
    let (y, m, d) = civil_from_days(day);
    let (ny, nm, nd) = add_months(y, m, d, months);
    (days_from_civil(ny, nm, nd), ny)
}

/// self-check of the calendar model against an independent slow walk
pub fn self_check() -> Result<(), String> {
    // walk day by day over 1200 years around the epoch
    let (mut y, mut m, mut d) = (1600i128, 1i128, 1i128);
    let mut day = days_from_civil(y, m, d);
    if days_from_civil(1970, 1, 1) != 0 {
        return Err("epoch".into());
    }
    if days_from_civil(2000, 3, 1) != 11017 {
        return Err("2000-03-01".into());
    }
    for _ in 0..(1200 * 366) {
        let back = civil_from_days(day);
        if back != (y, m, d) {
            return Err(format!("civil_from_days({day}) = {back:?} != {y}-{m}-{d}"));
        }
        if days_from_civil(y, m, d) != day {
            return Err(format!("days_from_civil({y}-{m}-{d}) != {day}"));
        }
        d += 1;
        if d > days_in_month(y, m) {
            d = 1;
            m += 1;
            if m > 12 {
                m = 1;
                y += 1;
            }
        }
        day += 1;
    }
    // far dates: 400-year periodicity
    for &z in &[-100_000_000i128, -1, 0, 1, 73_000_000, 95_000_000, -95_000_000] {
        let (y, m, d) = civil_from_days(z);
        if days_from_civil(y, m, d) != z {
            return Err(format!("roundtrip {z}"));
        }
        let (y2, m2, d2) = civil_from_days(z + 146097);
        if (y2, m2, d2) != (y + 400, m, d) {
            return Err(format!("era shift {z}"));
        }
    }
    Ok(())
}
