//! Exhaustive small-width sweeps: every i8/u8 operand pair for every numeric
//! kernel and shape, every i8/u8 `ArrowNativeTypeOp` method, and i16/u16
//! array x scalar sweeps. The oracle works on i64 (no overflow possible).

use super::model::{ALL_OPS, Base, Op};
use super::{Shape, call_shaped};
use crate::build::{self, R};
use crate::mon::{Ctx, Outcome};
use crate::rng::Rng;
use arrow_array::cast::AsArray;
use arrow_array::types::*;
use arrow_array::{Array, ArrayRef, ArrowNativeTypeOp, ArrowPrimitiveType, PrimitiveArray};
use arrow_buffer::NullBuffer;
use std::sync::Arc;

/// exact result of one pair; None = must fail (overflow or division by zero)
#[inline]
pub fn small_model(op: Op, a: i64, b: i64, min: i64, max: i64) -> Option<i64> {
    let x = match op.base() {
        Base::Add => a + b,
        Base::Sub => a - b,
        Base::Mul => a * b,
        Base::Div => {
            if b == 0 {
                return None;
            }
            a / b
        }
        Base::Rem => {
            if b == 0 {
                return None;
            }
            if super::model::broken("small-rem") && a == min && b == -1 {
                return None;
            }
            a % b
        }
    };
    if x >= min && x <= max {
        Some(x)
    } else if op.wrapping() {
        let m = max - min + 1;
        Some((x - min).rem_euclid(m) + min)
    } else {
        None
    }
}

pub trait Small: ArrowPrimitiveType {
    const MIN: i64;
    const MAX: i64;
    const NAME: &'static str;
    const FAM: &'static str;
    fn to(v: Self::Native) -> i64;
    fn from(v: i64) -> Self::Native;
}

macro_rules! small {
    ($t:ty, $n:ty, $name:expr, $fam:expr) => {
        impl Small for $t {
            const MIN: i64 = <$n>::MIN as i64;
            const MAX: i64 = <$n>::MAX as i64;
            const NAME: &'static str = $name;
            const FAM: &'static str = $fam;
            fn to(v: $n) -> i64 {
                v as i64
            }
            fn from(v: i64) -> $n {
                assert!(v >= Self::MIN && v <= Self::MAX, "model: small range");
                v as $n
            }
        }
    };
}
small!(Int8Type, i8, "Int8", "int");
small!(UInt8Type, u8, "UInt8", "uint");
small!(Int16Type, i16, "Int16", "int");
small!(UInt16Type, u16, "UInt16", "uint");

/// primitive array at a random slice offset with a random validity bit offset
pub fn prim<T: ArrowPrimitiveType>(rng: &mut Rng, values: Vec<T::Native>, valid: Option<&[bool]>) -> PrimitiveArray<T> {
    let mut r = R { rng, chaos: true, depth: 0 };
    let nulls = valid.map(|v| NullBuffer::new(build::mk_bits(&mut r, v.iter().copied())));
    let sb = build::mk_scalar(&mut r, values);
    PrimitiveArray::<T>::new(sb, nulls)
}

struct SweepViol {
    kind: &'static str,
    detail: String,
}

/// compare a kernel result against per-row expectations (None = null expected)
fn check_rows<T: Small>(out: &ArrayRef, want: &[Option<i64>]) -> Result<(), SweepViol> {
    if out.data_type() != &T::DATA_TYPE {
        return Err(SweepViol { kind: "wrong-type", detail: format!("type {}", out.data_type()) });
    }
    if out.len() != want.len() {
        return Err(SweepViol { kind: "wrong-len", detail: format!("len {} expected {}", out.len(), want.len()) });
    }
    let p = out.as_primitive::<T>();
    for (i, w) in want.iter().enumerate() {
        match w {
            None => {
                if !p.is_null(i) {
                    return Err(SweepViol { kind: "wrong-null", detail: format!("row {i}: expected null, got {:?}", p.value(i)) });
                }
            }
            Some(x) => {
                if p.is_null(i) {
                    return Err(SweepViol { kind: "wrong-null", detail: format!("row {i}: expected {x}, got null") });
                }
                let g = T::to(p.value(i));
                if g != *x {
                    return Err(SweepViol { kind: "wrong-value", detail: format!("row {i}: expected {x}, got {g}") });
                }
            }
        }
    }
    Ok(())
}

/// One sweep unit: the fixed operand `k` against every value of the type.
/// `fixed_left`: the fixed operand is the lhs. `shape` decides which side is a scalar.
/// Returns the number of kernel calls.
fn sweep_unit<T: Small>(
    ctx: &mut Ctx,
    rng: &mut Rng,
    section: &str,
    op: Op,
    shape: Shape,
    k: i64,
    fixed_left: bool,
    individual_limit: usize,
) -> u64 {
    let n = (T::MAX - T::MIN + 1) as usize;
    let mut all: Vec<i64> = (T::MIN..=T::MAX).collect();
    if rng.bool() {
        rng.shuffle(&mut all);
    }
    let pair = |v: i64| if fixed_left { (k, v) } else { (v, k) };
    let exact: Vec<Option<i64>> = all.iter().map(|v| {
        let (a, b) = pair(*v);
        small_model(op, a, b, T::MIN, T::MAX)
    }).collect();
    let failing: Vec<usize> = (0..n).filter(|i| exact[*i].is_none()).collect();
    let var_vals: Vec<T::Native> = all.iter().map(|v| T::from(*v)).collect();
    let mut calls = 0u64;
    let mk = |rng: &mut Rng, valid: Option<&[bool]>, fixed_valid: bool| -> (ArrayRef, ArrayRef) {
        let var: ArrayRef = Arc::new(prim::<T>(rng, var_vals.clone(), valid));
        let fixed: ArrayRef = match shape {
            Shape::AA => {
                // the constant side as a full array; its validity carries no nulls
                Arc::new(prim::<T>(rng, vec![T::from(k); n], None))
            }
            _ => {
                let fv = [fixed_valid];
                let coin = rng.bool();
                Arc::new(prim::<T>(rng, vec![T::from(k)], if fixed_valid && coin { None } else { Some(&fv) }))
            }
        };
        if fixed_left { (fixed, var) } else { (var, fixed) }
    };
    let eff_shape = match shape {
        Shape::AA => Shape::AA,
        _ => {
            if fixed_left { Shape::SA } else { Shape::AS }
        }
    };
    let sigf = |kind: &str| format!("C12|{section}|{}|{}|{kind}", op.name(), T::FAM);
    let wit = |what: &str| format!("{} {} {} fixed operand {k} ({}): {what}", op.name(), T::NAME, eff_shape.name(), if fixed_left { "lhs" } else { "rhs" });

    // 1. failing pairs hidden under nulls (the payload is the bait): must be Ok and exact
    let valid: Vec<bool> = exact.iter().map(|e| e.is_some()).collect();
    let coin = rng.bool();
    let (l, r) = mk(rng, if failing.is_empty() && coin { None } else { Some(&valid) }, true);
    let out = call_shaped(op, eff_shape, &l, &r);
    calls += 1;
    match &out {
        Outcome::Ok(a) => {
            if let Err(v) = check_rows::<T>(a, &exact) {
                ctx.violation(&sigf(v.kind), wit(&format!("masked run: {} (variable operand order {:?}...)", v.detail, &all[..4])));
            }
        }
        Outcome::Err(e) => ctx.violation(&sigf("spurious-err"), wit(&format!("all failing pairs are null but the call failed: {e}"))),
        Outcome::Panic(p) => ctx.panic_violation(&format!("{section}|{}", op.name()), p, wit("masked run")),
    }
    // 2. a random extra null pattern on top
    let valid2: Vec<bool> = valid.iter().map(|v| *v && !rng.chance(1, 5)).collect();
    let want2: Vec<Option<i64>> = exact.iter().zip(&valid2).map(|(e, v)| if *v { *e } else { None }).collect();
    let (l, r) = mk(rng, Some(&valid2), true);
    let out = call_shaped(op, eff_shape, &l, &r);
    calls += 1;
    match &out {
        Outcome::Ok(a) => {
            if let Err(v) = check_rows::<T>(a, &want2) {
                ctx.violation(&sigf(v.kind), wit(&format!("random-null run: {}", v.detail)));
            }
        }
        Outcome::Err(e) => ctx.violation(&sigf("spurious-err"), wit(&format!("random-null run failed: {e}"))),
        Outcome::Panic(p) => ctx.panic_violation(&format!("{section}|{}", op.name()), p, wit("random-null run")),
    }
    // 3. null scalar: everything null, never an error
    if shape != Shape::AA {
        let (l, r) = mk(rng, None, false);
        let out = call_shaped(op, eff_shape, &l, &r);
        calls += 1;
        match &out {
            Outcome::Ok(a) => {
                if let Err(v) = check_rows::<T>(a, &vec![None; n]) {
                    ctx.violation(&sigf(v.kind), wit(&format!("null scalar: {}", v.detail)));
                }
            }
            Outcome::Err(e) => ctx.violation(&sigf("spurious-err"), wit(&format!("null scalar but the call failed: {e}"))),
            Outcome::Panic(p) => ctx.panic_violation(&format!("{section}|{}", op.name()), p, wit("null scalar")),
        }
    }
    // 4. all pairs valid: must fail iff some pair fails
    if !failing.is_empty() {
        let (l, r) = mk(rng, None, true);
        let out = call_shaped(op, eff_shape, &l, &r);
        calls += 1;
        match &out {
            Outcome::Err(_) => {}
            Outcome::Ok(a) => {
                let i = failing[0];
                let p = a.as_primitive::<T>();
                let got = if i < p.len() && p.is_valid(i) { format!("{:?}", p.value(i)) } else { "null".into() };
                let (x, y) = pair(all[i]);
                ctx.violation(&sigf("missing-err"), wit(&format!("pair ({x}, {y}) must fail but the call returned Ok (row value {got})")));
            }
            Outcome::Panic(p) => ctx.panic_violation(&format!("{section}|{}", op.name()), p, wit("unmasked run")),
        }
        // 5. each failing pair on its own
        let mut idx = failing.clone();
        if idx.len() > individual_limit {
            rng.shuffle(&mut idx);
            idx.truncate(individual_limit);
        }
        for i in idx {
            let var: ArrayRef = Arc::new(PrimitiveArray::<T>::from_value(T::from(all[i]), 1));
            let fixed: ArrayRef = Arc::new(PrimitiveArray::<T>::from_value(T::from(k), 1));
            let (l, r) = if fixed_left { (fixed, var) } else { (var, fixed) };
            let out = call_shaped(op, eff_shape, &l, &r);
            calls += 1;
            let (x, y) = pair(all[i]);
            match &out {
                Outcome::Err(_) => {}
                Outcome::Ok(a) => {
                    let p = a.as_primitive::<T>();
                    let got = if p.len() == 1 && p.is_valid(0) { format!("{:?}", p.value(0)) } else { "null/none".into() };
                    ctx.violation(&sigf("missing-err"), wit(&format!("single pair ({x}, {y}) must fail, got Ok({got})")));
                }
                Outcome::Panic(p) => ctx.panic_violation(&format!("{section}|{}", op.name()), p, wit(&format!("single pair ({x}, {y})"))),
            }
        }
    }
    ctx.count(&format!("{section}_pairs"), n as u64);
    ctx.count(&format!("{section}_failing_pairs"), failing.len() as u64);
    ctx.class(format!(
        "{section}|{}|{}|{}|{}",
        op.name(),
        T::NAME,
        eff_shape.name(),
        if failing.is_empty() { "all-ok" } else if failing.len() == n { "all-fail" } else { "mixed" }
    ));
    calls
}

fn neg_unit<T: Small>(ctx: &mut Ctx, rng: &mut Rng, section: &str, wrapping: bool) -> u64 {
    let name = if wrapping { "neg_wrapping" } else { "neg" };
    let signed = T::MIN < 0;
    let all: Vec<i64> = (T::MIN..=T::MAX).collect();
    let vals: Vec<T::Native> = all.iter().map(|v| T::from(*v)).collect();
    let sigf = |kind: &str| format!("C12|{section}|{name}|{}|{kind}", T::FAM);
    let call = |a: &dyn Array| {
        crate::mon::run_op(|| if wrapping { arrow_arith::numeric::neg_wrapping(a) } else { arrow_arith::numeric::neg(a) })
    };
    let m = T::MAX - T::MIN + 1;
    let exact: Vec<Option<i64>> = all
        .iter()
        .map(|v| {
            let x = -*v;
            if x >= T::MIN && x <= T::MAX {
                Some(x)
            } else if wrapping {
                Some((x - T::MIN).rem_euclid(m) + T::MIN)
            } else {
                None
            }
        })
        .collect();
    let mut calls = 0;
    if !signed && !wrapping {
        // documented: negation of unsigned arrays is not supported
        let a = prim::<T>(rng, vals, None);
        match call(&a) {
            Outcome::Err(_) => ctx.reject(),
            Outcome::Ok(_) => ctx.inconclusive("neg accepted an unsigned array"),
            Outcome::Panic(p) => ctx.panic_violation(&format!("{section}|{name}"), &p, format!("{name} {}", T::NAME)),
        }
        return 1;
    }
    let valid: Vec<bool> = exact.iter().map(|e| e.is_some()).collect();
    let a: ArrayRef = Arc::new(prim::<T>(rng, vals.clone(), Some(&valid)));
    calls += 1;
    match call(a.as_ref()) {
        Outcome::Ok(o) => {
            if let Err(v) = check_rows::<T>(&o, &exact) {
                ctx.violation(&sigf(v.kind), format!("{name} {} all values, failing ones null: {}", T::NAME, v.detail));
            }
        }
        Outcome::Err(e) => ctx.violation(&sigf("spurious-err"), format!("{name} {}: failing values are null but got Err({e})", T::NAME)),
        Outcome::Panic(p) => ctx.panic_violation(&format!("{section}|{name}"), &p, format!("{name} {}", T::NAME)),
    }
    for (i, e) in exact.iter().enumerate() {
        if e.is_none() {
            let a = PrimitiveArray::<T>::from_value(T::from(all[i]), 1 + rng.below(3));
            calls += 1;
            match call(&a) {
                Outcome::Err(_) => {}
                Outcome::Ok(_) => ctx.violation(&sigf("missing-err"), format!("{name} {} of {} must fail", T::NAME, all[i])),
                Outcome::Panic(p) => ctx.panic_violation(&format!("{section}|{name}"), &p, format!("{name} {}", T::NAME)),
            }
        }
    }
    ctx.class(format!("{section}|{name}|{}", T::NAME));
    calls
}

const SHAPES3: [Shape; 3] = [Shape::AA, Shape::AS, Shape::SA];

/// Exhaustive i8/u8: case index = ((type * 8 + op) * 3 + shape) * 256 + k; plus neg cases.
/// Returns true when every case of this shard was executed.
pub fn run_sweep8(ctx: &mut Ctx) -> bool {
    let per_type = 8 * 3 * 256u64;
    let total = if ctx.tier == crate::mon::Tier::Tiny { 96 } else { 2 * per_type + 4 };
    let mut complete = true;
    for i in ctx.cases("sweep8", total) {
        if ctx.out_of_time() {
            complete = false;
            break;
        }
        let mut rng = ctx.begin("sweep8", i);
        // tiny tier: spread the few cases over the index space
        let i = if ctx.tier == crate::mon::Tier::Tiny && ctx.only_case.is_none() { (i * 131) % (2 * per_type) } else { i };
        let mut calls = 0u64;
        super::guarded(ctx, "sweep8", |ctx| {
        calls = if i >= 2 * per_type {
            match i - 2 * per_type {
                0 => neg_unit::<Int8Type>(ctx, &mut rng, "sweep8", false),
                1 => neg_unit::<Int8Type>(ctx, &mut rng, "sweep8", true),
                2 => neg_unit::<UInt8Type>(ctx, &mut rng, "sweep8", false),
                _ => neg_unit::<UInt8Type>(ctx, &mut rng, "sweep8", true),
            }
        } else {
            let ty = i / per_type;
            let rem = i % per_type;
            let op = ALL_OPS[(rem / (3 * 256)) as usize];
            let shape = SHAPES3[((rem / 256) % 3) as usize];
            let k = (rem % 256) as i64;
            // AA: alternate which side is the constant array; AS: fixed rhs; SA: fixed lhs
            let fixed_left = match shape {
                Shape::AA => k % 2 == 1,
                Shape::AS => false,
                _ => true,
            };
            if ty == 0 {
                sweep_unit::<Int8Type>(ctx, &mut rng, "sweep8", op, shape, k + Int8Type::MIN, fixed_left, 256)
            } else {
                sweep_unit::<UInt8Type>(ctx, &mut rng, "sweep8", op, shape, k, fixed_left, 256)
            }
        };
        });
        ctx.eval();
        ctx.count("sweep8_calls", calls);
    }
    complete
}

/// Lean exhaustive unit for 16-bit types: the scalar `k` against all 65536 array
/// values in one call (failing pairs are nulls carrying the failing payload), plus
/// one unmasked call that must fail when any pair fails. Expectations and the
/// comparison work on raw slices.
fn lean_unit<T: Small>(ctx: &mut Ctx, op: Op, k: i64, fixed_left: bool, values: &arrow_buffer::ScalarBuffer<T::Native>, expected: &mut Vec<i64>) -> u64 {
    let n = values.len();
    expected.clear();
    let mut valid = arrow_buffer::BooleanBufferBuilder::new(n);
    let mut failing = 0usize;
    let mut first_fail = 0usize;
    for i in 0..n {
        let v = T::MIN + i as i64;
        let (a, b) = if fixed_left { (k, v) } else { (v, k) };
        match small_model(op, a, b, T::MIN, T::MAX) {
            Some(x) => {
                expected.push(x);
                valid.append(true);
            }
            None => {
                if failing == 0 {
                    first_fail = i;
                }
                failing += 1;
                expected.push(0);
                valid.append(false);
            }
        }
    }
    let valid = valid.finish();
    let shape = if fixed_left { Shape::SA } else { Shape::AS };
    let sigf = |kind: &str| format!("C12|sweep16x|{}|{}|{kind}", op.name(), T::FAM);
    let wit = |what: &str| format!("{} {} {} scalar {k}: {what}", op.name(), T::NAME, shape.name());
    let nulls = if failing == 0 && k % 2 == 0 { None } else { Some(NullBuffer::new(valid.clone())) };
    let var: ArrayRef = Arc::new(PrimitiveArray::<T>::new(values.clone(), nulls));
    let fixed: ArrayRef = Arc::new(PrimitiveArray::<T>::from_value(T::from(k), 1));
    let (l, r) = if fixed_left { (fixed.clone(), var.clone()) } else { (var.clone(), fixed.clone()) };
    let mut calls = 1;
    match call_shaped(op, shape, &l, &r) {
        Outcome::Ok(a) => {
            if a.data_type() != &T::DATA_TYPE || a.len() != n {
                ctx.violation(&sigf("wrong-type-or-len"), wit(&format!("type {} len {}", a.data_type(), a.len())));
            } else {
                let p = a.as_primitive::<T>();
                let nulls_ok = match p.nulls() {
                    None => failing == 0,
                    Some(nb) => nb.inner() == &valid,
                };
                if !nulls_ok {
                    ctx.violation(&sigf("wrong-null"), wit("output validity differs from 'pair does not fail'"));
                } else {
                    let vals = p.values();
                    for i in 0..n {
                        if valid.value(i) && T::to(vals[i]) != expected[i] {
                            ctx.violation(&sigf("wrong-value"), wit(&format!("array value {}: expected {} got {:?}", T::MIN + i as i64, expected[i], vals[i])));
                            break;
                        }
                    }
                }
            }
        }
        Outcome::Err(e) => ctx.violation(&sigf("spurious-err"), wit(&format!("failing pairs are null but the call failed: {e}"))),
        Outcome::Panic(p) => ctx.panic_violation(&format!("sweep16x|{}", op.name()), &p, wit("masked run")),
    }
    if failing > 0 {
        let var: ArrayRef = Arc::new(PrimitiveArray::<T>::new(values.clone(), None));
        let (l, r) = if fixed_left { (fixed, var) } else { (var, fixed) };
        calls += 1;
        match call_shaped(op, shape, &l, &r) {
            Outcome::Err(_) => {}
            Outcome::Ok(a) => {
                let p = a.as_primitive::<T>();
                let got = if first_fail < p.len() && p.is_valid(first_fail) { format!("{:?}", p.value(first_fail)) } else { "null".into() };
                ctx.violation(&sigf("missing-err"), wit(&format!("array value {} must fail but the call returned Ok (row value {got})", T::MIN + first_fail as i64)));
            }
            Outcome::Panic(p) => ctx.panic_violation(&format!("sweep16x|{}", op.name()), &p, wit("unmasked run")),
        }
    }
    ctx.count("sweep16x_pairs", n as u64);
    ctx.count("sweep16x_failing_pairs", failing as u64);
    calls
}

/// Exhaustive i16/u16 (thorough: every scalar; quick: 512 scalars per type):
/// case = (type, scalar); every case runs all 8 operators with the scalar on either side.
pub fn run_sweep16x(ctx: &mut Ctx) -> bool {
    let full = ctx.tier == crate::mon::Tier::Thorough;
    let per_type: u64 = ctx.tier.pick(4, 512, 65_536);
    let total = 2 * per_type;
    let v16: arrow_buffer::ScalarBuffer<i16> = (i16::MIN..=i16::MAX).collect::<Vec<_>>().into();
    let vu16: arrow_buffer::ScalarBuffer<u16> = (u16::MIN..=u16::MAX).collect::<Vec<_>>().into();
    let mut expected: Vec<i64> = Vec::with_capacity(65_536);
    let mut complete = true;
    let cap = super::Cap::new(ctx, 6);
    for i in ctx.cases("sweep16x", total) {
        if ctx.out_of_time() || cap.over() {
            complete = false;
            break;
        }
        let mut rng = ctx.begin("sweep16x", i);
        let ty = i / per_type;
        let si = i % per_type;
        let (min, max) = if ty == 0 { (Int16Type::MIN, Int16Type::MAX) } else { (UInt16Type::MIN, UInt16Type::MAX) };
        let k = if full {
            min + si as i64
        } else {
            const B: [i64; 30] = [0, 1, -1, 2, -2, 3, 7, 10, -10, 127, 128, -128, -129, 181, 182, -181, -182, 255, 256, 257, -256, 16383, 16384, -16384, 32767, -32767, -32768, 32768, 65534, 65535];
            let v = if (si as usize) < B.len() { B[si as usize] } else { rng.range(min, max) };
            if v < min || v > max { rng.range(min, max) } else { v }
        };
        let mut calls = 0u64;
        super::guarded(ctx, "sweep16x", |ctx| {
            for op in ALL_OPS {
                for fixed_left in [false, true] {
                    calls += if ty == 0 {
                        lean_unit::<Int16Type>(ctx, op, k, fixed_left, &v16, &mut expected)
                    } else {
                        lean_unit::<UInt16Type>(ctx, op, k, fixed_left, &vu16, &mut expected)
                    };
                }
            }
        });
        ctx.eval();
        ctx.count("sweep16x_calls", calls);
        if i % 97 == 0 {
            ctx.class(format!("sweep16x|{}", if ty == 0 { "Int16" } else { "UInt16" }));
        }
    }
    complete
}

/// i16/u16: all 65536 array values against one scalar per case.
pub fn run_sweep16(ctx: &mut Ctx) {
    // rich variant (random layouts, extra null patterns, null scalar, single
    // failing pairs) for a boundary set plus random scalars; the exhaustive scalar
    // sweep is `sweep16x`
    let per = 8 * 2u64; // op x side
    let full = false;
    let scalars_per_type: u64 = ctx.tier.pick(2, 16, 1_000);
    let total = 2 * per * scalars_per_type;
    let cap = super::Cap::new(ctx, 5);
    for i in ctx.cases("sweep16", total) {
        if ctx.out_of_time() || cap.over() {
            break;
        }
        let mut rng = ctx.begin("sweep16", i);
        let ty = i / (per * scalars_per_type);
        let rem = i % (per * scalars_per_type);
        let op = ALL_OPS[(rem % 8) as usize];
        let fixed_left = (rem / 8) % 2 == 1;
        let si = rem / per;
        let (min, max) = if ty == 0 { (Int16Type::MIN, Int16Type::MAX) } else { (UInt16Type::MIN, UInt16Type::MAX) };
        let k = if full {
            min + si as i64
        } else {
            const B: [i64; 26] = [0, 1, -1, 2, -2, 3, 7, 10, -10, 127, 128, -128, -129, 181, 182, 255, 256, 257, -256, 16383, 16384, -16384, 32767, -32767, -32768, 65535];
            let v = if (si as usize) < B.len() { B[si as usize] } else { rng.range(min, max) };
            if v < min || v > max { rng.range(min, max) } else { v }
        };
        let shape = if fixed_left { Shape::SA } else { Shape::AS };
        let mut calls = 0u64;
        super::guarded(ctx, "sweep16", |ctx| {
            calls = if ty == 0 {
                sweep_unit::<Int16Type>(ctx, &mut rng, "sweep16", op, shape, k, fixed_left, 6)
            } else {
                sweep_unit::<UInt16Type>(ctx, &mut rng, "sweep16", op, shape, k, fixed_left, 6)
            };
        });
        ctx.eval();
        ctx.count("sweep16_calls", calls);
    }
}

// ---------------------------------------------------------------- native 8-bit

fn native8_unit<N>(ctx: &mut Ctx, name: &'static str, fam: &'static str, min: i64, max: i64, lo: i64, hi: i64, to: fn(N) -> i64, from: fn(i64) -> N)
where
    N: ArrowNativeTypeOp + std::fmt::Debug,
{
    let m = max - min + 1;
    let wrap = |x: i64| (x - min).rem_euclid(m) + min;
    let fits = |x: i64| x >= min && x <= max;
    let bad = |ctx: &mut Ctx, method: &str, detail: String| {
        ctx.violation(&format!("C12|native8|{method}|{fam}|wrong-result"), format!("{name}::{method}: {detail}"));
    };
    let mut n_checks = 0u64;
    for a in lo..=hi {
        let na = from(a);
        // unary
        let r = crate::mon::guard(|| {
            let mut errs: Vec<(String, String)> = Vec::new();
            let x = -a;
            match na.neg_checked() {
                Ok(v) => {
                    if !fits(x) || to(v) != x {
                        errs.push(("neg_checked".into(), format!("-({a}) = Ok({v:?})")));
                    }
                }
                Err(_) => {
                    if fits(x) {
                        errs.push(("neg_checked".into(), format!("-({a}) = Err, exact {x} fits")));
                    }
                }
            }
            if to(na.neg_wrapping()) != wrap(x) {
                errs.push(("neg_wrapping".into(), format!("-({a}) = {:?} expected {}", na.neg_wrapping(), wrap(x))));
            }
            if na.is_zero() != (a == 0) {
                errs.push(("is_zero".into(), format!("{a}")));
            }
            for e in 0u32..=9 {
                let mut p: i128 = 1;
                let mut over = false;
                for _ in 0..e {
                    p *= a as i128;
                    if p.abs() > (1i128 << 100) {
                        over = true;
                    }
                }
                let _ = over;
                let exact_fits = p >= min as i128 && p <= max as i128;
                match na.pow_checked(e) {
                    Ok(v) => {
                        if !exact_fits || to(v) as i128 != p {
                            errs.push(("pow_checked".into(), format!("{a}^{e} = Ok({v:?}) exact {p}")));
                        }
                    }
                    Err(_) => {
                        if exact_fits {
                            errs.push(("pow_checked".into(), format!("{a}^{e} = Err, exact {p} fits")));
                        }
                    }
                }
                let w = ((p - min as i128).rem_euclid(m as i128) + min as i128) as i64;
                if to(na.pow_wrapping(e)) != w {
                    errs.push(("pow_wrapping".into(), format!("{a}^{e} = {:?} expected {w}", na.pow_wrapping(e))));
                }
            }
            errs
        });
        match r {
            Ok(errs) => {
                for (m, d) in errs {
                    bad(ctx, &m, d);
                }
            }
            Err(p) => ctx.panic_violation("native8|unary", &p, format!("{name} operand {a}")),
        }
        for b in min..=max {
            let nb = from(b);
            n_checks += 1;
            let r = crate::mon::guard(|| {
                let mut errs: Vec<(&'static str, String)> = Vec::new();
                let mut chk = |method: &'static str, got: Result<N, arrow_schema::ArrowError>, exact: Option<i64>, lenient_err: bool| match (got, exact) {
                    (Ok(v), Some(x)) => {
                        if !fits(x) || to(v) != x {
                            errs.push((method, format!("({a}, {b}) = Ok({v:?}), exact {x}")));
                        }
                    }
                    (Ok(v), None) => errs.push((method, format!("({a}, {b}) = Ok({v:?}), must fail"))),
                    (Err(_), Some(x)) => {
                        if fits(x) && !lenient_err {
                            errs.push((method, format!("({a}, {b}) = Err, exact {x} fits")));
                        }
                    }
                    (Err(_), None) => {}
                };
                chk("add_checked", na.add_checked(nb), Some(a + b), false);
                chk("sub_checked", na.sub_checked(nb), Some(a - b), false);
                chk("mul_checked", na.mul_checked(nb), Some(a * b), false);
                chk("div_checked", na.div_checked(nb), if b == 0 { None } else { Some(a / b) }, false);
                // not asserted: MIN % -1 (std's checked_rem convention reports overflow although the remainder 0 is representable)
                chk("mod_checked", na.mod_checked(nb), if b == 0 { None } else { Some(a % b) }, a == min && b == -1);
                let mut w = |method: &'static str, got: N, exact: i64| {
                    if to(got) != wrap(exact) {
                        errs.push((method, format!("({a}, {b}) = {got:?} expected {}", wrap(exact))));
                    }
                };
                w("add_wrapping", na.add_wrapping(nb), a + b);
                w("sub_wrapping", na.sub_wrapping(nb), a - b);
                w("mul_wrapping", na.mul_wrapping(nb), a * b);
                if b != 0 {
                    // documented: div_wrapping / mod_wrapping panic for a zero divisor
                    w("div_wrapping", na.div_wrapping(nb), a / b);
                    w("mod_wrapping", na.mod_wrapping(nb), a % b);
                }
                if na.compare(nb) != a.cmp(&b) {
                    errs.push(("compare", format!("({a}, {b})")));
                }
                if na.is_eq(nb) != (a == b) || na.is_ne(nb) != (a != b) || na.is_lt(nb) != (a < b) || na.is_le(nb) != (a <= b) || na.is_gt(nb) != (a > b) || na.is_ge(nb) != (a >= b) {
                    errs.push(("is_cmp", format!("({a}, {b})")));
                }
                errs
            });
            match r {
                Ok(errs) => {
                    for (m, d) in errs {
                        bad(ctx, m, d);
                    }
                }
                Err(p) => ctx.panic_violation("native8|binary", &p, format!("{name} operands ({a}, {b})")),
            }
        }
    }
    ctx.count("native8_pairs", n_checks);
}

/// Exhaustive `ArrowNativeTypeOp` for i8/u8: 2 types x 16 slices of the lhs range.
pub fn run_native8(ctx: &mut Ctx) -> bool {
    let total = if ctx.tier == crate::mon::Tier::Tiny { 2 } else { 32 };
    let mut complete = true;
    for i in ctx.cases("native8", total) {
        if ctx.out_of_time() {
            complete = false;
            break;
        }
        let _rng = ctx.begin("native8", i);
        let slice = (i % 16) as i64;
        super::guarded(ctx, "native8", |ctx| {
            if i / 16 == 0 {
                let lo = -128 + slice * 16;
                native8_unit::<i8>(ctx, "i8", "int", -128, 127, lo, lo + 15, |v| v as i64, |v| v as i8);
            } else {
                let lo = slice * 16;
                native8_unit::<u8>(ctx, "u8", "uint", 0, 255, lo, lo + 15, |v| v as i64, |v| v as u8);
            }
        });
        ctx.eval();
        ctx.class(format!("native8|{}|slice{}", if i / 16 == 0 { "i8" } else { "u8" }, slice));
    }
    complete
}
