//! Aggregates: sum / product (+checked) / min / max / bit_* / bool_* and the
//! byte-array min/max, over plain, dictionary and run-end encoded arrays, equal
//! the fold over the valid values.

use super::model::{self, Phys};
use super::{bait_array, gen_operand, short_bits};
use crate::build;
use crate::gens::{self, type_class};
use crate::mon::{Ctx, guard, strip_digits};
use crate::rng::Rng;
use crate::val::{Val, dump_vals};
use arrow_arith::aggregate as ag;
use arrow_array::cast::AsArray;
use arrow_array::types::*;
use arrow_array::*;
use arrow_buffer::{IntervalDayTime, IntervalMonthDayNano, i256};
use arrow_schema::{DataType, Field, IntervalUnit, TimeUnit};
use num_bigint::BigInt;
use num_traits::{One, Signed, ToPrimitive, Zero};
use std::sync::Arc;

/// native value <-> model value
pub trait NatVal: Copy + std::fmt::Debug {
    fn to_val(self) -> Val;
    fn from_val(v: &Val) -> Self;
}

macro_rules! natval_int {
    ($($t:ty),*) => {$(
        impl NatVal for $t {
            fn to_val(self) -> Val { Val::Int(self as i128) }
            fn from_val(v: &Val) -> Self { match v { Val::Int(i) => *i as $t, o => panic!("model: expected Int got {o:?}") } }
        }
    )*};
}
natval_int!(i8, i16, i32, i64, i128, u8, u16, u32, u64);

impl NatVal for i256 {
    fn to_val(self) -> Val {
        Val::Big(self)
    }
    fn from_val(v: &Val) -> Self {
        match v {
            Val::Big(b) => *b,
            Val::Int(i) => i256::from_i128(*i),
            o => panic!("model: expected Big got {o:?}"),
        }
    }
}
impl NatVal for half::f16 {
    fn to_val(self) -> Val {
        Val::F16(self.to_bits())
    }
    fn from_val(v: &Val) -> Self {
        match v {
            Val::F16(b) => half::f16::from_bits(*b),
            o => panic!("model: expected F16 got {o:?}"),
        }
    }
}
impl NatVal for f32 {
    fn to_val(self) -> Val {
        Val::F32(self.to_bits())
    }
    fn from_val(v: &Val) -> Self {
        match v {
            Val::F32(b) => f32::from_bits(*b),
            o => panic!("model: expected F32 got {o:?}"),
        }
    }
}
impl NatVal for f64 {
    fn to_val(self) -> Val {
        Val::F64(self.to_bits())
    }
    fn from_val(v: &Val) -> Self {
        match v {
            Val::F64(b) => f64::from_bits(*b),
            o => panic!("model: expected F64 got {o:?}"),
        }
    }
}
impl NatVal for IntervalDayTime {
    fn to_val(self) -> Val {
        Val::IntervalDT(self.days, self.milliseconds)
    }
    fn from_val(v: &Val) -> Self {
        match v {
            Val::IntervalDT(d, m) => IntervalDayTime::new(*d, *m),
            o => panic!("model: expected IntervalDT got {o:?}"),
        }
    }
}
impl NatVal for IntervalMonthDayNano {
    fn to_val(self) -> Val {
        Val::IntervalMDN(self.months, self.days, self.nanoseconds)
    }
    fn from_val(v: &Val) -> Self {
        match v {
            Val::IntervalMDN(m, d, n) => IntervalMonthDayNano::new(*m, *d, *n),
            o => panic!("model: expected IntervalMDN got {o:?}"),
        }
    }
}

#[derive(Clone, Copy, PartialEq, Eq, Debug)]
pub enum Agg {
    Sum,
    SumChecked,
    Product,
    ProductChecked,
    Min,
    Max,
    SumArray,
    SumArrayChecked,
    MinArray,
    MaxArray,
    BitAnd,
    BitOr,
    BitXor,
}

impl Agg {
    fn name(&self) -> &'static str {
        match self {
            Agg::Sum => "sum",
            Agg::SumChecked => "sum_checked",
            Agg::Product => "product",
            Agg::ProductChecked => "product_checked",
            Agg::Min => "min",
            Agg::Max => "max",
            Agg::SumArray => "sum_array",
            Agg::SumArrayChecked => "sum_array_checked",
            Agg::MinArray => "min_array",
            Agg::MaxArray => "max_array",
            Agg::BitAnd => "bit_and",
            Agg::BitOr => "bit_or",
            Agg::BitXor => "bit_xor",
        }
    }
}

/// result of one aggregate call: Ok(None) = "no non-null value"
type AggRes = Result<Option<Val>, String>;

fn opt<N: NatVal>(v: Option<N>) -> AggRes {
    Ok(v.map(|x| x.to_val()))
}
fn res<N: NatVal>(v: Result<Option<N>, arrow_schema::ArrowError>) -> AggRes {
    v.map(|o| o.map(|x| x.to_val())).map_err(|e| e.to_string())
}

#[derive(Clone, Copy, PartialEq, Eq, Debug)]
enum Enc {
    Plain,
    Dict,
    Ree,
}

fn plain_aggs<T: ArrowPrimitiveType>(a: &PrimitiveArray<T>) -> Vec<(Agg, AggRes)>
where
    T::Native: NatVal,
{
    vec![
        (Agg::Sum, opt(ag::sum(a))),
        (Agg::SumChecked, res(ag::sum_checked(a))),
        (Agg::Product, opt(ag::product(a))),
        (Agg::ProductChecked, res(ag::product_checked(a))),
        (Agg::Min, opt(ag::min(a))),
        (Agg::Max, opt(ag::max(a))),
        (Agg::SumArray, opt(ag::sum_array::<T, _>(a))),
        (Agg::SumArrayChecked, res(ag::sum_array_checked::<T, _>(a))),
        (Agg::MinArray, opt(ag::min_array::<T, _>(a))),
        (Agg::MaxArray, opt(ag::max_array::<T, _>(a))),
    ]
}

fn accessor_aggs<T: ArrowPrimitiveType, A: ArrayAccessor<Item = T::Native> + Copy>(a: A) -> Vec<(Agg, AggRes)>
where
    T::Native: NatVal,
{
    vec![
        (Agg::SumArray, opt(ag::sum_array::<T, _>(a))),
        (Agg::SumArrayChecked, res(ag::sum_array_checked::<T, _>(a))),
        (Agg::MinArray, opt(ag::min_array::<T, _>(a))),
        (Agg::MaxArray, opt(ag::max_array::<T, _>(a))),
    ]
}

macro_rules! dict_helper {
    ($k:ty, $t:ident, $arr:expr) => {{
        let d = $arr.as_dictionary::<$k>();
        let typed = d.downcast_dict::<PrimitiveArray<$t>>().expect("model: dictionary values type");
        accessor_aggs::<$t, _>(typed)
    }};
}

macro_rules! ree_helper {
    ($k:ty, $t:ident, $arr:expr) => {{
        let d = $arr.as_run::<$k>();
        let typed = d.downcast::<PrimitiveArray<$t>>().expect("model: run values type");
        accessor_aggs::<$t, _>(typed)
    }};
}

fn typed_aggs<T: ArrowPrimitiveType>(arr: &ArrayRef, enc: Enc) -> Vec<(Agg, AggRes)>
where
    T::Native: NatVal,
{
    match enc {
        Enc::Plain => plain_aggs::<T>(arr.as_primitive::<T>()),
        Enc::Dict => {
            let DataType::Dictionary(k, _) = arr.data_type() else { panic!("model: not a dictionary") };
            downcast_integer! {
                k.as_ref() => (dict_helper, T, arr),
                _ => panic!("model: dictionary key type")
            }
        }
        Enc::Ree => {
            let DataType::RunEndEncoded(r, _) = arr.data_type() else { panic!("model: not run-end encoded") };
            match r.data_type() {
                DataType::Int16 => ree_helper!(Int16Type, T, arr),
                DataType::Int32 => ree_helper!(Int32Type, T, arr),
                DataType::Int64 => ree_helper!(Int64Type, T, arr),
                _ => panic!("model: run end type"),
            }
        }
    }
}

macro_rules! agg_helper {
    ($t:ty, $arr:expr, $enc:expr) => {
        typed_aggs::<$t>($arr, $enc)
    };
}

fn all_aggs(value_dt: &DataType, arr: &ArrayRef, enc: Enc) -> Vec<(Agg, AggRes)> {
    downcast_primitive! {
        value_dt => (agg_helper, arr, enc),
        _ => panic!("model: aggregate over non-primitive type")
    }
}

fn bit_aggs_typed<T: ArrowPrimitiveType>(arr: &ArrayRef) -> Vec<(Agg, AggRes)>
where
    T::Native: NatVal
        + std::ops::BitAnd<Output = T::Native>
        + std::ops::BitOr<Output = T::Native>
        + std::ops::BitXor<Output = T::Native>
        + ArrowNativeTypeOp,
{
    let a = arr.as_primitive::<T>();
    vec![
        (Agg::BitAnd, opt(ag::bit_and(a))),
        (Agg::BitOr, opt(ag::bit_or(a))),
        (Agg::BitXor, opt(ag::bit_xor(a))),
    ]
}

macro_rules! bit_helper {
    ($t:ty, $arr:expr) => {
        bit_aggs_typed::<$t>($arr)
    };
}

fn bit_aggs(dt: &DataType, arr: &ArrayRef) -> Vec<(Agg, AggRes)> {
    downcast_integer! {
        dt => (bit_helper, arr),
        _ => vec![]
    }
}

// ---------------------------------------------------------------- model

/// total-order key of a float value (IEEE totalOrder on the bit pattern)
pub fn float_key(v: &Val) -> i128 {
    let (bits, w): (u64, u32) = match v {
        Val::F16(b) => (*b as u64, 16),
        Val::F32(b) => (*b as u64, 32),
        Val::F64(b) => (*b, 64),
        o => panic!("model: float_key {o:?}"),
    };
    let sign = (bits >> (w - 1)) & 1;
    let mag = (bits & ((1u64 << (w - 1)) - 1)) as i128;
    if sign == 1 { -mag - 1 } else { mag }
}

pub fn cmp_vals(a: &Val, b: &Val) -> std::cmp::Ordering {
    match (a, b) {
        (Val::F16(_), _) | (Val::F32(_), _) | (Val::F64(_), _) => float_key(a).cmp(&float_key(b)),
        (Val::Int(x), Val::Int(y)) => x.cmp(y),
        (Val::Big(x), Val::Big(y)) => model::big_i256(*x).cmp(&model::big_i256(*y)),
        // struct field order: (days, millis) / (months, days, nanos)
        (Val::IntervalDT(a1, a2), Val::IntervalDT(b1, b2)) => (a1, a2).cmp(&(b1, b2)),
        (Val::IntervalMDN(a1, a2, a3), Val::IntervalMDN(b1, b2, b3)) => (a1, a2, a3).cmp(&(b1, b2, b3)),
        _ => panic!("model: cmp_vals {a:?} {b:?}"),
    }
}

/// integer fields of a value with their physical layout
pub fn fields(dt: &DataType, v: &Val) -> Vec<(BigInt, Phys)> {
    match v {
        Val::IntervalDT(d, m) => vec![
            (BigInt::from(*d), Phys { bits: 32, signed: true }),
            (BigInt::from(*m), Phys { bits: 32, signed: true }),
        ],
        Val::IntervalMDN(a, d, n) => vec![
            (BigInt::from(*a), Phys { bits: 32, signed: true }),
            (BigInt::from(*d), Phys { bits: 32, signed: true }),
            (BigInt::from(*n), Phys { bits: 64, signed: true }),
        ],
        _ => vec![(model::val_big(v), model::phys_of(dt).expect("model: phys"))],
    }
}

pub fn unfields(dt: &DataType, like: &Val, f: &[BigInt]) -> Val {
    match like {
        Val::IntervalDT(_, _) => Val::IntervalDT(f[0].to_i32().unwrap(), f[1].to_i32().unwrap()),
        Val::IntervalMDN(_, _, _) => Val::IntervalMDN(f[0].to_i32().unwrap(), f[1].to_i32().unwrap(), f[2].to_i64().unwrap()),
        _ => model::big_val(dt, &f[0]),
    }
}

/// What the oracle accepts from an aggregate
#[derive(Debug)]
enum Want {
    /// Ok(None)
    Nothing,
    /// exactly this value
    Exactly(Val),
    /// must fail
    Fail,
    /// fail or this value (total fits, an intermediate does not)
    FailOr(Val),
    /// not asserted
    Free,
}

/// fold of an integer-field type; `mul`: product instead of sum
fn want_int_fold(dt: &DataType, vs: &[&Val], mul: bool, checked: bool) -> Want {
    if vs.is_empty() {
        return Want::Nothing;
    }
    let nf = fields(dt, vs[0]).len();
    let mut acc: Vec<BigInt> = vec![if mul { BigInt::one() } else { BigInt::zero() }; nf];
    let mut prefix_overflow = false;
    let mut phys: Vec<Phys> = Vec::new();
    for v in vs {
        let f = fields(dt, v);
        if phys.is_empty() {
            phys = f.iter().map(|x| x.1).collect();
        }
        for (i, (x, ph)) in f.iter().enumerate() {
            if mul {
                acc[i] = &acc[i] * x;
            } else {
                acc[i] = &acc[i] + x;
            }
            if !ph.fits(&acc[i]) {
                prefix_overflow = true;
            }
        }
    }
    let total_fits = acc.iter().zip(&phys).all(|(a, p)| p.fits(a));
    if !mul {
        // sums: any *contiguous* partial sum may legitimately be formed first
        // (sequential prefixes, whole runs of a run-end encoded array)
        for i in 0..nf {
            let ph = phys[i];
            let (mut best_max, mut best_min) = (BigInt::zero(), BigInt::zero());
            for v in vs {
                let x = &fields(dt, v)[i].0;
                best_max = if best_max.is_positive() { &best_max + x } else { x.clone() };
                best_min = if best_min.is_negative() { &best_min + x } else { x.clone() };
                if !ph.fits(&best_max) || !ph.fits(&best_min) {
                    prefix_overflow = true;
                }
            }
        }
    }
    if checked {
        if !total_fits {
            Want::Fail
        } else if prefix_overflow {
            // not asserted: accumulation order when only a partial result overflows
            Want::FailOr(unfields(dt, vs[0], &acc))
        } else {
            Want::Exactly(unfields(dt, vs[0], &acc))
        }
    } else {
        let w: Vec<BigInt> = acc.iter().zip(&phys).map(|(a, p)| p.wrap(a)).collect();
        Want::Exactly(unfields(dt, vs[0], &w))
    }
}

#[derive(Clone, Copy, PartialEq, Eq, Debug)]
enum FloatMode {
    /// every subset sum is exactly representable: sums asserted
    SumExact,
    /// every sub-product is exact: products asserted
    ProdExact,
    /// arbitrary values without negative NaNs: only min/max asserted
    MinMax,
    /// SumExact plus special values (inf / NaN): sums asserted up to NaN-ness
    SumSpecial,
}

fn want_float_sum(w: model::FW, vs: &[&Val]) -> Want {
    if vs.is_empty() {
        return Want::Nothing;
    }
    let mut s = 0.0f64;
    for v in vs {
        s += model::float_to_f64(v);
    }
    Want::Exactly(model::f64_to_float(w, s))
}

fn want_float_prod(w: model::FW, vs: &[&Val]) -> Want {
    if vs.is_empty() {
        return Want::Nothing;
    }
    let mut s = 1.0f64;
    for v in vs {
        s *= model::float_to_f64(v);
    }
    Want::Exactly(model::f64_to_float(w, s))
}

fn want_minmax(vs: &[&Val], max: bool) -> Want {
    if vs.is_empty() {
        return Want::Nothing;
    }
    let mut best = vs[0];
    let max = if model::broken("agg-minmax") && vs.len() > 64 { !max } else { max };
    for v in &vs[1..] {
        let c = cmp_vals(v, best);
        if (max && c.is_gt()) || (!max && c.is_lt()) {
            best = v;
        }
    }
    Want::Exactly(best.clone())
}

fn want_bits(dt: &DataType, vs: &[&Val], which: Agg) -> Want {
    if vs.is_empty() {
        return Want::Nothing;
    }
    let ph = model::phys_of(dt).unwrap();
    // sign-extended two's complement values: bit operations commute with the embedding
    let mut acc: i128 = match which {
        Agg::BitAnd => -1,
        _ => 0,
    };
    for v in vs {
        let x = v.int().unwrap();
        acc = match which {
            Agg::BitAnd => acc & x,
            Agg::BitOr => acc | x,
            _ => acc ^ x,
        };
    }
    Want::Exactly(model::big_val(dt, &ph.wrap(&BigInt::from(acc))))
}

fn float_zero(v: &Val) -> bool {
    match v {
        Val::F16(b) => b & 0x7FFF == 0,
        Val::F32(b) => b & 0x7FFF_FFFF == 0,
        Val::F64(b) => b & 0x7FFF_FFFF_FFFF_FFFF == 0,
        _ => false,
    }
}

/// equality for aggregate results: NaN ~ NaN; for sums the sign of zero is not asserted
fn agg_eq(a: &Val, b: &Val, sum_like: bool) -> bool {
    if model::val_eq(a, b) {
        return true;
    }
    sum_like && float_zero(a) && float_zero(b)
}

// ---------------------------------------------------------------- generation

fn null_pattern(rng: &mut Rng, n: usize) -> (Vec<bool>, &'static str) {
    if n == 0 {
        return (vec![], "empty");
    }
    match rng.below(12) {
        0 | 1 => (vec![true; n], "none"),
        2 => (vec![false; n], "all-null"),
        3 => {
            let k = rng.below(n);
            ((0..n).map(|i| i == k).collect(), "single-valid")
        }
        4 => {
            let k = rng.below(n);
            ((0..n).map(|i| i != k).collect(), "single-null")
        }
        5 => ((0..n).map(|i| i % 2 == 0).collect(), "alternating"),
        6 => ((0..n).map(|_| !rng.chance(1, 10)).collect(), "sparse"),
        7 => ((0..n).map(|_| rng.bool()).collect(), "half"),
        8 => ((0..n).map(|_| rng.chance(1, 10)).collect(), "dense"),
        9 => {
            // valid only in the tail that does not fill a 64-bit chunk / vector lane
            let k = n - n % 64.min(n.max(1));
            let k = if k == n { n.saturating_sub(1 + rng.below(8.min(n))) } else { k };
            ((0..n).map(|i| i >= k).collect(), "tail-only")
        }
        10 => {
            let k = rng.below(n + 1);
            ((0..n).map(|i| i < k).collect(), "head-only")
        }
        _ => {
            // whole 64-bit validity words alternate
            let ph = rng.below(2);
            ((0..n).map(|i| (i / 64) % 2 == ph).collect(), "word-blocks")
        }
    }
}

fn agg_len(rng: &mut Rng) -> usize {
    match rng.below(10) {
        0 => 1000 + rng.below(4000),
        1 | 2 => *rng.pick(&[0usize, 1, 2, 3, 4, 7, 8, 9, 15, 16, 17, 31, 32, 33, 63, 64, 65, 127, 128, 129, 130]),
        _ => rng.below(131),
    }
}

fn float_from_f64(dt: &DataType, x: f64) -> Val {
    model::f64_to_float(model::fw_of(dt).unwrap(), x)
}

fn gen_float_col(rng: &mut Rng, dt: &DataType, n: usize, mode: FloatMode) -> Vec<Val> {
    let p: i32 = match dt {
        DataType::Float16 => 11,
        DataType::Float32 => 24,
        _ => 53,
    };
    match mode {
        FloatMode::SumExact | FloatMode::SumSpecial => {
            // integers m_i * 2^j with n * max|m| <= 2^p: every partial sum in every order is exact
            let cap_bits = p - (usize::BITS - n.max(1).leading_zeros()) as i32 - 1;
            if cap_bits < 1 {
                return vec![float_from_f64(dt, 0.0); n];
            }
            let mbits = 1 + rng.below(cap_bits.min(40) as usize) as u32;
            let maxm = (1i64 << mbits) - 1;
            let j_range = match dt {
                DataType::Float16 => (-14 + 0, 15 - p - 1),
                DataType::Float32 => (-100, 100 - p),
                _ => (-900, 900 - p),
            };
            let j = rng.range(j_range.0 as i64, j_range.1.max(j_range.0) as i64) as i32;
            let scale = 2f64.powi(j);
            let mut out: Vec<Val> = (0..n)
                .map(|_| {
                    let m = match rng.below(6) {
                        0 => 0,
                        1 => maxm,
                        2 => -maxm,
                        _ => rng.range(-maxm, maxm),
                    };
                    if m == 0 && rng.chance(1, 4) {
                        float_from_f64(dt, -0.0)
                    } else {
                        float_from_f64(dt, m as f64 * scale)
                    }
                })
                .collect();
            if mode == FloatMode::SumSpecial && n > 0 {
                // +inf only, NaN, or both infinities
                let k = rng.below(3);
                let cnt = 1 + rng.below(3.min(n));
                for _ in 0..cnt {
                    let i = rng.below(n);
                    out[i] = float_from_f64(
                        dt,
                        match k {
                            0 => f64::INFINITY,
                            1 => f64::NAN,
                            _ => {
                                if rng.bool() {
                                    f64::INFINITY
                                } else {
                                    f64::NEG_INFINITY
                                }
                            }
                        },
                    );
                }
            }
            out
        }
        FloatMode::ProdExact => {
            // +-2^k with a bounded total exponent: every sub-product is exact and finite
            let emax: i32 = match dt {
                DataType::Float16 => 13,
                DataType::Float32 => 120,
                _ => 1000,
            };
            let per = (emax / n.max(1) as i32).min(12);
            (0..n)
                .map(|_| {
                    let k = if per == 0 { 0 } else { rng.range(-per as i64, per as i64) as i32 };
                    let s = if rng.bool() { 1.0 } else { -1.0 };
                    float_from_f64(dt, s * 2f64.powi(k))
                })
                .collect()
        }
        FloatMode::MinMax => (0..n)
            .map(|_| loop {
                let v = gens::gen_value(rng, dt, &gens::TypeCfg::all());
                // not asserted: negative-sign NaNs (docs: "any NaN is greatest", totalOrder: least)
                let neg_nan = model::float_is_nan(&v) && float_key(&v) < 0;
                if !neg_nan {
                    break v;
                }
            })
            .collect(),
    }
}

fn agg_value_type(rng: &mut Rng) -> DataType {
    use DataType::*;
    match rng.below(20) {
        0..=7 => rng.pick(&[Int8, Int16, Int32, Int64, UInt8, UInt16, UInt32, UInt64]).clone(),
        8..=11 => rng.pick(&[Float16, Float32, Float64]).clone(),
        12..=14 => {
            let bits = *rng.pick(&[32u32, 64, 128, 256]);
            let maxp = model::dec_max_precision(bits) as usize;
            let p = 1 + rng.below(maxp) as u8;
            model::dec_type(bits, p, rng.below(p as usize + 1) as i8)
        }
        15 => Duration(*rng.pick(&gens::TIME_UNITS)),
        16 => rng.pick(&[Date32, Date64, Time32(TimeUnit::Second), Time64(TimeUnit::Nanosecond), Timestamp(TimeUnit::Millisecond, None)]).clone(),
        17 => Interval(IntervalUnit::YearMonth),
        18 => Interval(IntervalUnit::DayTime),
        _ => Interval(IntervalUnit::MonthDayNano),
    }
}

fn gen_int_col(rng: &mut Rng, dt: &DataType, n: usize) -> Vec<Val> {
    // small: no overflow anywhere; boundary: overflow likely; mixed signs cancel
    let mode = rng.below(4);
    (0..n)
        .map(|_| match mode {
            0 => small_val(rng, dt),
            1 => gen_operand(rng, dt),
            2 => {
                if rng.chance(1, 8) {
                    gen_operand(rng, dt)
                } else {
                    small_val(rng, dt)
                }
            }
            _ => {
                // few distinct values
                let k = rng.below(3) as i64;
                small_of(dt, k - 1)
            }
        })
        .collect()
}

fn small_of(dt: &DataType, k: i64) -> Val {
    let unsigned = matches!(dt, DataType::UInt8 | DataType::UInt16 | DataType::UInt32 | DataType::UInt64);
    let k = if unsigned { k.abs() } else { k };
    match dt {
        DataType::Interval(IntervalUnit::DayTime) => Val::IntervalDT(k as i32, -k as i32),
        DataType::Interval(IntervalUnit::MonthDayNano) => Val::IntervalMDN(k as i32, -k as i32, k * 1000),
        DataType::Decimal256(_, _) => Val::Big(i256::from_i128(k as i128)),
        _ => Val::Int(k as i128),
    }
}

fn small_val(rng: &mut Rng, dt: &DataType) -> Val {
    match dt {
        DataType::Interval(IntervalUnit::DayTime) => Val::IntervalDT(rng.range(-9, 9) as i32, rng.range(-9, 9) as i32),
        DataType::Interval(IntervalUnit::MonthDayNano) => {
            Val::IntervalMDN(rng.range(-9, 9) as i32, rng.range(-9, 9) as i32, rng.range(-9, 9))
        }
        _ => small_of(dt, rng.range(-9, 9)),
    }
}

// ---------------------------------------------------------------- driver

/// error message class: digits stripped, cut at the first parenthesis
fn err_class(e: &str) -> String {
    let s = strip_digits(e).replace("-#", "#");
    s.split('(').next().unwrap_or("").trim().chars().take(80).collect()
}

/// `layout`: encoding plus the layout feature that matters for aggregates
/// (plain | dictionary | dictionary(value-nulls) | run-end | run-end(offset))
fn compare(ctx: &mut Ctx, what: &str, layout: &str, got: &Result<AggRes, crate::mon::PanicInfo>, want: &Want, sum_like: bool, witness: &dyn Fn() -> String) -> &'static str {
    let sigf = |kind: &str| format!("C12|agg|{what}|{layout}|{kind}");
    let got = match got {
        Err(p) => {
            if p.is_model() {
                ctx.inconclusive(&format!("model panic in {what}: {} @ {}", p.msg, p.loc));
            } else {
                ctx.violation(&sigf(&format!("panic|{}|{}", p.file(), strip_digits(&p.msg))), format!("panic {} @ {}\n{}", p.msg, p.loc, witness()));
            }
            return "panic";
        }
        Ok(g) => g,
    };
    match (want, got) {
        (Want::Free, _) => "free",
        (Want::Nothing, Ok(None)) => "none",
        (Want::Nothing, Ok(Some(v))) => {
            ctx.violation(&sigf("value-from-no-valid-rows"), format!("no valid value but got {v:?}\n{}", witness()));
            "viol"
        }
        (Want::Nothing, Err(e)) => {
            ctx.violation(&sigf(&format!("spurious-err|{}", err_class(e))), format!("no valid value but got Err({e})\n{}", witness()));
            "viol"
        }
        (Want::Exactly(w), Ok(Some(g))) | (Want::FailOr(w), Ok(Some(g))) => {
            if agg_eq(w, g, sum_like) {
                "ok"
            } else {
                ctx.violation(&sigf("wrong-value"), format!("expected {w:?} got {g:?}\n{}", witness()));
                "viol"
            }
        }
        (Want::Exactly(w), Ok(None)) | (Want::FailOr(w), Ok(None)) => {
            ctx.violation(&sigf("none-despite-valid-rows"), format!("expected {w:?} got None\n{}", witness()));
            "viol"
        }
        (Want::Exactly(w), Err(e)) => {
            ctx.violation(&sigf(&format!("spurious-err|{}", err_class(e))), format!("expected Ok({w:?}) got Err({e})\n{}", witness()));
            "viol"
        }
        (Want::FailOr(_), Err(_)) => "err-allowed",
        (Want::Fail, Err(_)) => "err",
        (Want::Fail, Ok(g)) => {
            ctx.violation(&sigf("missing-err"), format!("the exact result does not fit the type, got Ok({g:?})\n{}", witness()));
            "viol"
        }
    }
}

fn numeric_case(ctx: &mut Ctx, rng: &mut Rng) {
    let dt = agg_value_type(rng);
    let enc = match rng.below(10) {
        0..=5 => Enc::Plain,
        6 | 7 => Enc::Dict,
        _ => Enc::Ree,
    };
    let fw = model::fw_of(&dt);
    let fmode = *rng.pick(&[FloatMode::SumExact, FloatMode::SumExact, FloatMode::ProdExact, FloatMode::MinMax, FloatMode::SumSpecial]);
    let mut n = agg_len(rng);
    // encoded arrays: bounded distinct values / key capacity
    let key_dt = rng.pick(&[DataType::Int8, DataType::Int16, DataType::Int32, DataType::Int64, DataType::UInt8, DataType::UInt16, DataType::UInt32, DataType::UInt64]).clone();
    if enc == Enc::Dict && matches!(key_dt, DataType::Int8 | DataType::UInt8) {
        n = n.min(100);
    }
    if fw == Some(model::FW::F16) {
        n = n.min(500);
    }
    let mut payload: Vec<Val> = if fw.is_some() { gen_float_col(rng, &dt, n, fmode) } else { gen_int_col(rng, &dt, n) };
    if enc != Enc::Plain && n > 0 {
        // repeat values so that dictionaries stay small and runs exist
        let distinct = 1 + rng.below(12.min(n));
        let runs = rng.bool();
        let pool: Vec<Val> = payload[..distinct].to_vec();
        for i in 0..n {
            payload[i] = if runs && i > 0 && rng.chance(3, 4) { payload[i - 1].clone() } else { rng.pick(&pool).clone() };
        }
    }
    let (valid, pattern) = null_pattern(rng, n);
    let vals: Vec<Val> = payload.iter().zip(&valid).map(|(v, ok)| if *ok { v.clone() } else { Val::Null }).collect();
    let (arr, arr_dt): (ArrayRef, DataType) = match enc {
        Enc::Plain => {
            // null slots carry extreme payloads that would change every aggregate if counted
            let bait: Vec<Val> = payload
                .iter()
                .zip(&valid)
                .map(|(v, ok)| if *ok || fw.is_some() && rng.bool() { v.clone() } else if fw.is_some() { extreme_float(rng, &dt) } else { gen_operand(rng, &dt) })
                .collect();
            (bait_array(rng, &dt, &bait, &valid), dt.clone())
        }
        Enc::Dict => {
            let t = DataType::Dictionary(Box::new(key_dt.clone()), Box::new(dt.clone()));
            (build::realise(rng, &t, &vals), t)
        }
        Enc::Ree => {
            let re = rng.pick(&[DataType::Int16, DataType::Int32, DataType::Int64]).clone();
            let t = DataType::RunEndEncoded(Arc::new(Field::new("run_ends", re, false)), Arc::new(Field::new("values", dt.clone(), true)));
            (build::realise(rng, &t, &vals), t)
        }
    };
    let vs: Vec<&Val> = payload.iter().zip(&valid).filter(|(_, ok)| **ok).map(|(v, _)| v).collect();
    let results = guard(|| {
        let mut r = all_aggs(&dt, &arr, enc);
        if enc == Enc::Plain {
            r.extend(bit_aggs(&dt, &arr));
        }
        r
    });
    let fam = model::fam_name(&dt);
    let layout: String = match enc {
        Enc::Plain => "plain".into(),
        Enc::Dict => {
            if arr.as_any_dictionary().values().logical_null_count() > 0 { "dictionary(value-nulls)".into() } else { "dictionary".into() }
        }
        Enc::Ree => {
            if arr.offset() > 0 { "run-end(offset)".into() } else { "run-end".into() }
        }
    };
    let witness = || format!("type {arr_dt} (offset {}) pattern {pattern} values={} valid={}", arr.offset(), dump_vals(&vals), short_bits(&valid));
    ctx.count("agg_calls", 1);
    let results = match results {
        Ok(r) => r,
        Err(p) => {
            if p.is_model() {
                ctx.inconclusive(&format!("model panic in aggregates: {} @ {}", p.msg, p.loc));
            } else {
                ctx.eval();
                ctx.violation(
                    &format!("C12|agg|any|{fam}|{layout}|panic|{}|{}", p.file(), strip_digits(&p.msg)),
                    format!("panic {} @ {}\n{}", p.msg, p.loc, witness()),
                );
            }
            return;
        }
    };
    ctx.eval();
    for (which, got) in results {
        let sum_like = matches!(which, Agg::Sum | Agg::SumChecked | Agg::SumArray | Agg::SumArrayChecked);
        let prod_like = matches!(which, Agg::Product | Agg::ProductChecked);
        let checked = matches!(which, Agg::SumChecked | Agg::SumArrayChecked | Agg::ProductChecked);
        let want = match which {
            Agg::Min | Agg::MinArray => want_minmax(&vs, false),
            Agg::Max | Agg::MaxArray => want_minmax(&vs, true),
            Agg::BitAnd | Agg::BitOr | Agg::BitXor => want_bits(&dt, &vs, which),
            _ => match fw {
                Some(w) => {
                    if sum_like && matches!(fmode, FloatMode::SumExact | FloatMode::SumSpecial) {
                        want_float_sum(w, &vs)
                    } else if prod_like && fmode == FloatMode::ProdExact {
                        want_float_prod(w, &vs)
                    } else if vs.is_empty() {
                        Want::Nothing
                    } else {
                        // not asserted: float sums / products whose value depends on the association order
                        Want::Free
                    }
                }
                None => {
                    if prod_like && vs.len() > 200 {
                        Want::Free
                    } else {
                        want_int_fold(&dt, &vs, prod_like, checked)
                    }
                }
            },
        };
        let outcome = compare(ctx, which.name(), &layout, &Ok(got), &want, sum_like, &witness);
        if n > 0 {
            ctx.class(format!("agg|{}|{}|{layout}|{outcome}", which.name(), type_class(&dt)));
        }
    }
    if n > 0 {
        ctx.class(format!("aggpat|{fam}|{layout}|{pattern}|{}", if n > 130 { "long" } else if n >= 64 { "64+" } else { "short" }));
    }
    ctx.sample(|| witness());
}

fn extreme_float(rng: &mut Rng, dt: &DataType) -> Val {
    // includes negative NaN: null slots must never contribute
    let x = *rng.pick(&[f64::INFINITY, f64::NEG_INFINITY, f64::NAN, -f64::NAN, 1e300, -1e300, 65504.0, 3.0e38]);
    match dt {
        DataType::Float16 => Val::F16(if x.is_nan() { if x.is_sign_negative() { 0xFE00 } else { 0x7E00 } } else { model::f64_to_f16(x) }),
        DataType::Float32 => Val::F32((x as f32).to_bits()),
        _ => Val::F64(x.to_bits()),
    }
}

fn bool_case(ctx: &mut Ctx, rng: &mut Rng) {
    let n = agg_len(rng);
    let (valid, pattern) = null_pattern(rng, n);
    let bias = *rng.pick(&[(1u32, 2u32), (1, 50), (49, 50), (0, 1), (1, 1)]);
    let vals: Vec<Val> = valid.iter().map(|ok| if *ok { Val::Bool(rng.chance(bias.0, bias.1)) } else { Val::Null }).collect();
    let arr = build::realise(rng, &DataType::Boolean, &vals);
    let b = arr.as_boolean();
    let vs: Vec<bool> = vals.iter().filter_map(|v| v.as_bool()).collect();
    let want_and = if vs.is_empty() { None } else { Some(vs.iter().all(|x| *x)) };
    let want_or = if vs.is_empty() { None } else { Some(vs.iter().any(|x| *x)) };
    let got = guard(|| (ag::bool_and(b), ag::bool_or(b), ag::min_boolean(b), ag::max_boolean(b)));
    ctx.eval();
    ctx.count("agg_calls", 1);
    let witness = || format!("boolean (offset {}) pattern {pattern} values={} ", arr.offset(), dump_vals(&vals));
    match got {
        Err(p) => ctx.panic_violation("agg|bool", &p, witness()),
        Ok((a, o, mn, mx)) => {
            for (name, g, w) in [("bool_and", a, want_and), ("bool_or", o, want_or), ("min_boolean", mn, want_and), ("max_boolean", mx, want_or)] {
                if g != w {
                    ctx.violation(&format!("C12|agg|{name}|boolean|plain|wrong-value"), format!("{name}: expected {w:?} got {g:?}\n{}", witness()));
                }
                if n > 0 {
                    ctx.class(format!("agg|{name}|Boolean|{pattern}|{:?}", w));
                }
            }
        }
    }
}

fn gen_bytes_col(rng: &mut Rng, n: usize, utf8: bool, width: Option<usize>) -> Vec<Vec<u8>> {
    // shared prefixes around the 4-byte view prefix and the 12-byte inline limit
    let stem: Vec<u8> = if utf8 { b"prefix-shared-stem-".to_vec() } else { vec![0xFF, 0x00, 0x80, 0x7F, 0xFF, 0xFF, 0x00, 0x01, 0x02, 0x03, 0x04, 0x05, 0x06, 0x07] };
    (0..n)
        .map(|_| {
            let mut v: Vec<u8> = match rng.below(5) {
                0 => stem[..rng.below(stem.len() + 1)].to_vec(),
                1 => {
                    let mut s = stem[..*rng.pick(&[3usize, 4, 5, 11, 12, 13])].to_vec();
                    let extra = rng.below(4);
                    for _ in 0..extra {
                        s.push(if utf8 { b'a' + rng.below(3) as u8 } else { *rng.pick(&[0u8, 1, 0x7F, 0x80, 0xFF]) });
                    }
                    s
                }
                2 => vec![],
                _ => {
                    if utf8 {
                        gens::gen_string(rng).into_bytes()
                    } else {
                        gens::gen_bytes(rng)
                    }
                }
            };
            if let Some(w) = width {
                v.resize(w, if utf8 { b' ' } else { rng.u8() });
                v.truncate(w);
            }
            v
        })
        .collect()
}

fn bytes_case(ctx: &mut Ctx, rng: &mut Rng) {
    use DataType::*;
    let dt = rng.pick(&[Utf8, LargeUtf8, Utf8View, Binary, LargeBinary, BinaryView, FixedSizeBinary(0)]).clone();
    let dt = if let FixedSizeBinary(_) = dt { FixedSizeBinary(*rng.pick(&[0, 1, 2, 4, 5, 12, 13, 16])) } else { dt };
    let utf8 = matches!(dt, Utf8 | LargeUtf8 | Utf8View);
    let n = agg_len(rng).min(600);
    let (valid, pattern) = null_pattern(rng, n);
    let width = if let FixedSizeBinary(w) = &dt { Some(*w as usize) } else { None };
    let raw = gen_bytes_col(rng, n, utf8, width);
    let vals: Vec<Val> = raw
        .iter()
        .zip(&valid)
        .map(|(b, ok)| {
            if !*ok {
                Val::Null
            } else if utf8 {
                Val::Str(String::from_utf8(b.clone()).expect("model: utf8"))
            } else {
                Val::Bytes(b.clone())
            }
        })
        .collect();
    let arr = build::realise(rng, &dt, &vals);
    let vs: Vec<&[u8]> = vals.iter().filter_map(|v| v.as_bytes()).collect();
    let want_min: Option<Vec<u8>> = vs.iter().min().map(|b| b.to_vec());
    let want_max: Option<Vec<u8>> = vs.iter().max().map(|b| b.to_vec());
    let got = guard(|| -> (Option<Vec<u8>>, Option<Vec<u8>>) {
        let a = arr.as_ref();
        match &dt {
            Utf8 => (ag::min_string(a.as_string::<i32>()).map(|s| s.as_bytes().to_vec()), ag::max_string(a.as_string::<i32>()).map(|s| s.as_bytes().to_vec())),
            LargeUtf8 => (ag::min_string(a.as_string::<i64>()).map(|s| s.as_bytes().to_vec()), ag::max_string(a.as_string::<i64>()).map(|s| s.as_bytes().to_vec())),
            Utf8View => (ag::min_string_view(a.as_string_view()).map(|s| s.as_bytes().to_vec()), ag::max_string_view(a.as_string_view()).map(|s| s.as_bytes().to_vec())),
            Binary => (ag::min_binary(a.as_binary::<i32>()).map(|s| s.to_vec()), ag::max_binary(a.as_binary::<i32>()).map(|s| s.to_vec())),
            LargeBinary => (ag::min_binary(a.as_binary::<i64>()).map(|s| s.to_vec()), ag::max_binary(a.as_binary::<i64>()).map(|s| s.to_vec())),
            BinaryView => (ag::min_binary_view(a.as_binary_view()).map(|s| s.to_vec()), ag::max_binary_view(a.as_binary_view()).map(|s| s.to_vec())),
            _ => (ag::min_fixed_size_binary(a.as_fixed_size_binary()).map(|s| s.to_vec()), ag::max_fixed_size_binary(a.as_fixed_size_binary()).map(|s| s.to_vec())),
        }
    });
    ctx.eval();
    ctx.count("agg_calls", 1);
    let witness = || format!("type {dt} pattern {pattern} values={}", dump_vals(&vals));
    match got {
        Err(p) => ctx.panic_violation("agg|bytes-minmax", &p, witness()),
        Ok((mn, mx)) => {
            if mn != want_min {
                ctx.violation(&format!("C12|agg|min|bytes|{}|wrong-value", type_class(&dt)), format!("min: expected {:?} got {:?}\n{}", want_min, mn, witness()));
            }
            if mx != want_max {
                ctx.violation(&format!("C12|agg|max|bytes|{}|wrong-value", type_class(&dt)), format!("max: expected {:?} got {:?}\n{}", want_max, mx, witness()));
            }
            if n > 0 {
                ctx.class(format!("agg|minmax|{}|{pattern}|{}", type_class(&dt), if vs.is_empty() { "none" } else { "some" }));
            }
        }
    }
}

pub fn run(ctx: &mut Ctx) {
    let total = ctx.tier.pick(100, 640_000, 6_000_000);
    let t0 = std::time::Instant::now();
    let cap = super::Cap::new(ctx, 12);
    for i in ctx.cases("agg", total) {
        if ctx.out_of_time() || cap.over() {
            break;
        }
        let mut rng = ctx.begin("agg", i);
        super::guarded(ctx, "agg", |ctx| match rng.below(10) {
            0 => bool_case(ctx, &mut rng),
            1 => bytes_case(ctx, &mut rng),
            _ => numeric_case(ctx, &mut rng),
        });
    }
    ctx.count("ms_agg", t0.elapsed().as_millis() as u64);
}
